"""Engine D (part 2) — from an abstract string to an XML skeleton, and language inclusion of an
element's child sequences in a schema content model.

The skeleton keeps alternation and iteration as wrapper nodes, holes as markers with the lexical
context they sit in (attribute value with its quote, character data, tag, element list).
"""

from __future__ import annotations

import re
import xml.etree.ElementTree as ET

from .report import AnalysisError
from .strabs import Alt, Cat, Hole, Lit, S, Star, holes
from .xsd import ANY

M0, M1 = "\ue000", "\ue001"
_MARK = re.compile("\ue000(\\d+)\ue001")

TEXT, TAG, ADQ, ASQ, PI, COMMENT = "text", "tag", 'attr"', "attr'", "pi", "comment"


class Marker:
    def __init__(self, idx, hole, ctx, values=None):
        self.idx = idx
        self.hole = hole
        self.ctx = ctx
        self.values = values  # finite literal alternatives (for Alt of literals in attr/text)
        self.elem = None  # clark of the element the marker sits in
        self.attr = None  # attribute name if in an attribute

    def __repr__(self):
        return "<Marker %d %s %r>" % (self.idx, self.ctx, self.hole if self.hole is not None else self.values)


class Node:
    def __init__(self, tag, attrs, kind="elem"):
        self.tag = tag
        self.attrs = attrs  # name -> raw string (markers embedded)
        self.kind = kind  # elem | alt | opt | star
        self.children = []
        self.text = []  # raw text chunks (markers embedded), for elem nodes
        self.parent = None

    def iter(self):
        yield self
        for c in self.children:
            yield from c.iter()

    def elems(self):
        for n in self.iter():
            if n.kind == "elem":
                yield n

    def __repr__(self):
        return "<Node %s %s>" % (self.kind, self.tag)


class Skeleton:
    def __init__(self, root_nodes, markers, notes):
        self.roots = root_nodes
        self.markers = markers
        self.notes = notes

    def elems(self):
        for r in self.roots:
            yield from r.elems()

    def iter(self):
        for r in self.roots:
            yield from r.iter()


class _Scanner:
    """Lexical state of an XML text prefix (TEXT / TAG / attribute value / PI / comment)."""

    def __init__(self):
        self.state = TEXT
        self.prev = ""  # last two characters seen

    def feed(self, s):
        st = self.state
        prev = self.prev
        n = len(s)
        for i in range(n):
            ch = s[i]
            if st == TEXT:
                if ch == "<":
                    nxt = s[i + 1:i + 4]
                    if nxt.startswith("?"):
                        st = PI
                    elif nxt.startswith("!--"):
                        st = COMMENT
                    else:
                        st = TAG
            elif st == TAG:
                if ch == '"':
                    st = ADQ
                elif ch == "'":
                    st = ASQ
                elif ch == ">":
                    st = TEXT
            elif st == ADQ:
                if ch == '"':
                    st = TAG
            elif st == ASQ:
                if ch == "'":
                    st = TAG
            elif st == PI:
                if ch == ">" and prev[-1:] == "?":
                    st = TEXT
            elif st == COMMENT:
                if ch == ">" and prev[-2:] == "--":
                    st = TEXT
            prev = (prev + ch)[-2:]
        self.state = st
        self.prev = prev


def _pure_lit(s):
    """Literal string of an S made of Lits only, else None."""
    if isinstance(s, Lit):
        return s.s
    if isinstance(s, Cat):
        parts = [_pure_lit(i) for i in s.items]
        if any(p is None for p in parts):
            return None
        return "".join(parts)
    return None


class _Lineariser:
    def __init__(self):
        self.out = []
        self.sc = _Scanner()
        self.markers = []
        self.notes = []

    def emit(self, s):
        self.out.append(s)
        self.sc.feed(s)

    def marker(self, hole, values=None):
        m = Marker(len(self.markers), hole, self.sc.state, values)
        self.markers.append(m)
        return m

    def walk(self, s):
        st = self.sc.state
        if isinstance(s, Lit):
            self.emit(s.s)
        elif isinstance(s, Hole):
            if st == TAG:
                raise AnalysisError("template hole %r at %s sits inside a tag (element or attribute name position)"
                                    % (s, s.where))
            if st in (PI, COMMENT):
                return
            m = self.marker(s)
            self.out.append("%s%d%s" % (M0, m.idx, M1))
            self.sc.feed("x")
        elif isinstance(s, Cat):
            for i in s.items:
                self.walk(i)
        elif isinstance(s, Alt):
            lits = [_pure_lit(i) for i in s.items]
            if st in (ADQ, ASQ):
                if all(l is not None for l in lits):
                    m = self.marker(None, values=lits)
                    self.out.append("%s%d%s" % (M0, m.idx, M1))
                    return
                # alternatives containing holes inside an attribute value: treat each hole, join values
                for i in s.items:
                    self.walk(i)
                self.notes.append("alternation with holes inside attribute value flattened")
                return
            if st == TAG:
                if all(l is not None and re.fullmatch(r'(\s*(xmlns(:\w+)?="[^"]*"))*\s*', l) for l in lits):
                    self.emit(max(lits, key=len))
                    return
                if all(l is not None and re.fullmatch(r'(\s*[\w:]+="[^"<]*")*\s*', l) for l in lits):
                    # optional attributes: emit the longest, remember the optional ones
                    self.emit(max(lits, key=len))
                    self.notes.append("attribute alternatives in tag: longest taken %r" % lits)
                    return
                raise AnalysisError("alternation inside a tag not understood: %r" % (s,))
            if st == TEXT:
                if all(l is not None and "<" not in l for l in lits):
                    m = self.marker(None, values=lits)
                    self.out.append("%s%d%s" % (M0, m.idx, M1))
                    return
                self.out.append("<__alt__>")
                for i in s.items:
                    self.out.append("<__opt__>")
                    before = self.sc.state
                    self.walk(i)
                    if self.sc.state != TEXT:
                        raise AnalysisError("alternative does not end in element content: %r" % (i,))
                    self.out.append("</__opt__>")
                self.out.append("</__alt__>")
                return
        elif isinstance(s, Star):
            if st != TEXT:
                raise AnalysisError("iteration inside %s not understood: %r" % (st, s))
            self.out.append("<__star__>")
            self.walk(s.item)
            if self.sc.state != TEXT:
                raise AnalysisError("iterated fragment does not end in element content: %r" % (s,))
            self.out.append("</__star__>")
        else:
            raise AnalysisError("not an abstract string: %r" % (s,))


def skeleton(s, nsmap):
    """Parse abstract string `s` into a Skeleton (raises AnalysisError when not understood)."""
    lin = _Lineariser()
    lin.walk(s)
    text = "".join(lin.out)
    text = re.sub(r"<\?xml[^>]*\?>", "", text)
    decls = " ".join('xmlns:%s="%s"' % (p, u) for p, u in nsmap.items())
    doc = "<__root__ %s>%s</__root__>" % (decls, text)
    try:
        root = ET.fromstring(doc)
    except ET.ParseError as e:
        raise AnalysisError("template skeleton is not well-formed: %s ; near %r" % (
            e, doc[max(0, _col(e) - 80):_col(e) + 40]))
    markers = lin.markers

    def conv(el, parent):
        if el.tag == "__alt__":
            n = Node(None, {}, "alt")
        elif el.tag == "__opt__":
            n = Node(None, {}, "opt")
        elif el.tag == "__star__":
            n = Node(None, {}, "star")
        else:
            n = Node(el.tag, dict(el.attrib), "elem")
        n.parent = parent
        if el.text and el.text.strip():
            n.text.append(el.text)
        for c in el:
            n.children.append(conv(c, n))
            if c.tail and c.tail.strip():
                n.text.append(c.tail)
        return n

    top = conv(root, None)
    _mc_preprocess(top)
    roots = top.children
    for r in roots:
        r.parent = None
    sk = Skeleton(roots, markers, lin.notes)
    sk.top_text = top.text
    # attach markers to their element / attribute
    def owner_elem(n):
        while n is not None and n.kind != "elem":
            n = n.parent
        return n

    for n in top.iter():
        if n.kind == "elem" and n is not top:
            for an, av in n.attrs.items():
                for m in _MARK.finditer(av):
                    mk = markers[int(m.group(1))]
                    mk.elem, mk.attr, mk.node = n.tag, an, n
        for t in n.text:
            for m in _MARK.finditer(t):
                mk = markers[int(m.group(1))]
                o = owner_elem(n)
                mk.elem = o.tag if (o is not None and o is not top) else None
                mk.node = o if o is not top else None
                mk.attr = None
    return sk


MC_NS = "{http://schemas.openxmlformats.org/markup-compatibility/2006}"


def _mc_preprocess(node):
    """Markup-compatibility preprocessing: mc:AlternateContent is replaced by the content of its
    mc:Fallback (a consumer that understands no Choice namespace sees exactly that)."""
    new = []
    for c in node.children:
        if c.kind == "elem" and c.tag == MC_NS + "AlternateContent":
            for g in c.children:
                if g.kind == "elem" and g.tag == MC_NS + "Fallback":
                    for x in g.children:
                        x.parent = node
                        _mc_preprocess(x)
                        new.append(x)
            continue
        _mc_preprocess(c)
        new.append(c)
    node.children = new


def _col(e):
    try:
        return e.position[1]
    except Exception:  # noqa: BLE001
        return 0


# -- child-sequence regular expressions and inclusion ---------------------------------------------

def child_regex(node):
    """Regex over child element tags of an elem/opt/star node: list of items
    ("sym", tag) | ("alt", [seq, ...]) | ("star", seq)."""
    out = []
    for c in node.children:
        if c.kind == "elem":
            out.append(("sym", c.tag, c))
        elif c.kind == "alt":
            out.append(("alt", [child_regex(o) for o in c.children]))
        elif c.kind == "star":
            out.append(("star", child_regex(c)))
        elif c.kind == "opt":
            out.extend(child_regex(c))
    return out


class _NFA:
    def __init__(self):
        self.n = 0
        self.eps = {}
        self.tr = {}

    def new(self):
        self.n += 1
        return self.n - 1

    def build(self, seq, s, f):
        cur = s
        for it in seq:
            nxt = self.new()
            if it[0] == "sym":
                self.tr.setdefault(cur, []).append((it[1], nxt))
            elif it[0] == "alt":
                if not it[1]:
                    self.eps.setdefault(cur, []).append(nxt)
                for o in it[1]:
                    self.build(o, cur, nxt)
            elif it[0] == "star":
                a = self.new()
                self.eps.setdefault(cur, []).append(a)
                b = self.new()
                self.build(it[1], a, b)
                self.eps.setdefault(b, []).append(a)
                self.eps.setdefault(a, []).append(nxt)
            cur = nxt
        self.eps.setdefault(cur, []).append(f)

    def close(self, states):
        seen = set(states)
        st = list(states)
        while st:
            x = st.pop()
            for y in self.eps.get(x, ()):
                if y not in seen:
                    seen.add(y)
                    st.append(y)
        return frozenset(seen)


def included(seq, automaton):
    """Is L(seq) ⊆ L(automaton)?  Returns (True, None) or (False, counterexample word)."""
    nfa = _NFA()
    s, f = nfa.new(), nfa.new()
    nfa.build(seq, s, f)
    start = (nfa.close([s]), automaton.start)
    seen = {start: None}
    stack = [start]

    def word(k):
        w = []
        while seen[k] is not None:
            k, sym = seen[k]
            w.append(sym)
        return list(reversed(w))

    while stack:
        k = stack.pop()
        ns, ds = k
        if f in ns and not automaton.is_final(ds):
            return False, word(k) + ["<end: required element missing>"]
        moves = {}
        for x in ns:
            for sym, y in nfa.tr.get(x, ()):
                moves.setdefault(sym, set()).add(y)
        for sym, ys in moves.items():
            d2 = automaton.step(ds, sym)
            if not d2:
                return False, word(k) + [sym]
            k2 = (nfa.close(ys), d2)
            if k2 not in seen:
                seen[k2] = (k, sym)
                stack.append(k2)
    return True, None


def sample_words(seq, limit=4):
    """A few concrete child sequences of the regex (for evidence)."""
    outs = [[]]
    for it in seq:
        if it[0] == "sym":
            outs = [o + [it[1]] for o in outs]
        elif it[0] == "alt":
            new = []
            for o in outs:
                for alt_seq in it[1][:limit]:
                    for w in sample_words(alt_seq, 1):
                        new.append(o + w)
            outs = new[:limit] or outs
        elif it[0] == "star":
            w = sample_words(it[1], 1)
            outs = [o + (w[0] if w else []) for o in outs]
    return outs[:limit]
