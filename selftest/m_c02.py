"""C02 mutants."""

MUTANTS = [
    ("memo-target-ref", "relationship target_ref memoised again",
     [("src/pptx/opc/package.py", "    @property\n    def target_ref(self) -> str:", "    @lazyproperty\n    def target_ref(self) -> str:")],
     "R2.1 _Relationship.target_ref"),
    ("memo-partname-derived", "BaseSlidePart caches a name derived from its part name",
     [("src/pptx/parts/slide.py", "class BaseSlidePart(XmlPart):", "class BaseSlidePart(XmlPart):\n    @lazyproperty\n    def _member_name(self):\n        return self.partname.membername\n")],
     "R2.1 BaseSlidePart._member_name"),
    ("rid-from-caller", "hyperlink rId written from the caller's address string",
     [("src/pptx/text/text.py", "        rId = self.part.relate_to(url, RT.HYPERLINK, is_external=True)\n        self._rPr.add_hlinkClick(rId)",
       "        self.part.relate_to(url, RT.HYPERLINK, is_external=True)\n        self._rPr.add_hlinkClick(url)")],
     "R2.2"),
    ("part-fixed-name", "notes slide part constructed with a fixed part name",
     [("src/pptx/parts/slide.py", '            package.next_partname("/ppt/notesSlides/notesSlide%d.xml"),', '            PackURI("/ppt/notesSlides/notesSlide%d.xml" % len(package._rels)),')],
     "R2.3 NotesSlidePart._add_notes_slide_part"),
    ("part-not-related", "new slide part is not related to the presentation",
     [("src/pptx/parts/presentation.py", "        rId = self.relate_to(slide_part, RT.SLIDE)\n        return rId, slide_part.slide", "        rId = \"rId%d\" % (len(self._rels) + 1)\n        return rId, slide_part.slide")],
     "R2.3 SlidePart.new"),
    ("drop-without-remove", "hyperlink relationship dropped but a:hlinkClick left in place",
     [("src/pptx/text/text.py", "        self.part.drop_rel(self._hlinkClick.rId)\n        self._rPr._remove_hlinkClick()", "        self.part.drop_rel(self._hlinkClick.rId)")],
     "R2.4 _Hyperlink._remove_hlinkClick"),
    ("registry-wrong-class", "notes slide content type registered to SlidePart",
     [("src/pptx/__init__.py", "    CT.PML_NOTES_SLIDE: NotesSlidePart,", "    CT.PML_NOTES_SLIDE: SlidePart,")],
     "R2.5 NotesSlidePart"),
    ("writer-skips-rels", "writer omits the rels item of parts",
     [("src/pptx/opc/serialized.py", "            if part._rels:  # pyright: ignore[reportPrivateUsage]\n                phys_writer.write(part.partname.rels_uri, part.rels.xml)\n", "")],
     "R2.6 PackageWriter._write_parts"),
    ("save-subset", "save passes only the presentation part's direct targets",
     [("src/pptx/opc/package.py", "PackageWriter.write(pkg_file, self._rels, tuple(self.iter_parts()))", "PackageWriter.write(pkg_file, self._rels, tuple(r.target_part for r in self._rels.values()))")],
     "R2.6 OpcPackage.save"),
]

MUTANTS += [
    ("remove-before-drop", "hyperlink element removed before drop_rel counts the references",
     [("src/pptx/action.py", "        rId = hlink.rId\n        if rId:\n            self.part.drop_rel(rId)\n        self._element.remove(hlink)\n\n    @property\n    def _hlink(self) -> CT_Hyperlink | None:\n        \"\"\"\n        Reference to the `a:hlinkClick` or `a:hlinkHover` element for this\n        click action.",
       "        rId = hlink.rId\n        self._element.remove(hlink)\n        if rId:\n            self.part.drop_rel(rId)\n\n    @property\n    def _hlink(self) -> CT_Hyperlink | None:\n        \"\"\"\n        Reference to the `a:hlinkClick` or `a:hlinkHover` element for this\n        click action.")],
     "R2.4 ActionSetting._clear_click_action"),
    ("drop-rel-always-pops", "drop_rel pops whatever the reference count",
     [("src/pptx/opc/package.py", "        if self._rel_ref_count(rId) < 2:\n            self._rels.pop(rId)", "        if self._rel_ref_count(rId) < 3:\n            self._rels.pop(rId)")],
     "R2.4 XmlPart.drop_rel:count"),
]

MUTANTS += [
    ("placeholders-snapshot", "BaseSlide placeholders memoised as a tuple",
     [("src/pptx/slide.py", "        slides = self.part.package.presentation_part.presentation.slides\n        return tuple(s for s in slides if s.slide_layout == self)",
       "        slides = self.part.package.presentation_part.presentation.slides\n        return tuple(s for s in slides if s.slide_layout == self)\n\n    @lazyproperty\n    def _all_shapes(self):\n        return tuple(s for s in self.shapes)")],
     "R2.1 SlideLayout._all_shapes:snapshot"),
]

MUTANTS += [
    ("leaf-count-memoised", "Categories.leaf_count becomes a lazyproperty although add_category grows the list afterwards",
     [("src/pptx/chart/data.py", "        raise ValueError(\"category not in top-level categories\")\n\n    @property\n    def leaf_count(self):",
       "        raise ValueError(\"category not in top-level categories\")\n\n    @lazyproperty\n    def leaf_count(self):")],
     "R2.1 Categories.leaf_count"),
]

MUTANTS += [
    ("notes-partname-one-arm-not-allocated", "the notes-slide part name comes from the allocator on one arm only",
     [("src/pptx/parts/slide.py", "            package.next_partname(\"/ppt/notesSlides/notesSlide%d.xml\"),\n",
       "            (package.next_partname(\"/ppt/notesSlides/notesSlide%d.xml\") if slide_part.partname.idx is None\n             else PackURI(\"/ppt/notesSlides/notesSlide%d.xml\" % slide_part.partname.idx)),\n")],
     "R2.3 NotesSlidePart._add_notes_slide_part"),
    ("workbook-blob-memoised", "the workbook bytes of a chart-data object are computed once",
     [("src/pptx/chart/data.py", "    @property\n    def xlsx_blob(self):", "    @lazyproperty\n    def xlsx_blob(self):")],
     "R2.1 _BaseChartData.xlsx_blob"),
]

MUTANTS += [
    ("media-part-content-equality", "media parts compare equal when their SHA1 is equal",
     [("src/pptx/parts/media.py", "    @lazyproperty\n    def sha1(self)",
       "    def __eq__(self, other):\n        return isinstance(other, MediaPart) and self.sha1 == other.sha1\n\n    def __hash__(self):\n        return hash(self.sha1)\n\n    @lazyproperty\n    def sha1(self)")],
     "R2.8 MediaPart.__eq__"),
]

MUTANTS += [
    ("embedded-pptx-main-type", "an embedded presentation is declared with the main presentation content type",
     [("src/pptx/parts/embeddedpackage.py", "    content_type = CT.PML_PRESENTATION\n", "    content_type = CT.PML_PRESENTATION_MAIN\n")],
     "R2.5 EmbeddedPackagePart.new"),
]
