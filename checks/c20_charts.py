def run(ctx, prog, S, M):
    pass
