"""Which instance fields a member of a class (transitively) reads, and which external callables it applies.

`deps(prog, cls, name)` -> (fields, calls): `fields` are the `self.<f>` loads that do not resolve to a method/property
of the class (i.e. stored state), followed through `self.<member>` loads that do; `calls` are dotted names of every
call made on the way.  Used for "X is a function of the stored bytes only" rules.
"""

from __future__ import annotations

import ast

from .pysrc import dotted


def deps(prog, cls, name, _seen=None):
    seen = _seen if _seen is not None else set()
    fields, calls = set(), set()
    if name in seen:
        return fields, calls
    seen.add(name)
    f = prog.lookup(cls, name)
    if f is None:
        fields.add(name)
        return fields, calls
    for n in ast.walk(f.node):
        if isinstance(n, ast.Attribute) and isinstance(n.value, ast.Name) and n.value.id in ("self", "cls") \
                and isinstance(n.ctx, ast.Load):
            if prog.lookup(cls, n.attr) is not None:
                fs, cs = deps(prog, cls, n.attr, seen)
                fields |= fs
                calls |= cs
            else:
                fields.add(n.attr)
        if isinstance(n, ast.Call):
            d = dotted(n.func)
            if d:
                calls.add(d)
    return fields, calls


def stored_from_param(init, field):
    """Name of the __init__ parameter stored unchanged into self.<field>, or None."""
    params = {a.arg for a in init.node.args.args}
    for n in ast.walk(init.node):
        if isinstance(n, ast.Assign) and len(n.targets) == 1 and dotted(n.targets[0]) == "self." + field:
            if isinstance(n.value, ast.Name) and n.value.id in params:
                return n.value.id
            return None
    return None


def local_sources(fnode, name):
    """Right-hand sides of every assignment to local `name` in the function (own scope)."""
    out = []
    for n in ast.walk(fnode):
        if isinstance(n, ast.Assign):
            for t in n.targets:
                if isinstance(t, ast.Name) and t.id == name:
                    out.append(n.value)
        elif isinstance(n, (ast.AugAssign, ast.AnnAssign)) and isinstance(n.target, ast.Name) and n.target.id == name:
            out.append(n)
    return out


def field_aliases(prog, cls):
    """{field: representative} for instance fields that __init__ binds to the same value (`self._element = self._p = p`): the
    representative is the alphabetically first of each group."""
    import ast as _ast

    init = prog.lookup(cls, "__init__")
    if init is None:
        return {}
    groups = {}
    for n in _ast.walk(init.node):
        if isinstance(n, _ast.Assign):
            flds = [t.attr for t in n.targets if isinstance(t, _ast.Attribute) and isinstance(t.value, _ast.Name) and t.value.id == "self"]
            if not flds:
                continue
            key = _ast.unparse(n.value)
            if isinstance(n.value, _ast.Attribute) and isinstance(n.value.value, _ast.Name) and n.value.value.id == "self":
                key = "self." + n.value.attr  # self._p = self._element
                flds.append(n.value.attr)
            groups.setdefault(key, set()).update(flds)
    out = {}
    for g in groups.values():
        if len(g) > 1:
            rep = sorted(g)[0]
            for x in g:
                out[x] = rep
    return out
