"""C06 — shape ids, slide ids, relationship ids and part names are unique and stable (decidable clauses).

Rules
  R6.1  every shape-element factory call receives its id from a shape-id allocator (or the id of the element it replaces)
  R6.2  each allocator draws its population from a document-/collection-wide source and returns through a recognised
        fresh-value idiom; slide-id bounds agree with ST_SlideId and the schema facet
  R6.3  naming discipline: the "n+1" slide part name is only used through Slides.add_slide, and Slides objects are only
        built after rename_slide_parts on the same id list
  R6.4  stability: id attributes (cNvPr/@id, sldId/@id, relationship ids) are written only at creation sites
  R6.5  sibling allocators agree on their filters (informational)
"""

from __future__ import annotations

import ast

from sa.pysrc import dotted
from sa.report import AnalysisError
from sa.types import FCtx, Types, walk_own

ID_PARAMS = ("id_", "shape_id")


# -- idiom recognisers -----------------------------------------------------------------------------------
def _is_max(e, depth=0):
    """e is max(...) directly, or a property / method of the repository (among the helpers reachable from the allocator) whose
    every return is"""
    if isinstance(e, ast.Call) and dotted(e.func) == "max":
        return True
    if isinstance(e, ast.IfExp):
        return _is_max(e.body, depth) and (isinstance(e.orelse, ast.Constant) or _is_max(e.orelse, depth))
    if depth < 3 and isinstance(e, (ast.Attribute, ast.Call)):
        nm = (dotted(e.func if isinstance(e, ast.Call) else e) or "").split(".")[-1]
        g = HELPERS.get(nm)
        if g is not None:
            rets = [r.value for r in ast.walk(g) if isinstance(r, ast.Return) and r.value is not None]
            return bool(rets) and all(_is_max(r, depth + 1) or isinstance(r, ast.Constant) for r in rets) and any(_is_max(r, depth + 1) for r in rets)
    return False


def idiom_max_plus_one(fn):
    from sa import paths as P_

    val = P_.value_aliases(fn)
    for n in ast.walk(fn):
        if isinstance(n, ast.BinOp) and isinstance(n.op, ast.Add) and isinstance(n.right, ast.Constant) and n.right.value == 1:
            left = n.left
            if isinstance(left, ast.Name) and left.id in val:
                left = val[left.id]
            if _is_max(left):
                return "max(P)+1"
    return None


def idiom_path_plus_one(fn):
    """Decided per returning path: the value handed out is `X + 1`, X being the population maximum on that path, or a cached
    maximum that the same path advances to the value handed out (`m = cached if turbo else tree.max; n = m + 1; if turbo: cached = n`)."""
    if not isinstance(fn, (ast.FunctionDef, ast.AsyncFunctionDef)):
        return None
    from sa import paths as P_
    from sa.desugar import desugar as _ds

    fd = _ds(fn)
    n_paths = 0
    for pth in P_.enum_paths(fd.body):
        if pth.end != "return" or pth.end_node.value is None or not P_.feasible(pth):
            continue
        env = {}
        stores = {}
        for st in pth.stmts():
            if isinstance(st, ast.Assign) and len(st.targets) == 1:
                t = st.targets[0]
                if isinstance(t, ast.Name):
                    env[t.id] = st.value
                elif dotted(t):
                    stores[dotted(t)] = st.value

        def res(e, k=0):
            while isinstance(e, ast.Name) and e.id in env and k < 8:
                e, k = env[e.id], k + 1
            return e

        v = res(pth.end_node.value)
        if not (isinstance(v, ast.BinOp) and isinstance(v.op, ast.Add) and isinstance(v.right, ast.Constant) and v.right.value == 1):
            return None
        x = res(v.left)
        # (`<tree>.max_shape_id` is itself an allocator of this table, decided on its own to be the population maximum)
        if _is_max(x) or (dotted(x) or "").split(".")[-1] == "max_shape_id":
            n_paths += 1
            continue
        fld = dotted(x)
        if fld and fld in stores and ast.dump(res(stores[fld])) == ast.dump(v):
            n_paths += 1   # the cached maximum is advanced to the value handed out
            continue
        return None
    return "max(P)+1 / cached maximum advanced (decided per path)" if n_paths else None


def idiom_first_gap(fn):
    for n in ast.walk(fn):
        if isinstance(n, ast.For) and isinstance(n.iter, ast.Call) and dotted(n.iter.func) in ("range", "itertools.count", "count") \
                and isinstance(n.target, ast.Name):
            v = n.target.id
            args = n.iter.args
            asc = dotted(n.iter.func) == "range" and len(args) == 2 and isinstance(args[0], ast.Constant) and args[0].value == 1
            for c in ast.walk(n):
                if isinstance(c, ast.If) and isinstance(c.test, ast.Compare) and len(c.test.ops) == 1 \
                        and isinstance(c.test.ops[0], ast.NotIn) and any(isinstance(s, ast.Return) for s in c.body):
                    left = c.test.left
                    if isinstance(left, ast.Name) and (left.id == v or _assigned_from(n, left.id, v)):
                        return "first n not in P (ascending)" if asc else "candidate scan with `not in P`"
    return None


def _assigned_from(loop, name, v):
    for a in ast.walk(loop):
        if isinstance(a, ast.Assign) and any(isinstance(t, ast.Name) and t.id == name for t in a.targets):
            if any(isinstance(x, ast.Name) and x.id == v for x in ast.walk(a.value)):
                return True
    return False


def idiom_while_not_in(fn):
    for n in ast.walk(fn):
        if isinstance(n, ast.While):
            for c in ast.walk(n):
                if isinstance(c, ast.If) and isinstance(c.test, ast.Compare) and isinstance(c.test.ops[0], ast.NotIn) \
                        and any(isinstance(s, (ast.Break, ast.Return)) for s in c.body):
                    if any(isinstance(a, ast.AugAssign) for a in ast.walk(n)):
                        return "loop until candidate not in P"
    return None


def idiom_while_in(fn):
    """`while cand in P: cand = <next candidate>` - the loop can only be left with a candidate that is not in P."""
    for n in ast.walk(fn):
        if isinstance(n, ast.While) and isinstance(n.test, ast.Compare) and len(n.test.ops) == 1 and isinstance(n.test.ops[0], ast.In) \
                and isinstance(n.test.left, ast.Name) and not n.orelse:
            v = n.test.left.id
            if any(isinstance(a, ast.Assign) and any(isinstance(t, ast.Name) and t.id == v for t in a.targets) for a in ast.walk(n)) \
                    and not any(isinstance(x, ast.Break) for x in ast.walk(n)):
                return "loop while the candidate is in P"
    return None


def idiom_sorted_gap(fn):
    for n in ast.walk(fn):
        if isinstance(n, ast.For) and isinstance(n.iter, ast.Call) and dotted(n.iter.func) == "enumerate":
            has_lt = any(isinstance(c, ast.Compare) and isinstance(c.ops[0], ast.Lt) for c in ast.walk(n))
            srt = any(isinstance(c, ast.Call) and dotted(c.func) == "sorted" for c in ast.walk(fn))
            tail = any(isinstance(r, ast.Return) and isinstance(r.value, ast.BinOp) and isinstance(r.value.op, ast.Add)
                       and isinstance(r.value.left, ast.Call) and dotted(r.value.left.func) == "len" for r in ast.walk(fn))
            if has_lt and srt and tail:
                return "first gap in the sorted population, else len+1"
    return None


def idiom_next_unused_enumerate(fn):
    for n in ast.walk(fn):
        if isinstance(n, ast.Call) and dotted(n.func) == "next" and n.args and isinstance(n.args[0], ast.GeneratorExp):
            g = n.args[0]
            if any(isinstance(c, ast.Compare) and isinstance(c.ops[0], ast.NotEq) for c in ast.walk(g)) and any(
                    isinstance(c, ast.Call) and dotted(c.func) == "enumerate" for c in ast.walk(g)):
                return "first position where enumerate(sorted P) diverges"
    return None


def _binding(fn, name):
    vals = [n.value for n in ast.walk(fn) if isinstance(n, ast.Assign) and any(isinstance(t, ast.Name) and t.id == name for t in n.targets)]
    return vals[0] if len(vals) == 1 else None


def _int_elements(fn, seq, depth=0):
    """Is `seq` (an expression) a collection whose elements are integers by construction?  True / False (its elements are
    positively something else: part names, strings) / None (not decided)."""
    if depth > 5 or seq is None:
        return None
    if isinstance(seq, ast.Name):
        b_ = _binding(fn, seq.id)
        if b_ is None and isinstance(fn, (ast.FunctionDef, ast.AsyncFunctionDef)) and seq.id in [a_.arg for a_ in fn.args.args]:
            srcs = PARAM_SOURCES.get((fn.name, seq.id), [])
            rs_ = [_int_elements(cf, av, depth + 1) for cf, av in srcs]
            return None if not rs_ or None in rs_ else all(rs_)
        return _int_elements(fn, b_, depth + 1)
    if isinstance(seq, ast.Call) and dotted(seq.func) in ("sorted", "list", "set", "tuple", "cast") and seq.args:
        return _int_elements(fn, seq.args[-1] if dotted(seq.func) == "cast" else seq.args[0], depth + 1)
    # a property / helper of the allocator's own computation: decided on what it returns
    hname = None
    if isinstance(seq, ast.Attribute) and dotted(seq.value) in ("self", "cls"):
        hname = seq.attr
    elif isinstance(seq, ast.Call) and (dotted(seq.func) or "").split(".")[-1] in HELPERS:
        hname = (dotted(seq.func) or "").split(".")[-1]
    if hname is not None and hname in HELPERS:
        h = HELPERS[hname]
        rs_ = [_int_elements(h, r_.value, depth + 1) for r_ in ast.walk(h) if isinstance(r_, ast.Return) and r_.value is not None]
        return None if not rs_ or None in rs_ else all(rs_)
    if isinstance(seq, (ast.ListComp, ast.GeneratorExp, ast.SetComp)):
        e = seq.elt
        if isinstance(e, ast.Call) and dotted(e.func) == "int":
            return True
        if isinstance(e, ast.Attribute) and e.attr == "idx":
            return True  # PackURI.idx: int | None
        if isinstance(e, ast.Attribute) and e.attr in ("partname", "filename", "ext", "baseURI", "rId", "name"):
            return False  # strings: they sort lexicographically
        if isinstance(e, ast.Call) and dotted(e.func) in ("str", "PackURI"):
            return False
        if isinstance(e, ast.Name):
            for g in seq.generators:
                if isinstance(g.target, ast.Name) and g.target.id == e.id:
                    return _int_elements(fn, g.iter, depth + 1)
        return None
    return None


def gap_scan_problem(fn):
    """A first-gap scan (`enumerate(P)` compared position by position) is only sound over a numerically ascending P:
    the enumerated sequence must be sorted(...) of integers.  Returns a description of the problem or None; a description
    starting with "?" says that the order of P was not decided (an analysis gap, not a counter-fact)."""
    for n in ast.walk(fn):
        if isinstance(n, ast.Call) and dotted(n.func) == "enumerate" and n.args:
            seq = n.args[0]
            src = seq
            if isinstance(seq, ast.Name):
                src = _binding(fn, seq.id)
            if isinstance(seq, ast.Name) and src is None and isinstance(fn, (ast.FunctionDef, ast.AsyncFunctionDef)) \
                    and seq.id in [a_.arg for a_ in fn.args.args]:
                return "?the gap scan enumerates the parameter `%s`: whether it is sorted is not followed to the callers" % seq.id
            if not (isinstance(src, ast.Call) and dotted(src.func) == "sorted"):
                return "the gap scan enumerates `%s`, which is not sorted: in document order an id below an earlier one is skipped " \
                       "and a used value can be returned" % ast.unparse(seq)
            ie_ = None if src.keywords else _int_elements(fn, src.args[0])
            if ie_ is False:
                return "the gap scan enumerates `%s`, sorted by something other than the integer it is compared with (strings / " \
                       "part names sort image10 before image2)" % ast.unparse(seq)
            if ie_ is None:
                return "?the gap scan enumerates `%s`: what its elements are sorted by is not decided" % ast.unparse(seq)
    return None


def projection_problem(fn, prog):
    """A candidate scan that tests a *projection* of the names in use (`n not in {p.idx for p in parts}`) instead of the names
    themselves is sound only when the projection is defined for every name in the population.  PackURI.idx is None for a file name
    that is not letters followed by digits; when the scanned names come from a caller-supplied template (`tmpl % n`) such names
    are never seen as used and a used name is returned.  Returns a description or None."""
    if not isinstance(fn, (ast.FunctionDef, ast.AsyncFunctionDef)):
        return None
    params = [a.arg for a in fn.args.args]
    tmpl_params = {dotted(n.left) for n in ast.walk(fn) if isinstance(n, ast.BinOp) and isinstance(n.op, ast.Mod) and dotted(n.left) in params}
    for n in ast.walk(fn):
        if not (isinstance(n, ast.Compare) and len(n.ops) == 1 and isinstance(n.ops[0], (ast.In, ast.NotIn)) and isinstance(n.left, ast.Name)):
            continue
        coll = n.comparators[0]
        src = _binding(fn, coll.id) if isinstance(coll, ast.Name) else coll
        while isinstance(src, ast.Call) and dotted(src.func) in ("set", "frozenset", "list", "tuple", "sorted") and src.args:
            src = src.args[0]
        if not isinstance(src, (ast.SetComp, ast.ListComp, ast.GeneratorExp)):
            continue
        elt = src.elt
        if not (isinstance(elt, ast.Attribute) and isinstance(elt.value, (ast.Name, ast.Attribute))):
            continue
        uri = prog.modules.get("pptx.opc.packuri")
        pu = uri.classes.get("PackURI") if uri else None
        pr = prog.lookup(pu, elt.attr) if pu is not None else None
        if pr is None or pr.kind not in ("property", "lazyproperty"):
            continue
        partial = any(isinstance(r, ast.Return) and (r.value is None or (isinstance(r.value, ast.Constant) and r.value.value is None))
                      for r in ast.walk(pr.node))
        if partial and tmpl_params:
            return ("the scan tests `%s`, a set of PackURI.%s values, but PackURI.%s is None for a file name it does not parse (letters then "
                    "digits); the names come from the caller's template `%s`, so for a template with other characters no number ever counts "
                    "as used and the name of an existing part is returned" % (ast.unparse(n)[:50], elt.attr, elt.attr, sorted(tmpl_params)[0]))
    return None


def scan_exhaustion_problem(fn, seen=None):
    """`for n in range(...): if candidate(n) not in P: return` finds a free value only if at least |P|+1 distinct candidates are
    tried (pigeonhole).  Count the candidates (range length plus single candidates tested before the loop) as a polynomial
    in L = len(P) and require count >= L + 1.  Returns a description of the problem or None (also None when the loop is not
    of this shape)."""
    from sa.desugar import desugar as _ds
    from sa.poly import Poly, of_expr

    if isinstance(fn, (ast.FunctionDef, ast.AsyncFunctionDef)):
        fn = _ds(fn)  # counting while-loops become range loops

    def L(e):
        import copy

        class R(ast.NodeTransformer):
            def visit_Call(self, n):
                if dotted(n.func) == "len" and len(n.args) == 1:
                    return ast.Name(id="L", ctx=ast.Load())
                return self.generic_visit(n)
        return of_expr(R().visit(copy.deepcopy(e)))

    # the scan may also be written as a search expression: next((cand(n) for n in range(...) if cand(n) not in P), None), possibly
    # through a named generator and itertools.filterfalse(P.__contains__, ...): brought to one generator expression first
    import copy as _copy

    from sa import paths as _P
    from sa.desugar import _FuseGen, simplify_functional

    scans = [n for n in ast.walk(fn) if isinstance(n, ast.For)]
    if isinstance(fn, (ast.FunctionDef, ast.AsyncFunctionDef)):
        val_ = _P.value_aliases(fn)
        for c in ast.walk(fn):
            if isinstance(c, ast.Call) and dotted(c.func) == "next" and c.args:
                g = simplify_functional(ast.parse(_P.full(c.args[0], {k: v for k, v in val_.items() if isinstance(v, ast.GeneratorExp)}), mode="eval").body)
                g = _FuseGen().visit(g)
                if isinstance(g, ast.GeneratorExp) and len(g.generators) == 1:
                    ast.fix_missing_locations(g)
                    pseudo = ast.For(target=g.generators[0].target, iter=g.generators[0].iter,
                                     body=[ast.If(test=t_, body=[ast.Pass()], orelse=[]) for t_ in g.generators[0].ifs] or [ast.Pass()], orelse=[])
                    scans.append(pseudo)

    def has_not_in(n_):
        for c in ast.walk(n_):
            if isinstance(c, ast.Compare) and isinstance(c.ops[0], ast.NotIn):
                return True
            if isinstance(c, ast.UnaryOp) and isinstance(c.op, ast.Not) and isinstance(c.operand, ast.Compare) and isinstance(c.operand.ops[0], ast.In):
                return True
        return False

    for n in scans:
        if not (isinstance(n.iter, ast.Call) and dotted(n.iter.func) == "range"):
            continue
        if not has_not_in(n):
            continue
        a = n.iter.args
        if len(a) == 1:
            lo, hi, step = Poly.const(0), L(a[0]), 1
        elif len(a) == 2:
            lo, hi, step = L(a[0]), L(a[1]), 1
        else:
            st = a[2]
            sv = -st.operand.value if isinstance(st, ast.UnaryOp) and isinstance(st.op, ast.USub) and isinstance(st.operand, ast.Constant) else (
                st.value if isinstance(st, ast.Constant) else None)
            if sv not in (1, -1):
                return None
            lo, hi, step = L(a[0]), L(a[1]), sv
        count = (hi - lo) if step == 1 else (lo - hi)
        if "L" not in count.symbols():
            continue  # the range does not depend on the population size: another idiom
        if seen is not None:
            seen.append(n)
        # single candidates tested before the loop
        pre = 0
        for st in fn.body if hasattr(fn, "body") else []:
            if st is n:
                break
            if isinstance(st, ast.If) and isinstance(st.test, ast.Compare) and isinstance(st.test.ops[0], ast.NotIn) and any(isinstance(x, ast.Return) for x in st.body):
                pre += 1
        need = Poly.sym("L") + Poly.const(1)
        short = need - (count + Poly.const(pre))
        if short.is_const() and (short.const_value() or 0) <= 0:
            continue
        if short.is_const():
            return "the scan tries %r candidates for a population of L members (%d too few): when the only free value is not among them the " \
                   "allocator falls through to its 'impossible' exit" % (count + Poly.const(pre), short.const_value())
        return "the scan tries %r candidates for a population of L members; at least L+1 are needed" % (count + Poly.const(pre))
    return None


def idiom_len_plus_one(fn):
    from sa import paths as P_
    from sa.poly import Poly, of_expr

    val = P_.value_aliases(fn)
    env = {}
    for k, v in val.items():
        if isinstance(v, ast.Call) and dotted(v.func) == "len":
            env[k] = Poly.sym("len(%s)" % P_.full(v.args[0], val)) if v.args else None
    env = {k: v for k, v in env.items() if v is not None}
    for n in ast.walk(fn):
        if isinstance(n, ast.BinOp) and isinstance(n.op, ast.Add):
            p = of_expr(n, env)
            syms = [k for k in p.t if k != ()]
            if len(syms) == 1 and len(syms[0]) == 1 and syms[0][0].startswith("len(") and p.t[syms[0]] == 1 and p.t.get((), 0) == 1:
                return "len(P)+1 (sound only under the naming discipline R6.3)"
    return None


def idiom_counter(fn):
    from sa import paths as P_
    from sa.poly import Poly, of_expr

    for n in ast.walk(fn):
        if isinstance(n, ast.AugAssign) and isinstance(n.op, ast.Add) and isinstance(n.value, ast.Constant) and n.value.value == 1:
            return "cached counter += 1"
    # the same written out: `nxt = self.F + 1; self.F = nxt` (through single-assignment locals)
    val = P_.value_aliases(fn)
    for n in ast.walk(fn):
        if isinstance(n, ast.Assign) and len(n.targets) == 1 and isinstance(n.targets[0], ast.Attribute) and dotted(n.targets[0]):
            t = dotted(n.targets[0])
            v = ast.parse(P_.full(n.value, val), mode="eval").body
            if of_expr(v) == Poly.sym(t) + Poly.const(1):
                return "cached counter += 1"
    return None


def _parents(fn):
    par = {}
    for n in ast.walk(fn):
        for c in ast.iter_child_nodes(n):
            par[id(c)] = n
    return par


def fresh_expr(e, fn, par, depth=0):
    """Is the returned expression a fresh value by construction? (per-return-path check)"""
    if depth > 5 or e is None:
        return False
    if isinstance(e, ast.BinOp) and isinstance(e.op, ast.Add) and isinstance(e.right, ast.Constant) and e.right.value == 1:
        return True
    if isinstance(e, (ast.JoinedStr, ast.BinOp)) or (isinstance(e, ast.Call) and isinstance(e.func, ast.Attribute) and e.func.attr == "format"):
        # a name built from a template is fresh when one of the values formatted into it is
        from sa.strtpl import holes, template_of

        t = template_of(e)
        if t is not None and holes(t):
            return any(fresh_expr(h.expr, fn, par, depth + 1) for h in holes(t))
    if isinstance(e, ast.BinOp) and isinstance(e.op, ast.Mod):
        args = e.right.elts if isinstance(e.right, ast.Tuple) else [e.right]
        return any(fresh_expr(a, fn, par, depth + 1) for a in args)
    if isinstance(e, ast.Call):
        d = dotted(e.func) or ""
        if d == "next":
            return True
        if d.split(".")[-1] in ("PackURI", "str", "int") and e.args:
            return fresh_expr(e.args[0], fn, par, depth + 1)
        # call of a nested helper: all its returns must be fresh
        for n in ast.walk(fn):
            if isinstance(n, ast.FunctionDef) and n is not fn and n.name == d:
                rets = [r for r in ast.walk(n) if isinstance(r, ast.Return)]
                return bool(rets) and all(fresh_expr(r.value, n, _parents(n), depth + 1) for r in rets)
        # call of a helper method / module-level function of the repository (resolved by the caller through HELPERS)
        g = HELPERS.get(d.split(".")[-1])
        if g is not None and g is not fn:
            rets = [r for r in ast.walk(g) if isinstance(r, ast.Return)]
            par_g = _parents(g)
            return bool(rets) and all(_fresh_return(r, g, par_g, depth + 1) for r in rets)
        return False
    if isinstance(e, ast.IfExp):
        return fresh_expr(e.body, fn, par, depth + 1) and (isinstance(e.orelse, ast.Constant) or fresh_expr(e.orelse, fn, par, depth + 1))
    if isinstance(e, (ast.Name, ast.Attribute)):
        key = ast.unparse(e)
        # counter: `x += 1` somewhere before
        for n in ast.walk(fn):
            if isinstance(n, ast.AugAssign) and ast.unparse(n.target) == key and isinstance(n.op, ast.Add):
                if isinstance(e, ast.Attribute):
                    return True
        if isinstance(e, ast.Name):
            for n in ast.walk(fn):
                if isinstance(n, ast.While) and isinstance(n.test, ast.Compare) and isinstance(n.test.ops[0], ast.In) \
                        and isinstance(n.test.left, ast.Name) and n.test.left.id == e.id and not any(isinstance(x, ast.Break) for x in ast.walk(n)):
                    return True  # the loop is only left when the candidate is not in the population
            # loop candidate guarded by `not in` (the return, or the break that ends the loop, sits inside the guard)
            for n in ast.walk(fn):
                if isinstance(n, ast.If) and isinstance(n.test, ast.Compare) and len(n.test.ops) == 1 \
                        and isinstance(n.test.ops[0], ast.NotIn) and isinstance(n.test.left, ast.Name):
                    guard = n.test.left.id
                    if guard == e.id or _assigned_from(fn, guard, e.id) or _assigned_from(fn, e.id, guard):
                        if any(isinstance(x, (ast.Return, ast.Break)) for x in n.body):
                            return True
                if isinstance(n, ast.If) and isinstance(n.test, ast.Compare) and isinstance(n.test.ops[0], ast.Lt) \
                        and isinstance(n.test.left, ast.Name) and n.test.left.id == e.id:
                    return True  # sorted-gap scan: `if idx < used_idx: return idx`
            # assigned from a fresh expression
            for n in ast.walk(fn):
                if isinstance(n, ast.Assign) and any(isinstance(t, ast.Name) and t.id == e.id for t in n.targets):
                    if fresh_expr(n.value, fn, par, depth + 1):
                        return True
    return False


PARAM_SOURCES = {}  # (helper name, parameter) -> [(caller FunctionDef, argument expression)]
HELPERS = {}  # name -> FunctionDef of repository helpers reachable from the allocator under analysis (set per allocator)


def _fresh_return(r, fn, par, depth=0):
    if fresh_expr(r.value, fn, par, depth):
        return True
    p = par.get(id(r))
    # a constant (or a named lower bound) returned under `if not <population>:` is fresh: nothing is in use yet
    simple_ = isinstance(r.value, (ast.Constant, ast.Name)) or (isinstance(r.value, ast.Attribute) and dotted(r.value) is not None
                                                                and dotted(r.value).split(".")[0] in ("self", "cls"))   # a named bound of the class
    if isinstance(p, ast.If) and isinstance(p.test, ast.UnaryOp) and isinstance(p.test.op, ast.Not) and r in p.body and simple_:
        return True
    # the same decided on paths: every path ending in this return has established that a collection is empty
    if simple_ and isinstance(fn, (ast.FunctionDef, ast.AsyncFunctionDef)):
        from sa import paths as P_

        pths = [q for q in P_.enum_paths(fn.body) if q.end_node is r]
        if pths and all(any(a[0] == "truthy" and a[2] is False for a in P_.facts(q)) for q in pths):
            return True
    return False


IDIOMS = [idiom_max_plus_one, idiom_path_plus_one, idiom_first_gap, idiom_while_not_in, idiom_while_in, idiom_sorted_gap, idiom_next_unused_enumerate,
          idiom_len_plus_one, idiom_counter]

# allocator -> (module, qualname, population patterns that must all appear in the source, forbidden patterns)
ALLOCATORS = [
    ("pptx.shapes.shapetree", "_BaseShapes._next_shape_id", ["self._spTree.max_shape_id"], []),
    ("pptx.oxml.shapes.groupshape", "CT_GroupShape.max_shape_id", ["'//@id'"], ["'.//@id'", "'./"]),
    ("pptx.oxml.shapes.groupshape", "CT_GroupShape._next_shape_id", ["'//@id'"], ["'.//@id'", "'./"]),
    ("pptx.oxml.presentation", "CT_SlideIdList._next_id", ["'./p:sldId/@id'"], []),
    ("pptx.opc.package", "_Relationships._next_rId", ["self._rels"], []),
    ("pptx.opc.package", "OpcPackage.next_partname", ["self.iter_parts()"], []),
    ("pptx.package", "Package.next_image_partname", ["self.iter_parts()"], []),
    ("pptx.package", "Package.next_media_partname", ["self.iter_parts()"], []),
    ("pptx.parts.presentation", "PresentationPart._next_slide_partname", ["get_or_add_sldIdLst()", ("len-of", "get_or_add_sldIdLst()")], []),
    ("pptx.oxml.slide", "CT_TimeNodeList._next_cTn_id", ["'/p:sld/p:timing//p:cTn/@id'"], []),
    ("pptx.oxml.chart.chart", "CT_PlotArea.next_idx", [("any", ["self.sers", "self.iter_sers()", "./*/c:ser", "//c:ser"])], ["self.last_ser", "xCharts[-1]"]),
    ("pptx.oxml.chart.chart", "CT_PlotArea.next_order", [("any", ["self.sers", "self.iter_sers()", "./*/c:ser", "//c:ser"])], ["self.last_ser", "xCharts[-1]"]),
    ("pptx.shapes.shapetree", "_BaseShapes._next_ph_name", ["'//p:cNvPr/@name'"], ["'.//p:cNvPr", "'./p:"]),
]


def run(ctx):
    from checks.c10 import load

    prog, S, M = load(ctx.repo)

    from sa.xmlchemy_model import ALL_PARTS, mechanism_gate  # noqa: F401


    mechanism_gate(ctx, M, ("attr",))
    T = Types(prog, M)
    ctx.level = "other"
    ctx.trusted = ["CPython ast", "recognised fresh-value idioms (listed per allocator in the evidence)"]
    ctx.explanation = (
        "Uniqueness of newly assigned ids is decided structurally: each allocator must take its population from a "
        "document-/collection-wide source (absolute xpath, the whole relationship dict, every part of the package) and return "
        "through a recognised fresh-value idiom; every factory that writes an id must be fed by an allocator; id attributes must "
        "not be written after creation; the 'n+1' slide part name is only reachable after the renaming that makes it free.")
    ctx.not_decided = ["turbo-mode caching across several Slide proxies (documented caveat)",
                       "that an object looked up earlier by id still designates the same content (run-time)"]

    # -- R6.2 ------------------------------------------------------------------------------------------
    ctx.rule("R6.2", "allocators: wide population + fresh-value idiom")
    from sa.inline import walk_expanded

    listed = {q_ for _m, q_, _mu, _fo in ALLOCATORS}
    for mod, q, must, forbid in ALLOCATORS:
        try:
            f = prog.func(mod, q)
        except AnalysisError:
            # renamed: the allocator is the one other method of the class that draws on the same population
            f = None
            if "." in q:
                k_ = prog.modules[mod].classes.get(q.split(".")[0]) if mod in prog.modules else None
                cands = [g_ for nm_, g_ in (k_.methods.items() if k_ is not None else []) if g_.qualname not in listed
                         and all((m_ in ast.unparse(g_.node)) if isinstance(m_, str) else True for m_ in must)
                         and any(isinstance(x, ast.Return) and x.value is not None for x in ast.walk(g_.node))
                         and [m_ for m_ in must if isinstance(m_, str)]]
                if len(cands) == 1:
                    f = cands[0]
            if f is None:
                raise
        if q.endswith("._next_shape_id"):
            SHAPE_ID_ALLOCATORS.add(f.name)
        # the allocator together with the helpers / properties of the repository it computes through (extract-method refactors
        # move the scan or the population query into a helper; the rule is about the computation, not about one function body)
        reach = []
        from sa.inline import use_types as _ut6

        _ut6(T)   # a delegate object held in an attribute (`self._shape_ids.next_id()`) is followed by its type
        try:
            for _n, owner in walk_expanded(prog, f, depth=2):
                if owner not in reach:
                    reach.append(owner)
        finally:
            _ut6(None)
        src = "\n".join(ast.unparse(g.node) for g in reach)
        HELPERS.clear()
        for g in reach[1:]:
            HELPERS[g.name] = g.node
        # argument sources of helper parameters (for element-type questions about a parameter)
        PARAM_SOURCES.clear()
        for g in reach:
            for c in ast.walk(g.node):
                if isinstance(c, ast.Call) and (dotted(c.func) or "").split(".")[-1] in HELPERS:
                    h = HELPERS[(dotted(c.func) or "").split(".")[-1]]
                    ps = [a_.arg for a_ in h.args.args if a_.arg not in ("self", "cls")]
                    for pn, av in zip(ps, c.args):
                        PARAM_SOURCES.setdefault((h.name, pn), []).append((g.node, av))
        idi = []
        for g in reach:
            idi += [r for r in (fn(g.node) for fn in IDIOMS) if r]
        # and on the canonical form of the allocator (helpers of the module inlined, pipelines as loops)
        from sa.inline import expand as _exp6

        try:
            canon_ = _exp6(prog, f, depth=3, local_only=True)
        except Exception:  # noqa: BLE001
            canon_ = None
        if canon_ is not None:
            idi += [r for r in (fn(canon_) for fn in IDIOMS) if r]
        if q.endswith(".max_shape_id") and any(isinstance(n, ast.Call) and dotted(n.func) == "max" for g in reach for n in ast.walk(g.node)):
            idi = ["population maximum (consumed by _next_shape_id as max+1)"]
        def _has(m):
            if isinstance(m, str):
                return m in src
            if m[0] == "any":     # one of several ways to name the whole population
                return any(x in src for x in m[1])
            # ("len-of", suffix): some len(X) where X, with single-assignment locals substituted, is a call ending in suffix
            from sa import paths as P_
            for g in reach:
                val = P_.value_aliases(g.node)
                for c in ast.walk(g.node):
                    if isinstance(c, ast.Call) and dotted(c.func) == "len" and c.args and P_.full(c.args[0], val).endswith(m[1]):
                        return True
            return False

        miss = [m for m in must if not _has(m)]
        bad = [x for x in forbid if x in src]
        key = q
        exh = next((x for x in (scan_exhaustion_problem(g.node) for g in reach) if x), None)
        gap = next((x for x in (gap_scan_problem(g.node) for g in reach) if x), None)
        stale = [] if q.endswith(".max_shape_id") else _stale_returns(f, prog)
        proj = next((x for x in (projection_problem(g.node, prog) for g in reach) if x), None)
        if miss or bad:
            ctx.violation("R6.2", key + ":population", "allocator does not draw from the whole population (missing %s%s)" % (
                miss, (", found narrowing " + str(bad)) if bad else ""), file=f.file, line=f.line)
        elif not idi:
            # how the fresh value is computed is not understood: an analysis gap, not a counter-fact
            ctx.error(key, "no recognised fresh-value idiom in the allocator (max+1, first gap, candidate scan, counter ...)")
        elif proj:
            ctx.violation("R6.2", key + ":projection", proj, file=f.file, line=f.line)
        elif exh:
            ctx.violation("R6.2", key + ":exhaustion", exh, file=f.file, line=f.line)
        elif any("gap" in i or "enumerate" in i for i in idi) and gap and gap.startswith("?"):
            ctx.error(key, gap[1:])
        elif any("gap" in i or "enumerate" in i for i in idi) and gap:
            ctx.violation("R6.2", key + ":order", gap, file=f.file, line=f.line)
        elif stale:
            r = stale[0]
            opaque = [c for c in ast.walk(r.value) if isinstance(c, ast.Call) and (dotted(c.func) or "?").split(".")[-1] not in (
                "int", "len", "max", "min", "str", "format", "PackURI", "sorted", "list", "tuple", "set")]
            if opaque:
                ctx.error(key, "a return path yields `%s`, computed by `%s`, which this analysis does not interpret" % (
                    ast.unparse(r.value)[:80], ast.unparse(opaque[0].func)))
            else:
                ctx.violation("R6.2", key + ":return", "a return path yields `%s`, which is not fresh by construction" % ast.unparse(r.value),
                              file=f.file, line=r.lineno)
        else:
            ctx.ok("R6.2", key, sample={"allocator": f.fq, "population": must, "idiom": sorted(set(idi)), "through": [g.qualname for g in reach[1:]]})
    ctx.count("allocators", len(ALLOCATORS))
    # slide-id bounds
    f = prog.func("pptx.oxml.presentation", "CT_SlideIdList._next_id")
    # the bounds the allocator works with: the constants compared with the candidate (`simple_next <= MAX`) and the start of the
    # fallback scan (`enumerate(..., start=MIN)` / `max([MIN - 1] + ids)`), folded wherever they are defined
    reach = []
    for _n, owner in walk_expanded(prog, f, depth=2):
        if owner not in reach:
            reach.append(owner)
    consts = {}
    for g in reach:
        env = {}
        for n in walk_own(g.node):
            if isinstance(n, ast.Assign) and isinstance(n.targets[0], ast.Name):
                v = prog.const(n.value, g.module, env, g.cls)
                if isinstance(v, int):
                    env[n.targets[0].id] = v
            elif isinstance(n, ast.Assign) and isinstance(n.targets[0], ast.Tuple) and isinstance(n.value, ast.Tuple) \
                    and len(n.targets[0].elts) == len(n.value.elts):
                for t_, v_ in zip(n.targets[0].elts, n.value.elts):
                    v = prog.const(v_, g.module, env, g.cls)
                    if isinstance(t_, ast.Name) and isinstance(v, int):
                        env[t_.id] = v
        for n in ast.walk(g.node):
            if isinstance(n, ast.Compare) and len(n.ops) == 1 and isinstance(n.ops[0], (ast.LtE, ast.Lt)) and len(n.comparators) == 1:
                v = prog.const(n.comparators[0], g.module, env, g.cls)
                if isinstance(v, int) and v > 1 << 20:
                    consts["MAX_SLIDE_ID"] = v if isinstance(n.ops[0], ast.LtE) else v - 1
            if isinstance(n, ast.Compare) and len(n.ops) == 2:  # MIN <= id <= MAX
                lo_, hi_ = prog.const(n.left, g.module, env, g.cls), prog.const(n.comparators[1], g.module, env, g.cls)
                if isinstance(lo_, int) and isinstance(hi_, int):
                    consts["MIN_SLIDE_ID"], consts["MAX_SLIDE_ID"] = lo_, hi_
            if isinstance(n, ast.Call) and dotted(n.func) == "enumerate":
                for k in n.keywords:
                    if k.arg == "start":
                        v = prog.const(k.value, g.module, env, g.cls)
                        if isinstance(v, int):
                            consts["MIN_SLIDE_ID"] = v
    from sa.intervals import SimpleTypes

    st = SimpleTypes(prog)
    acc = st.accepted(prog.cls("pptx.oxml.simpletypes", "ST_SlideId"))
    pns = prog.nsmap["p"]
    lo, _, hi, _ = S.st_bounds((pns, "ST_SlideId"))
    have = (consts.get("MIN_SLIDE_ID"), consts.get("MAX_SLIDE_ID"))
    if have == (256, 2147483647) and (acc.lo, acc.hi) == (256, 2147483647) and (lo, hi) == (256, 2147483647 if hi == 2147483647 else hi) \
            and hi is not None and hi <= 2147483648:
        ctx.ok("R6.2", "slide-id-bounds", sample={"allocator": have, "ST_SlideId": (int(acc.lo), int(acc.hi)), "schema": (int(lo), int(hi))})
    elif None in have:
        ctx.error("slide-id-bounds", "the bounds the slide-id allocator works with were not found (%s)" % (have,))
    else:
        ctx.violation("R6.2", "slide-id-bounds", "slide id bounds disagree: allocator %s, simple type (%s, %s), schema (%s, %s)" % (
            have, acc.lo, acc.hi, lo, hi), file=f.file, line=f.line)

    # -- R6.1 ------------------------------------------------------------------------------------------
    ctx.rule("R6.1", "shape factories receive their id from an allocator")
    nsites = 0
    factories = _id_factories(prog, T)
    ctx.count("id_factories", len(factories))
    for fac, pid in sorted(factories.items(), key=lambda kv: kv[0].fq):
        ps = fac.params[1:] if fac.cls is not None and fac.kind != "staticmethod" else fac.params
        for g in prog.all_functions():
            gfc = None
            for c in walk_own(g.node):
                if not (isinstance(c, ast.Call) and ((isinstance(c.func, ast.Attribute) and c.func.attr == fac.name) or
                                                     (isinstance(c.func, ast.Name) and c.func.id == fac.name))):
                    continue
                gfc = gfc or FCtx(g)
                cal = [x for x, _ in T.callees(c, gfc)]
                if cal and fac not in cal:
                    continue
                if not cal and len(c.args) + len(c.keywords) != len(ps):
                    continue
                arg = None
                if pid in ps and ps.index(pid) < len(c.args):
                    arg = c.args[ps.index(pid)]
                for kw in c.keywords:
                    if kw.arg == pid:
                        arg = kw.value
                if arg is None:
                    continue
                nsites += 1
                key = "%s->%s" % (g.qualname, fac.qualname)
                src = _id_source(prog, T, g, arg, 0)
                if src:
                    ctx.ok("R6.1", key, sample={"call": "%s:%d" % (g.file, c.lineno), "id": ast.unparse(arg), "source": src})
                else:
                    ctx.violation("R6.1", key, "shape id `%s` does not come from a shape-id allocator" % ast.unparse(arg),
                                  file=g.file, line=c.lineno)
    ctx.count("factory_call_sites", nsites)

    # -- R6.3 ------------------------------------------------------------------------------------------
    ctx.rule("R6.3", "n+1 slide part name only after renaming")
    users = []
    for g in prog.all_functions():
        for n in walk_own(g.node):
            if isinstance(n, ast.Attribute) and n.attr == "_next_slide_partname" and g.name != "_next_slide_partname":
                users.append(g)
    if [u.qualname for u in users] == ["PresentationPart.add_slide"]:
        ctx.ok("R6.3", "_next_slide_partname users", sample={"users": ["PresentationPart.add_slide"]})
    else:
        ctx.violation("R6.3", "_next_slide_partname users", "n+1 slide part name used by %s" % [u.qualname for u in users],
                      file=users[0].file if users else None, line=users[0].line if users else None)
    callers = []
    for g in prog.all_functions():
        gfc = FCtx(g)
        for c in walk_own(g.node):
            if isinstance(c, ast.Call) and isinstance(c.func, ast.Attribute) and c.func.attr == "add_slide":
                rt = T.expr(c.func.value, gfc)
                if any(a[0] == "inst" and a[1].name == "PresentationPart" for a in rt) or not rt:
                    callers.append(g)
    if [g.qualname for g in callers] == ["Slides.add_slide"]:
        ctx.ok("R6.3", "PresentationPart.add_slide callers", sample={"callers": ["Slides.add_slide"]})
    else:
        ctx.violation("R6.3", "PresentationPart.add_slide callers", "part-level add_slide called from %s" % [g.qualname for g in callers])
    ctor = []
    slides_cls = prog.cls("pptx.slide", "Slides")
    for g in prog.all_functions():
        gfc = FCtx(g)
        for c in walk_own(g.node):
            if isinstance(c, ast.Call) and any(a[0] == "class" and a[1] is slides_cls for a in T.expr(c.func, gfc)):
                ctor.append((g, c))
    okc = len(ctor) == 1 and ctor[0][0].qualname == "Presentation.slides"
    if okc:
        from checks.c16 import slides_rename_facts

        sf = slides_rename_facts(prog)
        if not sf["recognised"]:
            ctx.error("Presentation.slides", "the rename_slide_parts / Slides(...) pair is not recognised")
        okc = sf["before"] and sf["same_list"]
    if okc:
        ctx.ok("R6.3", "Slides construction", sample={"site": "Presentation.slides", "order": "rename_slide_parts(sldIdLst) then Slides(sldIdLst)"})
    else:
        ctx.violation("R6.3", "Slides construction", "Slides is constructed without a preceding rename_slide_parts on the same id list",
                      file=ctor[0][0].file if ctor else None, line=ctor[0][1].lineno if ctor else None)
    from checks.c16 import rename_rule

    rename_rule(ctx, prog, "R6.3")

    # -- R6.4 ------------------------------------------------------------------------------------------
    ctx.rule("R6.4", "id attributes are written only at creation sites")
    id_classes = {"CT_NonVisualDrawingProps": "id", "CT_SlideId": "id", "CT_SlideMasterIdListEntry": "id", "CT_SlideLayoutIdListEntry": "id"}
    nstores = 0
    for g in prog.all_functions():
        if g.module.name == "pptx.oxml.xmlchemy":
            continue
        gfc = FCtx(g)
        for n in walk_own(g.node):
            if isinstance(n, ast.Assign):
                for t in n.targets:
                    if isinstance(t, ast.Attribute) and t.attr in ("id", "shape_id", "_rId", "rId") and not (
                            isinstance(t.value, ast.Name) and t.value.id == "self" and g.name == "__init__"):
                        bt = T.expr(t.value, gfc)
                        hit = [a[1].name for a in bt if a[0] == "inst" and (a[1].name in id_classes and t.attr == id_classes[a[1].name])]
                        if t.attr == "_rId" and g.name != "__init__":
                            hit.append("_Relationship")
                        if hit:
                            nstores += 1
                            ctx.violation("R6.4", "%s:%s" % (g.qualname, ast.unparse(t)), "existing id attribute of %s is reassigned" % hit[0],
                                          file=g.file, line=n.lineno)
    # setters that would allow id reassignment
    for cname in ("BaseShape", "BaseShapeElement"):
        for c in prog.classes_named(cname):
            if "shape_id" in c.setters:
                ctx.violation("R6.4", "%s.shape_id.setter" % cname, "shape id is assignable", file=c.file, line=c.setters["shape_id"].line)
    if nstores == 0:
        ctx.ok("R6.4", "no-id-reassignment", sample={"stores_to_id_attributes_outside_creation": 0,
                                                      "positive_control": "a store `cNvPr.id = ...` would be reported"})
    # -- R6.5 ------------------------------------------------------------------------------------------
    ctx.rule("R6.5", "sibling allocators agree on their filters")
    a = ast.unparse(prog.func("pptx.package", "Package.next_image_partname").node)
    b = ast.unparse(prog.func("pptx.package", "Package.next_media_partname").node)
    if ("idx is not None" in a) != ("idx is not None" in b):
        ctx.info("R6.5", "next_image_partname filters `idx is not None`, next_media_partname does not: a part named "
                         "/ppt/media/media.mp4 makes sorted() compare None with int (TypeError) - robustness, not uniqueness")
    ctx.ok("R6.5", "image/media siblings", nontrivial=False)


def _stale_returns(f, prog=None, _depth=0):
    def stale(node):
        par = _parents(node)
        return [r for r in walk_own(node) if isinstance(r, ast.Return) and r.value is not None and not _fresh_return(r, node, par)]

    out = stale(f.node)
    if out and prog is not None:
        # judge the canonical form (helpers of the module inlined: the freshness may come from an argument)
        from sa.inline import expand, resolve_callee

        out = stale(expand(prog, f, local_only=True))
        # a value handed on from a helper of the repository is as fresh as what the helper returns (judged on the helper)
        keep = []
        for r in out:
            v = r.value
            rc = resolve_callee(prog, f, v, {}) if isinstance(v, ast.Call) and _depth < 3 else None
            if rc is not None and hasattr(rc[0], "node") and rc[0].node is not f.node and not _stale_returns(rc[0], prog, _depth + 1):
                continue
            keep.append(r)
        out = keep
    return out


def _id_factories(prog, T):
    """Functions whose id parameter ends up in p:cNvPr/@id of a parsed template, directly or by passing it on."""
    from sa.strabs import S as AS
    from sa.templates import sinks
    from sa.xmlskel import skeleton

    base = set()
    sk, _, _ = sinks(prog, T)
    for s in sk:
        if not isinstance(s.value, AS):
            continue
        try:
            k = skeleton(s.value, prog.nsmap)
        except AnalysisError:
            continue
        for mk in k.markers:
            if mk.hole is not None and mk.attr == "id" and mk.elem and mk.elem.endswith("}cNvPr") \
                    and isinstance(mk.hole.expr, ast.Name) and mk.hole.expr.id in mk.hole.fc.fn.params:
                base.add((mk.hole.fc.fn, mk.hole.expr.id))
    facs = dict((f, p) for f, p in base)
    changed = True
    while changed:
        changed = False
        for g in prog.all_functions():
            if g in facs:
                continue
            gp = [p for p in g.params if p in ID_PARAMS]
            if not gp:
                continue
            gfc = FCtx(g)
            for c in walk_own(g.node):
                if isinstance(c, ast.Call):
                    for callee, skip in T.callees(c, gfc):
                        if callee in facs:
                            ps = callee.params[1:] if skip else callee.params
                            pid = facs[callee]
                            if pid in ps and ps.index(pid) < len(c.args) and isinstance(c.args[ps.index(pid)], ast.Name) \
                                    and c.args[ps.index(pid)].id == gp[0]:
                                facs[g] = gp[0]
                                changed = True
    return facs


SHAPE_ID_ALLOCATORS = {"_next_shape_id"}   # names the shape-id allocators go by on this tree (filled in by run())


def _id_source(prog, T, g, arg, depth):
    if depth > 4:
        return None
    if isinstance(arg, ast.Attribute) and arg.attr in SHAPE_ID_ALLOCATORS:
        return "allocator %s" % ast.unparse(arg)
    if isinstance(arg, ast.Attribute) and arg.attr in ("shape_id", "id") and "self" in ast.unparse(arg):
        return "id of the element being replaced (%s)" % ast.unparse(arg)
    if isinstance(arg, ast.Attribute) and isinstance(arg.value, ast.Name) and arg.value.id == "self" and g.cls is not None:
        # field set from a constructor parameter: follow the constructor's callers
        init = prog.lookup(g.cls, "__init__")
        if init is not None:
            for n in walk_own(init.node):
                if isinstance(n, ast.Assign) and any(dotted(t) == "self." + arg.attr for t in n.targets) \
                        and isinstance(n.value, ast.Name) and n.value.id in init.params:
                    i = init.params[1:].index(n.value.id)
                    outs = []
                    for h in prog.all_functions():
                        hfc = None
                        for c in walk_own(h.node):
                            if not isinstance(c, ast.Call):
                                continue
                            is_cls = isinstance(c.func, ast.Name) and c.func.id == "cls" and h.cls is not None and (
                                h.cls is init.cls or init.cls in prog.mro(h.cls))
                            hfc = hfc or FCtx(h)
                            is_named = any(a[0] == "class" and (a[1] is init.cls or init.cls in prog.mro(a[1]))
                                           for a in T.expr(c.func, hfc)) if not is_cls else False
                            if (is_cls or is_named) and i < len(c.args):
                                outs.append(_id_source(prog, T, h, c.args[i], depth + 1))
                    if outs and all(outs):
                        return "field <- constructor <- " + "; ".join(sorted(set(outs)))[:100]
    if isinstance(arg, ast.Name):
        for n in walk_own(g.node):
            if isinstance(n, ast.Assign):
                for t in n.targets:
                    if isinstance(t, ast.Name) and t.id == arg.id:
                        r = _id_source(prog, T, g, n.value, depth + 1)
                        if r:
                            return r
                    if isinstance(t, ast.Tuple):
                        for i, e in enumerate(t.elts):
                            if isinstance(e, ast.Name) and e.id == arg.id and isinstance(n.value, ast.Tuple):
                                r = _id_source(prog, T, g, n.value.elts[i], depth + 1)
                                if r:
                                    return r
        ps = g.params[1:] if g.cls is not None and g.kind != "staticmethod" else g.params
        if arg.id in ps:
            # parameter: every typed caller must pass an allocated id
            outs = []
            for h in prog.all_functions():
                hfc = None
                for c in walk_own(h.node):
                    if isinstance(c, ast.Call) and ((isinstance(c.func, ast.Attribute) and c.func.attr == g.name) or
                                                    (isinstance(c.func, ast.Name) and c.func.id == g.name)):
                        hfc = hfc or FCtx(h)
                        cal = [x for x, _ in T.callees(c, hfc)]
                        if cal and g not in cal:
                            continue
                        if not cal and len(c.args) + len(c.keywords) != len(ps):
                            continue
                        i = ps.index(arg.id)
                        a2 = c.args[i] if i < len(c.args) else next((k.value for k in c.keywords if k.arg == arg.id), None)
                        if a2 is None:
                            outs.append(None)
                        else:
                            outs.append(_id_source(prog, T, h, a2, depth + 1))
            if outs and all(outs):
                return "parameter <- " + "; ".join(sorted(set(outs)))[:100]
    return None
