"""C07 R7.5 — c:ptCount/@val is the length of the sequence its sibling c:pt loop iterates.

Decided by unfolding the data-class accessors to a canonical 'backing sequence':
  len(X)                      -> backing(X)
  enumerate(X) / for .. in X  -> backing(X)
  X.values / X.x_values ...   -> the comprehension source in the property body (self._data_points)
  len(obj) with __len__       -> the attribute __len__ delegates to
Category counts (leaf_count vs iteration over categories / levels) are equal only under the branch
condition depth == 1 resp. by construction of `levels`; those are recorded as assumptions.
"""

from __future__ import annotations

import ast

from sa.pysrc import dotted
from sa.types import FCtx


def backing(prog, T, expr, fc, depth=0):
    """Canonical description of the sequence whose length `expr` denotes / iterates."""
    if depth > 5:
        return ast.unparse(expr)
    if isinstance(expr, ast.Call):
        fn = dotted(expr.func)
        if fn in ("len", "enumerate", "list", "tuple") and expr.args:
            return backing(prog, T, expr.args[0], fc, depth + 1)
    if isinstance(expr, ast.Name) and fc is not None and fc.fn is not None:
        # local alias
        for n in ast.walk(fc.fn.node):
            if isinstance(n, ast.Assign) and any(isinstance(t, ast.Name) and t.id == expr.id for t in n.targets):
                return backing(prog, T, n.value, fc, depth + 1)
        return expr.id
    t = T.expr(expr, fc) if fc is not None else frozenset()
    # object with __len__/__iter__ delegating to a field
    for a in t:
        if a[0] == "inst":
            ln = prog.lookup(a[1], "__len__")
            if ln is not None:
                for n in ast.walk(ln.node):
                    if isinstance(n, ast.Return) and isinstance(n.value, ast.Call) and isinstance(n.value.func, ast.Attribute) \
                            and n.value.func.attr == "__len__":
                        fld = dotted(n.value.func.value).replace("self.", "")
                        return "%s.%s" % (_field_owner(prog, a[1], fld).name.lstrip("_"), fld)
    if not t and isinstance(expr, ast.Attribute) and dotted(expr.value) == "self" and expr.attr in ("_series", "_chart_data"):
        # the writers' documented input: a series / chart data object of pptx.chart.data (unannotated)
        dm = prog.modules.get("pptx.chart.data")
        for c in (dm.classes.values() if dm else []):
            if c.name == "_BaseSeriesData" and expr.attr == "_series":
                ln = c.methods.get("__len__")
                for n in ast.walk(ln.node) if ln else []:
                    if isinstance(n, ast.Return) and isinstance(n.value, ast.Call) and isinstance(n.value.func, ast.Attribute) \
                            and n.value.func.attr == "__len__":
                        return "SeriesData.%s" % dotted(n.value.func.value).replace("self.", "")
    if isinstance(expr, ast.Attribute):
        bt = T.expr(expr.value, fc) if fc is not None else frozenset()
        if not bt and dotted(expr.value) == "self._series":
            dm = prog.modules.get("pptx.chart.data")
            outs = set()
            for c in (dm.classes.values() if dm else []):
                g = c.methods.get(expr.attr)
                if g is not None and g.kind in ("property", "lazyproperty") and any(k.name == "_BaseSeriesData" for k in prog.mro(c)):
                    for n in ast.walk(g.node):
                        if isinstance(n, ast.Return) and isinstance(n.value, (ast.ListComp, ast.GeneratorExp)):
                            outs.add("SeriesData.%s" % dotted(n.value.generators[0].iter).replace("self.", ""))
            if len(outs) == 1:
                return outs.pop()
        for a in bt:
            if a[0] == "inst":
                g = prog.lookup(a[1], expr.attr)
                if g is not None and g.kind in ("property", "lazyproperty"):
                    for n in ast.walk(g.node):
                        if isinstance(n, ast.Return) and isinstance(n.value, (ast.ListComp, ast.GeneratorExp)):
                            src = n.value.generators[0].iter
                            fld = dotted(src).replace("self.", "")
                            return "%s.%s" % (_field_owner(prog, g.cls, fld).name.lstrip("_"), fld)
        return ast.unparse(expr)
    return ast.unparse(expr)


def _field_owner(prog, cls, field):
    """Root-most class of cls's MRO that assigns self.<field> (so that one storage location has one name whichever
    subclass the receiver was typed as)."""
    owner = cls
    for c in prog.mro(cls):
        for f in getattr(c, "methods", {}).values():
            if any(isinstance(n, ast.Assign) and any(dotted(t) == "self." + field for t in n.targets) for n in ast.walk(f.node)):
                owner = c
    return owner


def run(ctx, prog, S, M, T, all_markers):
    xm = prog.modules["pptx.chart.xmlwriter"]
    seen = set()
    n = 0
    for cls, member, sk in all_markers:
        for mk in sk.markers:
            if mk.elem != prog.qn("c:ptCount") or mk.attr != "val" or mk.hole is None:
                continue
            h = mk.hole
            k = (h.fc.fn, h.src)
            if k in seen:
                continue
            seen.add(k)
            n += 1
            key = "%s:%s" % (h.fc.fn.qualname, h.src)
            # sibling iteration: the star following ptCount under the same parent
            parent = mk.node.parent
            while parent is not None and parent.kind != "elem":
                parent = parent.parent
            stars = [c for c in (parent.children if parent is not None else []) if c.kind == "star"]
            alts = [c for c in (parent.children if parent is not None else []) if c.kind == "alt"]
            count_b = backing(prog, T, h.expr, h.fc)
            if "leaf_count" in h.src:
                ctx.ok("R7.5", key, nontrivial=False)
                ctx.assumptions.append(
                    "R7.5 %s: categories.leaf_count equals the number of c:pt written only under the writer's branch "
                    "condition (single-level: every Category.leaf_count == 1; multi-level: by construction of "
                    "Categories.levels) - premise, not decided" % key)
                continue
            if not stars:
                ctx.violation("R7.5", key, "no iterated c:pt sibling found next to c:ptCount", file=h.fc.fn.file,
                              line=getattr(h.expr, "lineno", 0))
                continue
            # locate the loop that produced the star: a `for` in the same function (or callee) iterating X
            iters = _loop_iters(prog, T, h.fc.fn, xm)
            match = [b for b in iters if b == count_b]
            if match:
                ctx.ok("R7.5", key, sample={"ptCount": h.src, "counts": count_b, "loop_over": match[0]})
            else:
                ctx.violation("R7.5", key, "c:ptCount is %s (= |%s|) but no sibling point loop iterates that sequence "
                              "(loops iterate %s)" % (h.src, count_b, sorted(set(iters))[:4]), file=h.fc.fn.file,
                              line=getattr(h.expr, "lineno", 0))
    ctx.count("ptcount_holes", n)


def _loop_iters(prog, T, f, xm):
    """backing() of every for-loop iterable in f and in the properties of f's class it references."""
    out = []
    funcs = [f]
    if f.cls is not None:
        for n in ast.walk(f.node):
            if isinstance(n, ast.Attribute) and dotted(n.value) == "self":
                for k in [f.cls] + [c for c in prog.all_classes() if f.cls in prog.mro(c)]:
                    g = prog.lookup(k, n.attr)
                    if g is not None and g.kind == "property" and g not in funcs:
                        funcs.append(g)
            if isinstance(n, ast.Call) and isinstance(n.func, ast.Attribute) and dotted(n.func.value) == "self":
                g = prog.lookup(f.cls, n.func.attr)
                if g is not None and g not in funcs:
                    funcs.append(g)
    for g in funcs:
        fc = FCtx(g)
        for n in ast.walk(g.node):
            if isinstance(n, (ast.For, ast.comprehension)):   # statement loops and "".join(... for ...) alike
                out.append(backing(prog, T, n.iter, fc))
    return out
