"""Pairing of xmlchemy attribute declarations with schema attributes (shared by C11, C20, C09).

For each attribute declaration of each registered element class, and each schema type that declares
an element of the registered tag, find the schema attribute of that name.  The Python simple-type /
enum class is thereby paired with a schema simple type *by use*, not by name.
"""

from __future__ import annotations

from .pysrc import ClassRef


class Pair:
    __slots__ = ("cls", "decl", "tag", "tq", "attr", "pycls")

    def __init__(self, cls, decl, tag, tq, attr, pycls):
        self.cls = cls
        self.decl = decl
        self.tag = tag
        self.tq = tq
        self.attr = attr  # xsd.Attr or None
        self.pycls = pycls  # ClassInfo of the simple type / enum or None


def attr_clark(prog, name):
    return prog.qn(name) if ":" in name else name


def complex_types_for(S, clark):
    return sorted(t for t in S.elem_decls.get(clark, ()) if t in S.ctypes)


def relevant_types(prog, S, M, tag, _cache={}):
    """Schema types of `tag` in which the registered class is actually reached: types T such that some
    parent type PT (with child tag -> T) is served by a registered class that declares or mentions this
    child.  When no parent qualifies for any candidate (roots, elements reached only by distant xpath)
    every candidate is kept."""
    key = (id(M), tag)
    if key in _cache:
        return _cache[key]
    clark = prog.qn(tag)
    cands = complex_types_for(S, clark)
    if len(cands) <= 1:
        _cache[key] = cands
        return cands
    served = {}
    for t, c, _, _ in M.registry:
        for tq in complex_types_for(S, prog.qn(t)):
            served.setdefault(tq, []).append(c)
    keep = []
    for T in cands:
        ok = S.global_elems.get(clark) == T  # global elements are roots / xsd:any content: always reachable
        for PT in S.elem_parents.get(clark, ()):
            if S.child_type(PT, clark) != T:
                continue
            for pc in served.get(PT, ()):
                if M.child_decl_for_tag(pc, tag) is not None or _mentions(prog, pc, tag):
                    ok = True
        if ok:
            keep.append(T)
    res = keep or cands
    _cache[key] = res
    return res


def _mentions(prog, cls, tag):
    import ast as _ast

    for k in prog.mro(cls):
        for f in list(k.methods.values()) + list(k.setters.values()):
            for n in _ast.walk(f.node):
                if isinstance(n, _ast.Constant) and isinstance(n.value, str) and tag in n.value:
                    return True
    return False


def pairings(prog, S, M):
    out = []
    unregistered = []
    by_class = {}
    for tag, cls, mod, line in M.registry:
        by_class.setdefault(cls, []).append(tag)
    for cls in M.oxml_classes():
        decls = M.attr_decls(cls)
        if not decls:
            continue
        tags = by_class.get(cls, [])
        if not tags:
            # abstract base: served through its registered subclasses
            continue
        for d in decls:
            pycls = d.st.cls if isinstance(d.st, ClassRef) else None
            for tag in tags:
                for tq in relevant_types(prog, S, M, tag):
                    attrs = S.attrs_of(tq)
                    a = attrs.get(attr_clark(prog, d.attr))
                    out.append(Pair(cls, d, tag, tq, a, pycls))
    return out


def schema_types_for_pyclass(pairs):
    """pycls -> {schema simple type qname: [Pair...]} from the pairings where the attribute exists."""
    m = {}
    for p in pairs:
        if p.attr is not None and p.pycls is not None and p.attr.type is not None:
            m.setdefault(p.pycls, {}).setdefault(p.attr.type, []).append(p)
    return m
