"""C08 mutants."""

X = "src/pptx/chart/xlsx.py"
D = "src/pptx/chart/data.py"

MUTANTS = [
    ("values-ref-bottom-row", "values reference one row short",
     [(X, '                "bottom_row": len(series) + 1,', '                "bottom_row": len(series),')],
     "R8.2 CategoryWorkbookWriter.values_ref"),
    ("series-col-ignores-depth", "series column ignores the category depth",
     [(X, "        column_number = 1 + series.categories.depth + series.index", "        column_number = 2 + series.index")],
     "R8.2 CategoryWorkbookWriter.values_ref"),
    ("series-written-one-right", "series columns written one column further right",
     [(X, "            series_col = idx + col_offset\n", "            series_col = idx + col_offset + 1\n")],
     "R8.2 CategoryWorkbookWriter.values_ref"),
    ("cat-levels-not-reversed", "category levels written left to right from the leaves",
     [(X, "            col = depth - idx - 1\n", "            col = idx\n")],
     "R8.2 CategoryWorkbookWriter.categories_ref"),
    ("cat-ref-top-row", "categories reference starts at the heading row",
     [(X, '        return "Sheet1!$A$2:$%s$%d" % (right_col, bottom_row)', '        return "Sheet1!$A$1:$%s$%d" % (right_col, bottom_row)')],
     "R8.2 CategoryWorkbookWriter.categories_ref"),
    ("cat-rows-zero-based", "category rows written without the heading offset",
     [(X, "            row = off + 1\n", "            row = off\n")],
     "R8.2 CategoryWorkbookWriter.categories_ref"),
    ("xy-y-ref-column-a", "Y values reference points at column A",
     [(X, '        return "Sheet1!$B$%d:$B$%d" % (top_row, bottom_row)', '        return "Sheet1!$A$%d:$A$%d" % (top_row, bottom_row)')],
     "R8.2 XyWorkbookWriter.y_values_ref"),
    ("xy-x-written-as-y", "worksheet writes Y values into the X column",
     [(X, "            worksheet.write_column(offset + 1, 0, series.x_values, chart_num_format)\n            # write Y values\n            worksheet.write(offset, 1, series.name)\n            worksheet.write_column(offset + 1, 1, series.y_values, series_num_format)\n\n\nclass BubbleWorkbookWriter",
       "            worksheet.write_column(offset + 1, 0, series.y_values, chart_num_format)\n            # write Y values\n            worksheet.write(offset, 1, series.name)\n            worksheet.write_column(offset + 1, 1, series.x_values, series_num_format)\n\n\nclass BubbleWorkbookWriter")],
     "XyWorkbookWriter"),
    ("xy-bottom-row", "XY bottom row one too far",
     [(X, "        top_row = self.series_table_row_offset(series) + 2\n        bottom_row = top_row + len(series) - 1\n        return \"Sheet1!$A$%d:$A$%d\" % (top_row, bottom_row)",
       "        top_row = self.series_table_row_offset(series) + 2\n        bottom_row = top_row + len(series)\n        return \"Sheet1!$A$%d:$A$%d\" % (top_row, bottom_row)")],
     "R8.2 XyWorkbookWriter.x_values_ref"),
    ("xy-offset-no-spacer", "series tables packed without the spacer row",
     [(X, "        title_and_spacer_rows = series.index * 2", "        title_and_spacer_rows = series.index")],
     "R8.2 XyWorkbookWriter.series_table_row_offset"),
    ("bubble-size-ref-column", "bubble sizes reference points at column B",
     [(X, '        return "Sheet1!$C$%d:$C$%d" % (top_row, bottom_row)', '        return "Sheet1!$B$%d:$B$%d" % (top_row, bottom_row)')],
     "R8.2 BubbleWorkbookWriter.bubble_sizes_ref"),
    ("bubble-name-row", "bubble series name written one row down",
     [(X, "            worksheet.write(offset, 1, series.name)\n            worksheet.write_column(offset + 1, 1, series.y_values, series_num_format)\n            # write bubble sizes",
       "            worksheet.write(offset + 1, 1, series.name)\n            worksheet.write_column(offset + 1, 1, series.y_values, series_num_format)\n            # write bubble sizes")],
     "BubbleWorkbookWriter"),
    ("y-ref-delegates-to-x", "series y_values_ref asks for the x reference",
     [(D, "        return self._chart_data.y_values_ref(self)", "        return self._chart_data.x_values_ref(self)")],
     "y_values_ref"),
    ("bubble-data-xy-writer", "bubble chart data builds an XY workbook writer",
     [(D, "        return BubbleWorkbookWriter(self)", "        return XyWorkbookWriter(self)")],
     "R8.3 BubbleChartData._workbook_writer"),
    ("dpo-counts-self", "data_point_offset accumulates before the identity test",
     [(D, "            if series is this_series:\n                return count\n            count += len(this_series)", "            count += len(this_series)\n            if series is this_series:\n                return count")],
     "R8.2 data_point_offset"),
]

MUTANTS += [
    ("epoch-1900-01-01", "1900 epoch is 1900-01-01 (serials one too small)",
     [(D, "        epoch = date(1904, 1, 1) if date_1904 else date(1899, 12, 31)", "        epoch = date(1904, 1, 1) if date_1904 else date(1900, 1, 1)")],
     "R8.4 Category._excel_date_number"),
    ("leap-threshold", "leap-year adjustment from day 61",
     [(D, "        if not date_1904 and excel_day_number > 59:", "        if not date_1904 and excel_day_number >= 61:")],
     "R8.4 Category._excel_date_number"),
    ("epoch-1904-shift", "1904 epoch is 1903-12-31",
     [(D, "        epoch = date(1904, 1, 1) if date_1904 else date(1899, 12, 31)", "        epoch = date(1903, 12, 31) if date_1904 else date(1899, 12, 31)")],
     "R8.4 Category._excel_date_number"),
]

W = "src/pptx/chart/xmlwriter.py"
MUTANTS += [
    ("xy-smooth-category-rewriter", "XY_SCATTER_SMOOTH dropped from the rewriter table",
     [(W, "        XL_CT.XY_SCATTER_SMOOTH: _XySeriesXmlRewriter,\n", "")],
     "R8.5 chart-type XY_SCATTER_SMOOTH"),
    ("leap-date-form", "leap adjustment tested on the date, one day late",
     [(D, "        if not date_1904 and excel_day_number > 59:", "        if not date_1904 and date_ > date(1900, 3, 1):")],
     "R8.4 Category._excel_date_number"),
]

MUTANTS += [
    ("leaf-count-memoised", "the leaf count of the categories is computed once",
     [(D, "        raise ValueError(\"category not in top-level categories\")\n\n    @property\n    def leaf_count(self):",
       "        raise ValueError(\"category not in top-level categories\")\n\n    @lazyproperty\n    def leaf_count(self):")],
     "R8.8 Categories.leaf_count"),
    ("workbook-blob-memoised", "the workbook writer composes its blob once",
     [(X, "    @property\n    def xlsx_blob(self):", "    @functools.cached_property\n    def xlsx_blob(self):"),
      (X, "import io", "import functools\nimport io")],
     "R8.8 _BaseWorkbookWriter.xlsx_blob"),
]
