"""C03 rules R3.4 (raw attribute writes), R3.5a (guards first), R3.5b (no half-initialised attach)."""

from __future__ import annotations

import ast

from sa.effects import ADDS_EMPTY, NAMES, WRITES, Effects
from sa.pysrc import dotted
from sa.types import FCtx, walk_own
from sa.xmlchemy_model import choice_prop
from sa.xmlvalid import check_value



def _preorder(fnode):
    """id(node) -> position in a depth-first, source-order traversal of the function"""
    out = {}

    def go(n):
        out[id(n)] = len(out)
        for c in ast.iter_child_nodes(n):
            go(c)
    go(fnode)
    return out

def run(ctx, prog, S, M, T, hints):
    E = Effects(prog, S, M, T)

    # -- R3.4 ------------------------------------------------------------------------------------
    ctx.rule("R3.4", "attribute writes that bypass the typed xmlchemy setters write constants valid for the attribute")
    nraw = 0
    for f in prog.all_functions():
        if f.module.name == "pptx.oxml.xmlchemy":
            continue
        fc = FCtx(f)
        for n in walk_own(f.node):
            if isinstance(n, ast.Call) and isinstance(n.func, ast.Attribute) and n.func.attr == "set" and len(n.args) == 2:
                bt = T.expr(n.func.value, fc)
                if not E._elem_like(bt):
                    continue
                nraw += 1
                key = "%s@%s.set" % (f.qualname, ast.unparse(n.func.value))
                name = prog.const(n.args[0], f.module)
                val = prog.const(n.args[1], f.module)
                if not isinstance(name, str):
                    ctx.error("%s:%d" % (f.file, n.lineno), "raw .set() with a non-literal attribute name")
                    continue
                if name.startswith("{http://www.w3.org/2001/XMLSchema-instance}"):
                    ctx.ok("R3.4", key, sample={"site": "%s:%d" % (f.file, n.lineno), "attr": name, "note": "xsi attribute"},
                           nontrivial=False)
                    continue
                # receiver classes -> schema attribute type
                classes = [a[1] for a in bt if a[0] == "inst" and M.is_oxml_class(a[1])]
                tags = []
                for c in classes:
                    tags += M.tags_for_class(c) or [t for sc in prog.subclasses(c) for t in M.tags_for_class(sc)]
                checked = 0
                bad = None
                values = None
                if isinstance(val, str):
                    values = [val]
                else:
                    values = _string_values(prog, f, n.args[1])
                if values is None:
                    ctx.violation("R3.4", key, "raw .set(%r, <computed>) bypasses the typed setter" % name,
                                  file=f.file, line=n.lineno)
                    continue
                for t in tags:
                    for tq in sorted(x for x in S.elem_decls.get(prog.qn(t), ()) if x in S.ctypes):
                        a = S.attrs_of(tq).get(name)
                        if a is None:
                            bad = "attribute %r is not declared on %s" % (name, S.tname(tq))
                            continue
                        for v in values:
                            checked += 1
                            r = check_value(S, a.type, v)
                            if r:
                                bad = r
                if bad or not checked:
                    ctx.violation("R3.4", key, bad or "attribute/receiver could not be matched to the schema",
                                  file=f.file, line=n.lineno)
                else:
                    ctx.ok("R3.4", key, sample={"site": "%s:%d" % (f.file, n.lineno), "attr": name, "values": values,
                                                "elements": tags})
    ctx.count("raw_attribute_writes", nraw)

    # -- R3.5a -------------------------------------------------------------------------------------
    ctx.rule("R3.5a", "no validity-relevant document mutation precedes an explicit raise on any path of a function")
    nfun = 0
    nraise = 0
    for f in E.funcs:
        if f.module.name == "pptx.oxml.xmlchemy":
            continue
        raises = [n for n in walk_own(f.node) if isinstance(n, ast.Raise)]
        if not raises:
            continue
        nfun += 1
        nraise += len(raises)
        hits = E.effects_before_raise(f, relevant_only=True)
        if not hits:
            ctx.ok("R3.5a", f.qualname, nontrivial=E.relevant.get(f, False),
                   sample={"function": f.fq, "raises": len(raises), "mutates": bool(E.relevant.get(f))}
                   if E.relevant.get(f) else None)
            continue
        for r, effs in hits:
            st, lvl, w = effs[0]
            what = w.what if w.callee is None else "call of %s" % w.callee.qualname
            ctx.violation("R3.5a", "%s:raise@%s" % (f.qualname, _exc(r)),
                          "document is mutated (%s, line %d) before this refusal: a rejected call leaves the change behind" % (
                              what, st.lineno), file=f.file, line=r.lineno)
    ctx.count("functions_with_raise", nfun)
    ctx.count("raise_sites", nraise)

    # -- R3.5c -------------------------------------------------------------------------------------
    ctx.rule("R3.5c", "a value is not handed to a refusing setter / method of another object after the document was already changed for it")

    def refuses(g):
        """parameters of g that g refuses (ValueError / TypeError) in a guard at the top of its body, before it changes anything"""
        out = set()
        ps = set(g.params[1:] if (g.cls is not None and g.kind != "staticmethod") else g.params)
        for st in g.node.body:
            if isinstance(st, ast.Expr) and isinstance(st.value, ast.Constant):
                continue
            if isinstance(st, ast.If) and any(isinstance(x, ast.Raise) for x in st.body) and not st.orelse:
                exc = [x for x in st.body if isinstance(x, ast.Raise)][0].exc
                en = dotted(exc.func) if isinstance(exc, ast.Call) else dotted(exc) if exc is not None else None
                if en in ("ValueError", "TypeError"):
                    out |= {x.id for x in ast.walk(st.test) if isinstance(x, ast.Name) and x.id in ps}
                continue
            break
        return out

    nhand = 0
    for f in E.funcs:
        if f.module.name == "pptx.oxml.xmlchemy" or not f.module.name.startswith("pptx.") or f.module.name.startswith("pptx.oxml"):
            continue
        fparams = set(f.params)
        fc = FCtx(f)

        def handoff(st, f=f, fc=fc, fparams=fparams):
            # `obj.prop = <parameter of f>` through a hand-written setter that refuses its value
            if isinstance(st, ast.Assign) and len(st.targets) == 1 and isinstance(st.targets[0], ast.Attribute) \
                    and isinstance(st.value, ast.Name) and st.value.id in fparams:
                t = st.targets[0]
                for a in T.expr(t.value, fc):
                    if a[0] == "inst" and not M.is_oxml_class(a[1]):
                        g = prog.lookup_setter(a[1], t.attr)
                        if g is not None and g is not f and g.params[1:] and g.params[1] in refuses(g):
                            return g
            return None

        hits = E.effects_before_raise(f, relevant_only=True, refusal_pred=lambda st: handoff(st) is not None)
        for st, effs in hits:
            if isinstance(st, ast.Raise):
                continue
            g = handoff(st)
            if g is None:
                continue
            nhand += 1
            st0, lvl, w = effs[0]
            what = w.what if w.callee is None else "call of %s" % w.callee.qualname
            ctx.violation("R3.5c", "%s->%s" % (f.qualname, g.qualname), "the document is changed first (%s, line %d) and the value is then handed to %s, "
                          "which refuses what it does not accept (ValueError / TypeError): a rejected assignment leaves the change behind" % (
                              what, st0.lineno, g.qualname), file=f.file, line=st.lineno)
    ctx.ok("R3.5c", "hand-offs after a change", sample={"found": nhand})

    # -- R3.5b -------------------------------------------------------------------------------------
    ctx.rule("R3.5b", "an element that is invalid as created (required attribute / child missing) is completed in the "
                      "function that attaches it, and is not attached before a completing operation that can reject its value")
    nsites = 0
    seen = set()
    for f in E.funcs:
        if f.module.name == "pptx.oxml.xmlchemy":
            continue
        fc = FCtx(f)
        fresh = E.fresh_roots(f, fc)
        body_nodes = list(walk_own(f.node))
        for n in body_nodes:
            if not (isinstance(n, ast.Assign) and isinstance(n.value, ast.Call) and isinstance(n.value.func, ast.Attribute)
                    and len(n.targets) == 1 and isinstance(n.targets[0], ast.Name)):
                continue
            call = n.value
            if call.keywords or call.args:
                continue  # _add_x(val=value) initialises before inserting
            root = E._root_name(call.func.value)
            if root in fresh:
                continue
            bt = T.expr(call.func.value, fc)
            ft = T.member(bt, call.func.attr, fc, node=call.func)
            gens = [a for a in ft if a[0] == "gen" and a[1] in ("get_or_add", "add", "get_or_change_to", "public_add")]
            var = n.targets[0].id
            for a in gens:
                kind, decl, tag = a[1], a[2], a[3]
                owners = [x[1] for x in bt if x[0] == "inst" and M.is_oxml_class(x[1])
                          and decl.cls in prog.mro(x[1])] or [decl.cls]
                probs = []
                for o in owners:
                    for pr in E.creation_problems(decl, tag, o):
                        if pr not in probs:
                            probs.append(pr)
                if not probs:
                    continue
                key = "%s:%s" % (f.qualname, tag)
                if key in seen:
                    continue
                seen.add(key)
                nsites += 1
                if any(pr[0] == "unknown" for pr in probs):
                    ctx.error("%s:%d" % (f.file, n.lineno), "creator of <%s> not understood: %s" % (tag, probs[0][2]))
                    continue
                ccls = M.class_for_tag(tag)
                missing_attrs = [pr[1].rsplit("/@", 1)[1] for pr in probs if pr[0] == "attr-required"
                                 and pr[1].count("/") == 2]
                other = [pr for pr in probs if not (pr[0] == "attr-required" and pr[1].count("/") == 2)]
                # later uses of var
                # what follows the attaching statement in program order (positions, not line numbers: generated code - a
                # property factory specialised to one attribute - has all its statements on the line of the declaration)
                order_ = _preorder(f.node)
                pos_n = order_.get(id(n), -1)
                inside_n = {id(x) for x in ast.walk(n)}
                later = [m for m in body_nodes if order_.get(id(m), -1) > pos_n and id(m) not in inside_n]
                stored = {}  # attribute name -> (node, constant?)
                calls = []
                escapes = False
                for m in later:
                    if isinstance(m, ast.Assign):
                        tgts = []
                        for t in m.targets:
                            tgts += list(t.elts) if isinstance(t, (ast.Tuple, ast.List)) else [t]
                        vals = list(m.value.elts) if isinstance(m.value, ast.Tuple) and len(tgts) == len(m.value.elts) \
                            else [m.value] * len(tgts)
                        for t, v in zip(tgts, vals):
                            if isinstance(t, ast.Attribute) and E._root_name(t) == var:
                                if isinstance(t.value, ast.Name):
                                    an = _attr_of_prop(M, ccls, t.attr)
                                    stored[an or t.attr] = (m, _is_constant(prog, f, v))
                                    # a hand-written setter of the element class that stores into declared attributes
                                    # (`gd.literal_value = v` -> `self.fmla = "val %d" % v`)
                                    hs = prog.lookup_setter(ccls, t.attr) if (an is None and ccls is not None) else None
                                    if hs is not None:
                                        for y in walk_own(hs.node):
                                            if isinstance(y, ast.Assign):
                                                for t2 in y.targets:
                                                    if isinstance(t2, ast.Attribute) and dotted(t2.value) == "self":
                                                        an2 = _attr_of_prop(M, ccls, t2.attr)
                                                        stored[an2 or t2.attr] = (m, _is_constant(prog, f, v) and _is_constant(prog, hs, y.value))
                                else:
                                    calls.append((m, _is_constant(prog, f, v)))  # deeper store completes a child
                        if any(isinstance(x, ast.Name) and x.id == var for x in ast.walk(m.value)) and not \
                                (isinstance(m.value, ast.Call) and isinstance(m.value.func, ast.Attribute)
                                 and E._root_name(m.value.func) == var):
                            escapes = True
                    elif isinstance(m, ast.Call):
                        if isinstance(m.func, ast.Attribute) and E._root_name(m.func) == var:
                            const = all(_is_constant(prog, f, x) for x in m.args) and all(
                                _is_constant(prog, f, k.value) for k in m.keywords)
                            calls.append((m, const))
                        elif any(isinstance(x, ast.Name) and x.id == var for a_ in list(m.args) + [k.value for k in m.keywords]
                                 for x in ast.walk(a_)):
                            escapes = True
                    elif isinstance(m, ast.Return) and m.value is not None and any(
                            isinstance(x, ast.Name) and x.id == var for x in ast.walk(m.value)):
                        escapes = True
                never = [a_ for a_ in missing_attrs if a_ not in stored]
                if never and not escapes and not (other and calls):
                    ctx.violation("R3.5b", key + ":incomplete{%s}" % ",".join(never),
                                  "%s() attaches <%s> without required @%s and nothing in this function sets it: the part is "
                                  "left schema-invalid" % (call.func.attr, tag, ", @".join(never)), file=f.file, line=n.lineno)
                    continue
                if other and not calls and not stored and not escapes:
                    ctx.violation("R3.5b", key + ":incomplete",
                                  "%s() attaches <%s> which is invalid as created (%s) and is not completed here" % (
                                      call.func.attr, tag, other[0][2]), file=f.file, line=n.lineno)
                    continue
                rejectable = [m for a_, (m, c) in stored.items() if not c and a_ in missing_attrs] + \
                             ([m for m, c in calls if not c] if other else [])
                if rejectable:
                    m = rejectable[0]
                    what = ("@" + ", @".join(missing_attrs)) if missing_attrs else other[0][2]
                    ctx.violation("R3.5b", key,
                                  "<%s> is attached (%s(), line %d) before `%s`, which can reject its value: a refused value "
                                  "leaves <%s> without %s" % (tag, call.func.attr, n.lineno, ast.unparse(m)[:60], tag, what),
                                  file=f.file, line=m.lineno)
                elif escapes and (never or other):
                    ctx.info("R3.5b", "%s: <%s> is completed outside the attaching function (not decided)" % (key, tag))
                    ctx.ok("R3.5b", key + ":escapes", nontrivial=False)
                else:
                    ctx.ok("R3.5b", key, sample={"function": f.fq, "child": tag, "missing_as_created": missing_attrs or other[0][2],
                                                 "completion": "constant stores"})
    # the generated adder itself must set attributes before inserting (else _add_x(val=value) is an attach-first site)
    for sev, where, what in M.mechanism_problems:
        if "_add_child" in what:
            fl, _, ln = where.partition(":")
            ctx.violation("R3.5b", "xmlchemy:_add_child", what, file=fl, line=ln)
    ctx.count("attach_incomplete_sites", nsites)
    from checks import c03_card

    c03_card.run(ctx, prog, S, M, T, E)
    c03_card.run_required(ctx, prog, S, M, T)
    if nsites == 0:
        ctx.error("R3.5b", "no attach site of an incomplete element recognised (recogniser broken?)")


def _attr_of_prop(M, cls, prop):
    if cls is None:
        return None
    for d in M.attr_decls(cls):
        if d.prop == prop:
            return d.attr
    return None


def _exc(r):
    e = r.exc
    if isinstance(e, ast.Call):
        e = e.func
    return dotted(e) if e is not None else "re-raise"


def _is_constant(prog, f, e, _depth=0):
    """True when the stored value cannot be a raw caller-supplied value: a constant, or an expression that does
    not pass a parameter of f through unchanged (bare parameter name, a local alias of one, or a tuple of them)."""
    if isinstance(e, ast.Constant):
        return True
    params = set(f.params[1:] if f.cls is not None and f.kind != "staticmethod" else f.params)
    params |= {a.arg for a in f.node.args.kwonlyargs}

    def raw(x, depth=0):
        if isinstance(x, ast.Name):
            if x.id in params:
                return True
            if depth < 3:
                for n in walk_own(f.node):
                    if isinstance(n, ast.Assign) and any(isinstance(t, ast.Name) and t.id == x.id for t in n.targets):
                        if raw(n.value, depth + 1):
                            return True
            return False
        if isinstance(x, (ast.Tuple, ast.List)):
            return any(raw(y, depth) for y in x.elts)
        if isinstance(x, ast.IfExp):
            return raw(x.body, depth) or raw(x.orelse, depth)
        return False

    if not raw(e):
        return True
    v = prog.const(e, f.module)
    from sa.pysrc import Unknown

    if not isinstance(v, Unknown):
        return True
    # a bare parameter of a method / setter of an element class: it holds what the call sites in the library hand in; when every
    # one of them (found by name) hands in a value that is not itself a raw caller-supplied value, neither is this one
    if _depth < 2 and isinstance(e, ast.Name) and e.id in params and f.cls is not None and f.module.name.startswith("pptx.oxml."):
        sites = []
        is_setter = f.cls.setters.get(f.name) is f
        ps = f.params[1:]
        for g in prog.all_functions():
            if g is f:
                continue
            for n in walk_own(g.node):
                if is_setter and isinstance(n, ast.Assign):
                    for t in n.targets:
                        if isinstance(t, ast.Attribute) and t.attr == f.name:
                            sites.append((g, n.value))
                elif not is_setter and isinstance(n, ast.Call) and isinstance(n.func, ast.Attribute) and n.func.attr == f.name:
                    if e.id in ps and ps.index(e.id) < len(n.args):
                        sites.append((g, n.args[ps.index(e.id)]))
                    else:
                        kw = [k.value for k in n.keywords if k.arg == e.id]
                        sites.append((g, kw[0] if kw else None))
        def lib_made(a_):
            """the direct result of a library method every definition of which is annotated to return str (`relate_to(...)`): made by
            the library, not handed in by the caller"""
            if not (isinstance(a_, ast.Call) and isinstance(a_.func, ast.Attribute)):
                return False
            defs = [c_.methods[a_.func.attr] for c_ in prog.all_classes() if a_.func.attr in c_.methods]
            return bool(defs) and all(d_.node.returns is not None and ast.unparse(d_.node.returns).strip("'\"") == "str" for d_ in defs)

        if sites and all(a_ is not None and (isinstance(a_, ast.Constant) or lib_made(a_)) for g_, a_ in sites):
            return True
    return False


def _string_values(prog, f, e):
    """Finite set of literal strings an expression can evaluate to ({True:'1',False:'0'}[x], a if c else b)."""
    if isinstance(e, ast.Constant) and isinstance(e.value, str):
        return [e.value]
    if isinstance(e, ast.IfExp):
        a, b = _string_values(prog, f, e.body), _string_values(prog, f, e.orelse)
        return a + b if a is not None and b is not None else None
    if isinstance(e, ast.Subscript) and isinstance(e.value, ast.Dict):
        vals = [_string_values(prog, f, v) for v in e.value.values]
        if all(v is not None for v in vals):
            return [x for v in vals for x in v]
    if isinstance(e, ast.Name):
        vals = []
        for n in walk_own(f.node):
            if isinstance(n, ast.Assign) and any(isinstance(t, ast.Name) and t.id == e.id for t in n.targets):
                v = _string_values(prog, f, n.value)
                if v is None:
                    return None
                vals += v
        return vals or None
    return None
