"""C13 mutants."""

MUTANTS = [
    ("latent-set-shrunk", "footer placeholders are now cloned",
     [("src/pptx/slide.py", "            PP_PLACEHOLDER.DATE,\n            PP_PLACEHOLDER.FOOTER,\n            PP_PLACEHOLDER.SLIDE_NUMBER,\n        )\n        for ph in self.placeholders:",
       "            PP_PLACEHOLDER.DATE,\n            PP_PLACEHOLDER.SLIDE_NUMBER,\n        )\n        for ph in self.placeholders:")],
     "R13.1 latent_ph_types"),
    ("notes-set-extended", "notes header placeholder also cloned",
     [("src/pptx/slide.py", "                PP_PLACEHOLDER.SLIDE_IMAGE,\n                PP_PLACEHOLDER.BODY,", "                PP_PLACEHOLDER.SLIDE_IMAGE,\n                PP_PLACEHOLDER.HEADER,\n                PP_PLACEHOLDER.BODY,")],
     "R13.1 notes cloneable"),
    ("args-swapped", "clone_placeholder passes sz and orient in swapped positions",
     [("src/pptx/shapes/shapetree.py", "self._spTree.add_placeholder(id_, name, ph_type, orient, sz, idx)", "self._spTree.add_placeholder(id_, name, ph_type, sz, orient, idx)")],
     "R13.2"),
    ("idx-dropped", "new_placeholder_sp no longer stores idx",
     [("src/pptx/oxml/shapes/autoshape.py", "        ph.idx = idx\n", "")],
     "R13.2 ph_idx"),
    ("sldid-before-clone", "slide id registered before the placeholders are cloned",
     [("src/pptx/slide.py", "        slide.shapes.clone_layout_placeholders(slide_layout)\n        self._sldIdLst.add_sldId(rId)", "        self._sldIdLst.add_sldId(rId)\n        slide.shapes.clone_layout_placeholders(slide_layout)")],
     "R13.3 Slides.add_slide"),
    ("layout-not-related", "new slide part related to the layout with the wrong relationship type",
     [("src/pptx/parts/slide.py", "        slide_part.relate_to(slide_layout_part, RT.SLIDE_LAYOUT)", "        slide_part.relate_to(slide_layout_part, RT.SLIDE_MASTER)")],
     "R13.3 SlidePart.new"),
    ("ph-name-no-loop", "placeholder name not checked against existing names",
     [("src/pptx/shapes/shapetree.py", "            if name not in names:\n                break\n            numpart += 1", "            break")],
     "R13.4 _next_ph_name"),
]

MUTANTS += [
    ("idx-store-conditional", "ph.idx stored only for text placeholders",
     [("src/pptx/oxml/shapes/autoshape.py", "        ph.idx = idx\n", ""),
      ("src/pptx/oxml/shapes/autoshape.py", "        if ph_type in placeholder_types_that_have_a_text_frame:\n", "        if ph_type in placeholder_types_that_have_a_text_frame:\n            ph.idx = idx\n")],
     "R13.2 ph_idx->ph.idx"),
    ("subtitle-inherits-subtitle", "SUBTITLE inherits from a master subtitle",
     [("src/pptx/shapes/placeholder.py", "            PP_PLACEHOLDER.SUBTITLE: PP_PLACEHOLDER.BODY,", "            PP_PLACEHOLDER.SUBTITLE: PP_PLACEHOLDER.SUBTITLE,")],
     "R13.5 base_ph_type[SUBTITLE]"),
]

MUTANTS += [
    ("cloneable-in-reverse", "cloneable placeholders are handed out last first",
     [("src/pptx/slide.py", "        for ph in self.placeholders:\n            if ph.element.ph_type not in latent_ph_types:\n                yield ph",
       "        for ph in reversed(list(self.placeholders)):\n            if ph.element.ph_type not in latent_ph_types:\n                yield ph")],
     "R13.1 SlideLayout.iter_cloneable_placeholders:order"),
    ("inherit-only-without-xfrm", "geometry is inherited only by a placeholder without any a:xfrm",
     [("src/pptx/shapes/placeholder.py", "        directly_applied_value = getattr(super(_InheritsDimensions, self), attr_name)\n        if directly_applied_value is not None:\n            return directly_applied_value\n        return self._inherited_value(attr_name)",
       "        if self._element.xfrm is None:\n            return self._inherited_value(attr_name)\n        return getattr(super(_InheritsDimensions, self), attr_name)")],
     "R13.6 _InheritsDimensions._effective_value"),
]
