"""C03 — every XML part written is valid PresentationML/DrawingML (decidable clauses).

Rules
  R3.1   every XML template the library parses (oxml factories, _new_x overrides) is included in the
         schema: child-sequence language inclusion, attribute names / required / literal values
  R3.2   shipped XML (templates/*.xml and every XML member of templates/default.pptx) is schema-valid
  R3.4   raw attribute writes (.set / .attrib) outside xmlchemy write constants valid for the attribute
  R3.5a  in a public mutator that refuses with an explicit raise, no document mutation precedes the raise
  R3.5b  no element with a required attribute is attached before the (rejectable) store that initialises it
  (R3.3 child positions = C10; typed attribute writes = C11 — decided by those checks)
"""

from __future__ import annotations

import ast
import io
import json
import os
import xml.etree.ElementTree as ET
import zipfile

from sa.pysrc import ClassRef, dotted
from sa.report import VERIF, AnalysisError
from sa.strabs import S as AS
from sa.templates import sinks
from sa.types import FCtx, Types, walk_own
from sa.xmlskel import skeleton
from sa.xmlvalid import from_etree, validate

CT = "http://schemas.openxmlformats.org/package/2006/content-types"


def _hints():
    p = os.path.join(VERIF, "hints.json")
    with open(p) as f:
        return json.load(f).get("C03", {})


def validate_root(S, root, markers, relevant=None):
    """Validate a skeleton/concrete root against each candidate type of its tag; returns
    (best type, problems, n_elements)."""
    cands = sorted(t for t in S.elem_decls.get(root.tag, ()) if t in S.ctypes)
    if relevant:
        cands = [c for c in cands if c in relevant] or cands
    if not cands:
        return None, [("no-type", "/" + S.pfx(root.tag), "no schema type declares an element of this name", root)], 0
    best = None
    for tq in cands:
        stats = {}
        probs = list(validate(S, root, tq, markers, stats=stats))
        if best is None or len(probs) < len(best[1]):
            best = (tq, probs, stats.get("elements", 0))
        if not probs:
            break
    return best


def run(ctx):
    from checks.c10 import load

    prog, S, M = load(ctx.repo)

    from sa.xmlchemy_model import ALL_PARTS, mechanism_gate  # noqa: F401


    mechanism_gate(ctx, M, ALL_PARTS)
    T = Types(prog, M)
    hints = _hints()
    ctx.level = "other"
    ctx.trusted = ["CPython ast / xml.etree / zipfile", "transitional XSDs under /repo/spec as oracle",
                   "abstract string evaluation of the template-building subset (an uninterpretable construct is exit 2)"]
    ctx.explanation = (
        "Every XML text the library builds and parses is evaluated abstractly to a skeleton that keeps alternation, iteration "
        "and holes; for each literal element the regular language of its child sequences is tested for inclusion in the "
        "content model of its schema type (all alternatives and loop counts at once), attributes are checked for name, "
        "requiredness and literal value. The shipped template files and the default deck are validated with the same automata "
        "(the 'starting point is valid' premise). Refusal paths are checked for mutate-before-raise and for attaching an element "
        "whose required attribute is initialised by a store that can be rejected.")
    ctx.not_decided = [
        "validity after arbitrary sequences of operations (cardinality under histories, e.g. two crop() calls)",
        "child positions of later insertions (decided by C10) and attribute value spaces (decided by C11)",
        "chart templates (decided by C07)"]

    # -- R3.1 ------------------------------------------------------------------------------------
    ctx.rule("R3.1", "parsed XML templates are included in the schema (child language, attributes)")
    sk, unknown, nsites = sinks(prog, T)
    ctx.count("parse_xml_sites", nsites)
    for u in unknown:
        ctx.error("%s:%s" % (u[1].file if u[1] else "?", u[2]), "template construct not interpreted: %s" % u[0])
    ntempl = 0
    nelems = 0
    opaque = []
    for s in sk:
        if not isinstance(s.value, AS):
            opaque.append(s)
            continue
        if s.fc.fn.module.name == "pptx.chart.xmlwriter":
            continue  # chart writer fragments: C07
        key = s.name
        try:
            k = skeleton(s.value, prog.nsmap)
        except AnalysisError as e:
            ctx.error(s.where, "template %s: %s" % (key, e))
            continue
        ntempl += 1
        uninterpreted = [mk for mk in k.markers if mk.hole is not None and mk.hole.why in ("format", "format-splat", "percent", "percent-map", "join")
                         and mk.elem is None]
        if (len(k.roots) != 1 or k.roots[0].kind != "elem") and uninterpreted:
            # a piece of the template outside any element is a sub-template the evaluator did not open: the shape of the whole
            # is not known
            ctx.error(s.where, "template %s: a top-level piece is not interpreted (%s)" % (key, uninterpreted[0].hole.why))
            continue
        elif len(k.roots) != 1 or k.roots[0].kind != "elem":
            ctx.violation("R3.1", key, "template does not have a single root element", file=s.fc.fn.file, line=s.call.lineno)
            continue
        root = k.roots[0]
        tq, probs, n = validate_root(S, root, k.markers)
        nelems += n
        probs = _discount_completed(prog, M, T, S, s, root, probs, hints)
        if probs:
            for kind, path, msg, node in probs[:6]:
                ctx.violation("R3.1", "%s:%s:%s" % (s.fc.fn.qualname, path, kind), msg, file=s.fc.fn.file,
                              line=s.call.lineno, witness="template root %s as %s" % (S.pfx(root.tag), S.tname(tq)))
        else:
            ctx.ok("R3.1", key, sample={"template": s.fc.fn.qualname, "root": S.pfx(root.tag), "type": S.tname(tq),
                                        "elements": n, "holes": len(k.markers)})
    # opaque parse_xml arguments are blobs read from a package (loader) — enumerate and require that
    # they are parameters / reads, never locally built strings the evaluator failed on
    for s in opaque:
        src = ast.unparse(s.call.args[0])
        if s.fc.fn.module.name.startswith("pptx.opc.") or src in ("blob", "xml", "xml_bytes"):
            ctx.info("R3.1", "parse_xml(%s) at %s parses package content (not a template)" % (src, s.where))
        else:
            ctx.error(s.where, "parse_xml argument `%s` is not an interpretable template" % src)
    ctx.count("templates", ntempl)
    ctx.count("template_elements", nelems)

    # -- R3.2 ------------------------------------------------------------------------------------
    ctx.rule("R3.2", "shipped template XML and every XML member of templates/default.pptx validate against the schemas")
    tdir = os.path.join(ctx.repo, "src", "pptx", "templates")
    if not os.path.isdir(tdir):
        raise AnalysisError("anchor vanished: src/pptx/templates")
    docs = []
    for fn in sorted(os.listdir(tdir)):
        if fn.endswith(".xml"):
            with open(os.path.join(tdir, fn), "rb") as f:
                docs.append(("templates/" + fn, f.read()))
            ctx.note_file(os.path.join(tdir, fn))
    dp = os.path.join(tdir, "default.pptx")
    if not os.path.exists(dp):
        raise AnalysisError("anchor vanished: templates/default.pptx")
    ctx.note_file(dp)
    with zipfile.ZipFile(dp) as z:
        for name in sorted(z.namelist()):
            if name.endswith(".xml") or name.endswith(".rels"):
                docs.append(("default.pptx!" + name, z.read(name)))
    nshipped = 0
    nshipped_elems = 0
    for name, blob in docs:
        try:
            el = ET.fromstring(blob)
        except ET.ParseError as e:
            ctx.violation("R3.2", name, "not well-formed: %s" % e)
            continue
        root = from_etree(el)
        tq, probs, n = validate_root(S, root, None)
        if tq is None:
            ctx.info("R3.2", "%s: root %s has no type in the shipped schemas (not validated)" % (name, root.tag))
            continue
        nshipped += 1
        nshipped_elems += n
        if probs:
            for kind, path, msg, node in probs[:4]:
                ctx.violation("R3.2", "%s:%s:%s" % (name, path, kind), msg, file="src/pptx/" + name.split("!")[0])
        else:
            ctx.ok("R3.2", name, sample={"document": name, "root": S.pfx(root.tag), "type": S.tname(tq), "elements": n})
    ctx.count("shipped_documents", nshipped)
    ctx.count("shipped_elements", nshipped_elems)

    from checks import c03_refusal

    c03_refusal.run(ctx, prog, S, M, T, hints)
    _r38(ctx, prog, M)


def _r38(ctx, prog, M):
    """An lxml element has one parent: inserting an element that is kept somewhere else (a class attribute or a module global holding
    a parsed default sub-tree) moves it out of wherever it was inserted before, leaving that parent without a child its content
    model may require.  Every inserted element must be made for the insertion (parsed / created in the call, or a deep copy)."""
    ctx.rule("R3.8", "an element is never inserted from a store that outlives the call (class attribute / module global) without a copy")
    from sa import paths as P_
    from sa.inline import resolve_callee

    INS = ("append", "insert", "addnext", "addprevious", "insert_element_before", "extend")
    nsites = 0
    from checks.c10_sites import insertion_wrappers

    wrappers = insertion_wrappers(prog, M)    # methods that only wrap insert_element_before: a call of one is an insertion

    def shared_source(e, f, depth=0):
        """description of a long-lived store `e` reads an element from, or None"""
        if depth > 3 or e is None:
            return None
        if isinstance(e, ast.Call) and (dotted(e.func) or "").split(".")[-1] in ("deepcopy", "copy", "parse_xml", "OxmlElement", "parse_from_template",
                                                                                "fromstring", "SubElement"):
            return None
        if isinstance(e, ast.Call) and dotted(e.func) == "cast" and len(e.args) == 2:
            return shared_source(e.args[1], f, depth)
        if isinstance(e, ast.Attribute) and isinstance(e.value, ast.Name) and f.cls is not None:
            owner = None
            if e.value.id in ("cls", "self"):
                owner = f.cls
            else:
                r = prog.resolve(f.module, e.value.id)
                owner = r if hasattr(r, "methods") and hasattr(r, "attrs") else None
            if owner is not None and prog.lookup(owner, e.attr) is None:
                a = prog.lookup_attr(owner, e.attr)
                declared = any(d.prop == e.attr or e.attr == d.prop + "_lst" for k in prog.mro(owner) if M.is_oxml_class(k) or k is owner
                               for d in (M.own_decls(k)[0] + M.own_decls(k)[1]) ) if M.is_oxml_class(owner) else False
                assigned_on_cls = any(isinstance(n, ast.Assign) and any(isinstance(t, ast.Attribute) and t.attr == e.attr and dotted(t.value) in (
                    "cls", owner.name) for t in n.targets) for g in owner.methods.values() for n in ast.walk(g.node))
                if (a is not None and not declared and e.value.id in ("cls", owner.name)) or assigned_on_cls:
                    return "%s.%s (a class attribute: one object for every call)" % (owner.name, e.attr)
        if isinstance(e, ast.Name):
            v = P_.value_aliases(f.node).get(e.id)
            if v is not None:
                return shared_source(v, f, depth + 1)
            g = f.module.assigns.get(e.id)
            if g is not None and not any(isinstance(x, ast.Name) and x.id == e.id and isinstance(x.ctx, ast.Store) for x in ast.walk(f.node)) \
                    and isinstance(g, ast.Call) and (dotted(g.func) or "").split(".")[-1] in ("parse_xml", "OxmlElement", "parse_from_template"):
                return "module global %s (parsed once at import)" % e.id
            return None
        if isinstance(e, ast.Call):
            try:
                rc = resolve_callee(prog, f, e, {})
            except Exception:  # noqa: BLE001
                rc = None
            g = rc[0] if rc is not None and hasattr(rc[0], "node") and hasattr(rc[0], "module") else None
            if g is not None and g is not f:
                for r_ in [x for x in ast.walk(g.node) if isinstance(x, ast.Return) and x.value is not None]:
                    s_ = shared_source(r_.value, g, depth + 1)
                    if s_:
                        return s_ + " via %s()" % g.name
        return None

    for f in prog.all_functions():
        if not f.module.name.startswith("pptx.oxml") or f.module.name == "pptx.oxml.xmlchemy":
            continue
        for n in ast.walk(f.node):
            if not (isinstance(n, ast.Call) and isinstance(n.func, ast.Attribute)):
                continue
            a = n.func.attr
            if not (a in INS or a.startswith("_insert_") or a in wrappers) or not n.args:
                continue
            arg = n.args[1] if a == "insert" and len(n.args) > 1 else n.args[wrappers[a][1]] if (a in wrappers and len(n.args) > wrappers[a][1]) else n.args[0]
            nsites += 1
            src = shared_source(arg, f)
            if src:
                ctx.violation("R3.8", "%s@%s" % (f.qualname, a), "%s(%s) inserts an element taken from %s: inserting it a second time moves it out of "
                              "the parent it was given first, which is left without that child" % (a, ast.unparse(arg)[:40], src),
                              file=f.file, line=n.lineno)
    # ... and every factory of an element class (`new*`) hands out an element of its own: the root of a part, or a sub-tree about to
    # be inserted by the caller, must not be one object shared by every caller
    nfac = 0
    for f in prog.all_functions():
        if not f.module.name.startswith("pptx.oxml") or f.cls is None or not M.is_oxml_class(f.cls) or not f.name.startswith("new"):
            continue
        nfac += 1
        for r_ in [x for x in ast.walk(f.node) if isinstance(x, ast.Return) and x.value is not None]:
            src = shared_source(r_.value, f)
            if src:
                ctx.violation("R3.8", "%s:return" % f.qualname, "the factory returns %s: every caller gets the same element - two parts (or two parents) "
                              "built from it share one tree, and what is written through one shows in the other" % src, file=f.file, line=r_.lineno)
    ctx.count("insertion_sites", nsites)
    ctx.count("element_factories", nfac)
    ctx.ok("R3.8", "insertion sites", sample={"sites": nsites, "factories": nfac, "inserted_or_returned_from_a_long_lived_store": 0})


def _discount_completed(prog, M, T, S, sink, root, probs, hints):
    """Remove 'required attribute missing' problems on the template root (or a descendant reached
    through declared children) when the same function stores that attribute on the parsed element
    before returning it, and 'required child missing' problems listed in hints with a verified completer."""
    if not probs:
        return probs
    f = sink.fc.fn
    # variables bound to the parsed element
    names = set()
    for n in walk_own(f.node):
        if isinstance(n, ast.Assign) and any(c is sink.call for c in ast.walk(n.value)):
            for t in n.targets:
                if isinstance(t, ast.Name):
                    names.add(t.id)
    stored = set()  # (path of props from root, attribute prop)
    for n in walk_own(f.node):
        if isinstance(n, ast.Assign):
            for t in n.targets:
                if isinstance(t, ast.Attribute):
                    d = dotted(t)
                    if d and d.split(".")[0] in names:
                        stored.add(tuple(d.split(".")[1:]))
    out = []
    for kind, path, msg, node in probs:
        if kind == "attr-required" and stored:
            attr = path.rsplit("/@", 1)[1]
            cls = M.class_for_tag(S.pfx(node.tag))
            props = [d.prop for d in M.attr_decls(cls)] if cls else []
            mine = [d.prop for d in (M.attr_decls(cls) if cls else []) if d.attr == attr]
            if any(st and st[-1] in mine for st in stored):
                continue
        if kind == "children" and "required element missing" in msg:
            h = hints.get("incomplete_templates", {}).get("%s:%s" % (f.qualname, S.pfx(node.tag)))
            if h and _completer_verified(prog, h):
                continue
        out.append((kind, path, msg, node))
    return out


def _completer_verified(prog, h):
    """Every call of `.<via>()` in the repo has its result used as the receiver of `.<completer>(`."""
    via, comp = h["via"], h["completer"]
    ncalls = 0
    for f in prog.all_functions():
        for n in walk_own(f.node):
            if isinstance(n, ast.Assign) and isinstance(n.value, ast.Call) and isinstance(n.value.func, ast.Attribute) \
                    and n.value.func.attr == via and len(n.targets) == 1 and isinstance(n.targets[0], ast.Name):
                ncalls += 1
                v = n.targets[0].id
                if not any(isinstance(c, ast.Call) and isinstance(c.func, ast.Attribute) and c.func.attr == comp
                           and isinstance(c.func.value, ast.Name) and c.func.value.id == v for c in walk_own(f.node)):
                    return False
            elif isinstance(n, ast.Call) and isinstance(n.func, ast.Attribute) and n.func.attr == via:
                # result used inline: must be `<...>.via().completer(...)` or assigned (handled above)
                pass
    return ncalls > 0
