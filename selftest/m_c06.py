"""C06 mutants."""

MUTANTS = [
    ("shape-id-local-scope", "max_shape_id looks only below the current shape tree",
     [("src/pptx/oxml/shapes/groupshape.py", '''        id_str_lst = self.xpath("//@id")
        used_ids = [int(id_str) for id_str in id_str_lst if id_str.isdigit()]
        return max(used_ids) if used_ids else 0''', '''        id_str_lst = self.xpath(".//@id")
        used_ids = [int(id_str) for id_str in id_str_lst if id_str.isdigit()]
        return max(used_ids) if used_ids else 0''')],
     "R6.2 CT_GroupShape.max_shape_id"),
    ("shape-id-max-not-plus-one", "_next_shape_id returns the maximum itself",
     [("src/pptx/shapes/shapetree.py", "        return self._spTree.max_shape_id + 1", "        return self._spTree.max_shape_id")],
     "R6.2 _BaseShapes._next_shape_id"),
    ("rid-no-membership-test", "_next_rId returns len+1 without testing membership",
     [("src/pptx/opc/package.py", '''            rId_candidate = "rId%d" % n  # like 'rId19'
            if rId_candidate not in self._rels:
                return rId_candidate''', '''            rId_candidate = "rId%d" % n  # like 'rId19'
            return rId_candidate''')],
     "R6.2 _Relationships._next_rId"),
    ("slide-id-bound", "slide id upper bound widened in the allocator",
     [("src/pptx/oxml/presentation.py", "        MAX_SLIDE_ID = 2147483647", "        MAX_SLIDE_ID = 4294967295")],
     "R6.2 slide-id-bounds"),
    ("ph-name-local", "placeholder name uniqueness checked against the local tree only",
     [("src/pptx/shapes/shapetree.py", 'names = self._spTree.xpath("//p:cNvPr/@name")', 'names = self._spTree.xpath("./p:sp/p:nvSpPr/p:cNvPr/@name")')],
     "R6.2 _BaseShapes._next_ph_name"),
    ("factory-constant-id", "textbox added with a constant id",
     [("src/pptx/shapes/shapetree.py", '        id_ = self._next_shape_id\n        name = "TextBox %d" % (id_ - 1)', '        id_ = len(self) + 2\n        name = "TextBox %d" % (id_ - 1)')],
     "R6.1 _BaseGroupShapes._add_textbox_sp"),
    ("slides-without-rename", "Presentation.slides no longer renames slide parts",
     [("src/pptx/presentation.py", '        self.part.rename_slide_parts([cast("CT_SlideId", sldId).rId for sldId in sldIdLst])\n', "")],
     "R6.3 Slides construction"),
    ("id-reassigned", "BaseShapeElement grows a shape_id setter path that rewrites cNvPr/@id",
     [("src/pptx/oxml/shapes/shared.py", "    @property\n    def shape_id(self):", "    def renumber(self, n):\n        self._nvXxPr.cNvPr.id = n\n\n    @property\n    def shape_id(self):")],
     "R6.4"),
    ("partname-prefix-subset", "next_partname counts only XML parts",
     [("src/pptx/opc/package.py", "partnames = {p.partname for p in self.iter_parts() if p.partname.startswith(prefix)}", "partnames = {p.partname for p in self._rels.values() if p.partname.startswith(prefix)}")],
     "R6.2 OpcPackage.next_partname"),
]

MUTANTS += [
    ("slide-id-gap-unsorted", "fallback gap scan over ids in document order",
     [("src/pptx/oxml/presentation.py", "        valid_used_ids = sorted(id for id in used_ids if (MIN_SLIDE_ID <= id <= MAX_SLIDE_ID))",
       "        valid_used_ids = [id for id in used_ids if (MIN_SLIDE_ID <= id <= MAX_SLIDE_ID)]")],
     "R6.2 CT_SlideIdList._next_id:order"),
    ("media-idx-sorted-as-strings", "media indices sorted as strings",
     [("src/pptx/package.py", "                    part.partname.idx\n                    for part in self.iter_parts()\n                    if part.partname.startswith(\"/ppt/media/media\")",
       "                    str(part.partname.idx)\n                    for part in self.iter_parts()\n                    if part.partname.startswith(\"/ppt/media/media\")")],
     "R6.2 Package.next_media_partname:order"),
]

MUTANTS += [
    ("partname-scan-short", "next_partname scans one candidate too few",
     [("src/pptx/opc/package.py", "        for n in range(len(partnames) + 1, 0, -1):", "        for n in range(len(partnames), 0, -1):")],
     "R6.2 OpcPackage.next_partname:exhaustion"),
]

MUTANTS += [
    ("partname-scan-by-idx", "next_partname judges a number taken by the idx of the matching part names",
     [("src/pptx/opc/package.py", "        partnames = {p.partname for p in self.iter_parts() if p.partname.startswith(prefix)}\n        for n in range(len(partnames) + 1, 0, -1):\n            candidate_partname = tmpl % n\n            if candidate_partname not in partnames:\n                return PackURI(candidate_partname)",
       "        partnames = [p.partname for p in self.iter_parts() if p.partname.startswith(prefix)]\n        taken = {pn.idx for pn in partnames}\n        for n in range(len(partnames) + 1, 0, -1):\n            if n not in taken:\n                return PackURI(tmpl % n)")],
     "R6.2 OpcPackage.next_partname:projection"),
]

MUTANTS += [
    ("rename-skipped-when-contiguous", "slide parts are not renamed when their numbers already are 1..n in any order",
     [("src/pptx/parts/presentation.py", "        for idx, rId in enumerate(rIds):\n            slide_part = self.related_part(rId)\n            slide_part.partname = PackURI(\"/ppt/slides/slide%d.xml\" % (idx + 1))",
       "        if sorted(self.related_part(rId).partname.idx for rId in rIds) == list(range(1, len(rIds) + 1)):\n            return\n        for idx, rId in enumerate(rIds):\n            slide_part = self.related_part(rId)\n            slide_part.partname = PackURI(\"/ppt/slides/slide%d.xml\" % (idx + 1))")],
     "R6.3 PresentationPart.rename_slide_parts"),
]
