"""Mutation self-test (thorough tier): scratch copies of the *current* tree, one rule instance
broken per copy, the check must report that instance.  Results are evidence; a live mutant on an
applicable anchor is an ANALYSIS-ERROR (the checker is weaker than it claims), never a VIOLATION.

A mutant is (id, description, [(relpath, old, new)], expect) where each `old` must occur exactly
once in the current file (else the mutant is 'not applicable' on this tree and skipped) and `expect`
is a substring of "<rule> <key>" of a violation (or "ANALYSIS" to accept exit 2).
"""

from __future__ import annotations

import importlib
import io
import os
import shutil
import sys
import tempfile
import time
from concurrent.futures import ProcessPoolExecutor
from contextlib import redirect_stdout

HERE = os.path.dirname(os.path.dirname(os.path.abspath(__file__)))


def scratch_root():
    base = os.environ.get("TMPDIR") or "/var/tmp"
    return tempfile.mkdtemp(prefix="verif-scratch-", dir=base)


def make_copy(repo, dest):
    """Copy the analysed part of the tree: src/pptx fully, spec by symlink (read-only oracle)."""
    os.makedirs(os.path.join(dest, "src"))
    shutil.copytree(os.path.join(repo, "src", "pptx"), os.path.join(dest, "src", "pptx"),
                    ignore=shutil.ignore_patterns("__pycache__"))
    os.symlink(os.path.join(repo, "spec"), os.path.join(dest, "spec"))


def _apply(dest, edits):
    for rel, old, new in edits:
        p = os.path.join(dest, rel)
        if not os.path.exists(p):
            return "file %s missing" % rel
        with open(p, encoding="utf-8") as f:
            s = f.read()
        if s.count(old) != 1:
            return "anchor occurs %d times in %s" % (s.count(old), rel)
        with open(p, "w", encoding="utf-8") as f:
            f.write(s.replace(old, new))
    return None


def _run_one(args):
    prop, repo, mid, desc, edits, expect = args
    sys.path.insert(0, HERE)
    from sa.report import AnalysisError, Ctx

    root = scratch_root()
    t0 = time.time()
    os.environ["VERIF_NO_POOL"] = "1"  # the mutants themselves are the parallel unit
    try:
        make_copy(repo, root)
        na = _apply(root, edits)
        if na:
            return dict(id=mid, desc=desc, status="not-applicable", why=na)
        # syntactic sanity: the mutant must still compile
        for rel, _, _ in edits:
            if rel.endswith(".py"):
                with open(os.path.join(root, rel), encoding="utf-8") as f:
                    compile(f.read(), rel, "exec")
        mod = importlib.import_module("checks.%s" % prop.lower())
        ctx = Ctx(prop, tier="quick", repo=root, quiet=True, write=False)
        buf = io.StringIO()
        try:
            with redirect_stdout(buf):
                mod.run(ctx)
                code = ctx.finish()
            found = ["%s %s" % (v["rule"], v["key"]) for v in ctx.result["unlisted"]]
            errs = ["%s %s" % e for e in ctx.result["errors"]]
        except AnalysisError as e:
            code, found, errs = 2, [], [str(e)]
        if expect == "ANALYSIS":
            killed = code in (1, 2)
        else:
            killed = code == 1 and any(expect in f for f in found)
        return dict(id=mid, desc=desc, status="killed" if killed else "LIVE", code=code,
                    reported=found[:6], errors=errs[:3], expect=expect, wall=round(time.time() - t0, 2))
    except Exception as e:  # noqa: BLE001
        return dict(id=mid, desc=desc, status="error", why=repr(e))
    finally:
        shutil.rmtree(root, ignore_errors=True)


def run_selftest(ctx):
    try:
        reg = importlib.import_module("selftest.m_%s" % ctx.prop.lower())
    except ImportError:
        ctx.extra["selftest"] = {"note": "no mutants registered for this property"}
        return
    muts = reg.MUTANTS
    jobs = [(ctx.prop, ctx.repo, m[0], m[1], m[2], m[3]) for m in muts]
    results = []
    n = min(16, os.cpu_count() or 1, max(1, len(jobs)))
    with ProcessPoolExecutor(n) as ex:
        for r in ex.map(_run_one, jobs):
            results.append(r)
    killed = [r for r in results if r["status"] == "killed"]
    live = [r for r in results if r["status"] == "LIVE"]
    na = [r for r in results if r["status"] == "not-applicable"]
    err = [r for r in results if r["status"] == "error"]
    ctx.extra["selftest"] = {
        "mutants": len(results), "killed": len(killed), "live": len(live), "not_applicable": len(na),
        "errors": len(err), "table": results,
    }
    print("selftest %s: %d mutants, %d killed, %d live, %d n/a, %d errors" % (
        ctx.prop, len(results), len(killed), len(live), len(na), len(err)))
    for r in live:
        ctx.error("selftest:%s" % r["id"], "mutant not detected (%s); reported=%s" % (r["desc"], r.get("reported")))
    for r in err:
        ctx.error("selftest:%s" % r["id"], "mutant run crashed: %s" % r.get("why"))


def main():
    """CLI: python -m selftest.mutants C10 [--repo /repo]  (prints the kill table)."""
    import argparse
    import json

    ap = argparse.ArgumentParser()
    ap.add_argument("prop")
    ap.add_argument("--repo", default="/repo")
    a = ap.parse_args()
    sys.path.insert(0, HERE)
    from sa.report import Ctx

    ctx = Ctx(a.prop.upper(), repo=a.repo, write=False, quiet=True)
    run_selftest(ctx)
    for r in ctx.extra["selftest"].get("table", []):
        print(json.dumps(r))


if __name__ == "__main__":
    main()
