# Tables consumed by tools/gen_manifest.py.  Only checks that are built and green on the clean tree
# are listed in CLAIMED; everything else must have a reason in NOT_APPLICABLE.

CLAIMED = {}

_NOT_BUILT = "decidable structural clause designed in DESIGN.md but its checker is not built yet"

NOT_APPLICABLE = {
    "C01": _NOT_BUILT, "C02": _NOT_BUILT, "C03": _NOT_BUILT, "C04": _NOT_BUILT, "C05": _NOT_BUILT,
    "C06": _NOT_BUILT, "C07": _NOT_BUILT, "C08": _NOT_BUILT, "C09": _NOT_BUILT, "C10": _NOT_BUILT,
    "C11": _NOT_BUILT, "C12": _NOT_BUILT, "C13": _NOT_BUILT, "C14": _NOT_BUILT, "C15": _NOT_BUILT,
    "C16": _NOT_BUILT, "C17": _NOT_BUILT, "C18": _NOT_BUILT, "C20": _NOT_BUILT,
    "C19": "part-name arithmetic is an equation between values of pure string functions (posixpath "
           "semantics) over all name pairs; no table, ordering or ownership fact in the source determines it; "
           "bounding it needs concrete or symbolic evaluation, a different technique family",
}
