"""Recognisers for small computations, written against the canonical form of a function (helpers inlined, locals substituted) so
that temporaries, list-vs-generator, extracted helpers and hoisted constants do not matter."""

from __future__ import annotations

import ast

from . import paths as P_
from .inline import expand
from .itersrc import source_of
from .pysrc import dotted
from .types import walk_own


def returned_exprs(prog, f, local_only=True, depth=2):
    """(canonical function, [returned expressions with single-assignment locals substituted])"""
    fx = expand(prog, f, depth=depth, local_only=local_only)
    val = P_.value_aliases(fx)
    val.pop("_", None)
    out = []
    for n in walk_own(fx):
        if isinstance(n, ast.Return) and n.value is not None:
            from .desugar import simplify_functional

            out.append(ast.fix_missing_locations(simplify_functional(ast.parse(P_.full(n.value, val, depth=8), mode="eval").body)))
    return fx, out


def join_reader(prog, f):
    """`SEP.join(<elt> for v in <source>)` (list or generator, directly or through a local): returns
    {"sep", "elt" (source of the element expression with the loop variable written `_`), "terminal", "filtered", "lossy"} or None."""
    fx, rets = returned_exprs(prog, f)
    if len(rets) != 1:
        return None
    v = rets[0]
    if not (isinstance(v, ast.Call) and isinstance(v.func, ast.Attribute) and v.func.attr == "join" and len(v.args) == 1):
        return None
    sep = prog.const(v.func.value, f.module, None, f.cls)
    g = v.args[0]
    if isinstance(g, ast.Call) and dotted(g.func) in ("list", "tuple") and g.args:
        g = g.args[0]
    if not (isinstance(g, (ast.ListComp, ast.GeneratorExp)) and len(g.generators) == 1 and isinstance(g.generators[0].target, ast.Name)):
        return None
    tv = g.generators[0].target.id

    class R(ast.NodeTransformer):
        def visit_Name(self, n):
            return ast.Name(id="_", ctx=n.ctx) if n.id == tv else n
    import copy

    elt = ast.unparse(R().visit(copy.deepcopy(g.elt)))
    src = source_of(fx, g.generators[0].iter, prog, f)
    return {"sep": sep, "elt": elt, "terminal": src["terminal"], "via": src["via"], "filtered": src["filtered"] + [ast.unparse(c) for c in g.generators[0].ifs],
            "lossy": src["lossy"]}


def max_plus_one(prog, f):
    """`max(<elt> for v in <source>) + 1` with 0 for an empty population (early `return 0` or `default=-1`), in any spelling:
    returns {"elt", "terminal", "filtered", "empty"} or None."""
    import copy

    from .poly import Poly, of_expr

    fx = expand(prog, f, local_only=True)
    val = P_.value_aliases(fx)
    found, empty = None, None
    for r in P_.outcomes(fx.body, P_.aliases(fx)):
        if r.end != "return":
            continue
        from .desugar import simplify_functional

        v = simplify_functional(ast.parse(P_.full(r.path.end_node.value, val, depth=8), mode="eval").body)
        ast.fix_missing_locations(v)
        mx = [c for c in ast.walk(v) if isinstance(c, ast.Call) and dotted(c.func) == "max" and c.args]
        if not mx:
            k = prog.const(v, f.module)
            if isinstance(k, int) and not isinstance(k, bool):
                empty = k   # the value returned when nothing is in use
                continue
            return None
        if len(mx) != 1:
            return None
        c = mx[0]

        class R(ast.NodeTransformer):
            def visit_Call(self, n):
                return ast.Name(id="MAX", ctx=ast.Load()) if n is c else self.generic_visit(n)
        g = c.args[0]
        if of_expr(R().visit(v)) != Poly.sym("MAX") + Poly.const(1):   # v is a fresh tree: rewritten in place
            return None
        if isinstance(g, ast.Call) and dotted(g.func) in ("list", "tuple") and g.args:
            g = g.args[0]
        if not (isinstance(g, (ast.ListComp, ast.GeneratorExp)) and len(g.generators) == 1 and isinstance(g.generators[0].target, ast.Name)):
            return None
        tv = g.generators[0].target.id

        class T(ast.NodeTransformer):
            def visit_Name(self, n):
                return ast.Name(id="_", ctx=n.ctx) if n.id == tv else n
        src = source_of(fx, g.generators[0].iter, prog, f)
        found = {"elt": ast.unparse(T().visit(copy.deepcopy(g.elt))), "terminal": src["terminal"], "via": src["via"],
                 "filtered": src["filtered"] + [ast.unparse(x) for x in g.generators[0].ifs]}
        dflt = next((k.value for k in c.keywords if k.arg == "default"), None)
        if dflt is not None:
            d = prog.const(dflt, f.module)
            if isinstance(d, int):
                empty = d + 1
    if found is None:
        return None
    found["empty"] = empty
    return found


def position_lookup(prog, f):
    """`for i, s in enumerate(self): if x is s: return i` (x the parameter): returns {"source", "start", "test"} or None."""
    fx = expand(prog, f, local_only=True)
    params = [a.arg for a in f.node.args.args if a.arg not in ("self", "cls")]
    for lp in [n for n in ast.walk(fx) if isinstance(n, ast.For)]:
        it = lp.iter
        if not (isinstance(it, ast.Call) and dotted(it.func) == "enumerate" and it.args and isinstance(lp.target, ast.Tuple) and len(lp.target.elts) == 2
                and all(isinstance(e, ast.Name) for e in lp.target.elts)):
            continue
        iv, ev = lp.target.elts[0].id, lp.target.elts[1].id
        start = it.args[1] if len(it.args) > 1 else next((k.value for k in it.keywords if k.arg == "start"), None)
        sv = prog.const(start, f.module) if start is not None else 0
        for r in P_.outcomes(lp.body, P_.aliases(fx)):
            if r.end == "return" and r.value == iv:
                for a in r.facts:
                    if a[0] == "cmp" and a[1] in ("Is", "Eq") and a[4] is True and {a[2], a[3]} == {ev, params[0] if params else None}:
                        return {"source": ast.unparse(it.args[0]), "start": sv, "test": a[1]}
    return None


def first_matches(prog, f):
    """Searches for the first element of a source that satisfies a test, in either spelling:
         next((E for v in SRC if C), D)                  (anywhere in an expression)
         for v in SRC: if C: return E                    (loop with an early return)
    Returns [{"terminal", "elt", "conds" (list of sources, loop variable written `_`)}]."""
    import copy

    fx = expand(prog, f, local_only=True)
    out = []

    def ren(e, tv):
        class R(ast.NodeTransformer):
            def visit_Name(self, n):
                return ast.Name(id="_", ctx=n.ctx) if n.id == tv else n
        return ast.unparse(R().visit(copy.deepcopy(e)))

    for n in ast.walk(fx):
        if isinstance(n, ast.Call) and dotted(n.func) == "next" and n.args and isinstance(n.args[0], ast.GeneratorExp) \
                and len(n.args[0].generators) == 1 and isinstance(n.args[0].generators[0].target, ast.Name):
            g = n.args[0].generators[0]
            out.append({"terminal": source_of(fx, g.iter, prog, f)["terminal"], "elt": ren(n.args[0].elt, g.target.id),
                        "conds": [ren(c, g.target.id) for c in g.ifs]})
        if isinstance(n, ast.For) and isinstance(n.target, ast.Name):
            for r in P_.outcomes(n.body, P_.aliases(fx)):
                if r.end == "return" and r.value is not None:
                    conds = [ren(e[1], n.target.id) for e in r.path.events if e[0] == "cond" and e[2] is True]
                    neg = [e for e in r.path.events if e[0] == "cond" and e[2] is False]
                    if conds and not neg:
                        out.append({"terminal": source_of(fx, n.iter, prog, f)["terminal"], "elt": ren(r.path.end_node.value, n.target.id),
                                    "conds": conds})
    return out
