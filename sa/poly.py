"""Multivariate integer polynomials in normal form, built from Python expression trees.

A polynomial is a dict {monomial: coefficient}; a monomial is a sorted tuple of symbol names (with repetition).
`+ - *` and integer literals are interpreted; any other sub-expression (floor division, calls, attribute reads,
subscripts) becomes an opaque symbol named by its normalised source, so identities proved here hold for every
value of those sub-expressions.  No solver: equality is equality of normal forms.
"""

from __future__ import annotations

import ast


class Poly:
    __slots__ = ("t",)

    def __init__(self, t=None):
        self.t = {k: v for k, v in (t or {}).items() if v != 0}

    @staticmethod
    def const(c):
        return Poly({(): c})

    @staticmethod
    def sym(name):
        return Poly({(name,): 1})

    def __add__(self, o):
        t = dict(self.t)
        for k, v in o.t.items():
            t[k] = t.get(k, 0) + v
        return Poly(t)

    def __neg__(self):
        return Poly({k: -v for k, v in self.t.items()})

    def __sub__(self, o):
        return self + (-o)

    def __mul__(self, o):
        t = {}
        for k1, v1 in self.t.items():
            for k2, v2 in o.t.items():
                k = tuple(sorted(k1 + k2))
                t[k] = t.get(k, 0) + v1 * v2
        return Poly(t)

    def __eq__(self, o):
        return isinstance(o, Poly) and self.t == o.t

    def __hash__(self):
        return hash(tuple(sorted(self.t.items())))

    def is_zero(self):
        return not self.t

    def is_const(self):
        return all(k == () for k in self.t)

    def const_value(self):
        return self.t.get((), 0) if self.is_const() else None

    def symbols(self):
        return {s for k in self.t for s in k}

    def subst(self, name, p):
        out = Poly()
        for k, v in self.t.items():
            term = Poly.const(v)
            for s in k:
                term = term * (p if s == name else Poly.sym(s))
            out = out + term
        return out

    def __repr__(self):
        if not self.t:
            return "0"
        parts = []
        for k, v in sorted(self.t.items(), key=lambda kv: (len(kv[0]), kv[0])):
            m = "*".join(k)
            if not k:
                parts.append(str(v))
            elif v == 1:
                parts.append(m)
            elif v == -1:
                parts.append("-" + m)
            else:
                parts.append("%d*%s" % (v, m))
        return " + ".join(parts).replace("+ -", "- ")


def of_expr(node, env=None, wrappers=()):
    """Poly of an expression.  `env` maps local names to Poly (substituted); `wrappers` are callables that are the
    identity on integers (Emu, int, Length ...) and are looked through."""
    env = env or {}
    if isinstance(node, ast.Constant) and isinstance(node.value, int) and not isinstance(node.value, bool):
        return Poly.const(node.value)
    if isinstance(node, ast.Name):
        return env.get(node.id, Poly.sym(node.id))
    if isinstance(node, ast.BinOp):
        if isinstance(node.op, (ast.Add, ast.Sub, ast.Mult)):
            l, r = of_expr(node.left, env, wrappers), of_expr(node.right, env, wrappers)
            return l + r if isinstance(node.op, ast.Add) else l - r if isinstance(node.op, ast.Sub) else l * r
    if isinstance(node, ast.UnaryOp) and isinstance(node.op, ast.USub):
        return -of_expr(node.operand, env, wrappers)
    if isinstance(node, ast.Call) and len(node.args) == 1 and not node.keywords:
        f = node.func
        name = f.id if isinstance(f, ast.Name) else f.attr if isinstance(f, ast.Attribute) else None
        if name in wrappers:
            return of_expr(node.args[0], env, wrappers)
    # min / max / abs of a pair: max(x, y) = min(x, y) + |x - y|, so the three spellings of an extent agree
    if isinstance(node, ast.Call) and isinstance(node.func, ast.Name) and not node.keywords:
        pair = None
        if node.func.id in ("min", "max") and len(node.args) == 2:
            pair = node.args
        elif node.func.id == "abs" and len(node.args) == 1 and isinstance(node.args[0], ast.BinOp) and isinstance(node.args[0].op, ast.Sub):
            pair = [node.args[0].left, node.args[0].right]
        if pair is not None:
            ks = sorted(_opaque(x, env, wrappers) for x in pair)
            lo, span = Poly.sym("min{%s|%s}" % tuple(ks)), Poly.sym("span{%s|%s}" % tuple(ks))
            return lo if node.func.id == "min" else span if node.func.id == "abs" else lo + span
    # opaque: substitute env inside by name for stability of the key
    return Poly.sym(_opaque(node, env, wrappers))


def _opaque(node, env, wrappers):
    class Sub(ast.NodeTransformer):
        def visit_Name(self, n):
            p = env.get(n.id)
            if p is not None:
                return ast.Name(id="<%r>" % p, ctx=ast.Load())
            return n

    import copy

    return ast.unparse(Sub().visit(copy.deepcopy(node)))
