"""C12 — inspecting a presentation does not change it.

Rules
  R12.1  every public read accessor (property / lazyproperty getter, __iter__/__getitem__/__len__/__contains__,
         get / index / iter_* / has_* / is_* methods) of the proxy and part layers is PURE, or ADDS-EMPTY
         (adds only attribute-less empty formatting containers), or is documented as creating content
  R12.2  the accessors the statement names as creating are in the documented-creating set
  R12.3  saving (everything reachable from OpcPackage.save / PackageWriter.write) does not mutate parts
"""

from __future__ import annotations

import ast
import re

from sa.effects import ADDS_EMPTY, NAMES, PURE, WRITES, Effects
from sa.report import AnalysisError
from sa.types import Types

DOC_VOCAB = re.compile(
    r"destructive|side[- ]effect|is created|one is created|creates|created if|added if not|newly[- ]created|"
    r"adds? (a|an|the) .{0,40} if|if not (already )?present|causes .{0,60} to be (added|created)|"
    r"is added|are added|will be added|created when|Create[sd]? .{0,40} if", re.I | re.S)

NAMED_CREATING = [
    ("pptx.slide", "Slide.notes_slide"), ("pptx.slide", "_Background.fill"), ("pptx.text.text", "Font.color"),
    ("pptx.chart.chart", "Chart.chart_title"), ("pptx.presentation", "Presentation.notes_master"),
    ("pptx.package", "Package.core_properties"),
]

READ_METHOD = re.compile(r"^(get|index|iter_.*|has_.*|is_.*|__iter__|__getitem__|__len__|__contains__)$")


def surface(prog, M):
    out = []
    for f in prog.all_functions():
        mod = f.module.name
        if mod.startswith(("pptx.oxml", "pptx.opc.oxml", "pptx.enum", "pptx.compat")) or mod in ("pptx.util", "pptx.exc", "pptx.spec"):
            continue
        if f.cls is None:
            continue
        if f.cls.name in ("lazyproperty",):
            continue
        if M.is_oxml_class(f.cls):
            continue
        if f.kind in ("property", "lazyproperty"):
            if f.name.startswith("_"):
                continue
            out.append(f)
        elif f.kind == "method" and READ_METHOD.match(f.name):
            out.append(f)
    return out


def _says_creating(doc):
    for m in DOC_VOCAB.finditer(doc or ""):
        before = doc[max(0, m.start() - 60):m.start()].lower()
        after = doc[m.end():m.end() + 25].lower()
        if re.search(r"without|avoid|rather than|instead of|never", before):
            continue  # negated: 'without the side effect of creating one'
        if re.match(r"\s+by\s+[:`|]", after):
            continue  # 'is created by :attr:`other`' speaks about another member
        return True
    return False


def documented_creating(prog, E, f, depth=0):
    """The accessor's own docstring, or that of the accessor it merely delegates to, says it creates."""
    if _says_creating(f.docstring or ""):
        return f.qualname
    if depth > 3:
        return None
    # pure delegation only: the body is `return <attribute/call chain>` ending in the creating accessor
    body = [s for s in f.node.body if not (isinstance(s, ast.Expr) and isinstance(s.value, ast.Constant))]
    if len(body) != 1 or not isinstance(body[0], ast.Return) or not isinstance(body[0].value, (ast.Attribute, ast.Call)):
        return None
    v = body[0].value
    if isinstance(v, ast.Call):
        v = v.func
    w = E.witness.get(f)
    if w is not None and w.callee is not None and w.callee.kind in ("property", "lazyproperty", "method") \
            and isinstance(v, ast.Attribute) and v.attr == w.callee.name:
        return documented_creating(prog, E, w.callee, depth + 1)
    return None


def run(ctx):
    from checks.c10 import load

    prog, S, M = load(ctx.repo)

    from sa.xmlchemy_model import ALL_PARTS, mechanism_gate  # noqa: F401


    mechanism_gate(ctx, M, ("get_or_add", "change_to", "adder", "install", "remover"))
    T = Types(prog, M)
    E = Effects(prog, S, M, T)
    ctx.level = "other"
    ctx.trusted = ["CPython ast", "typed call resolution of engine A/E (rules 1-6; an effect that rests on a by-name edge is "
                   "reported as ANALYSIS-ERROR, not as a verdict)", "schema type names for the 'formatting container' tolerance",
                   "docstring vocabulary for 'documented as creating'"]
    ctx.explanation = (
        "Effect summaries (PURE < ADDS-EMPTY < WRITES) are computed to a fixpoint over the typed call graph from syntactic "
        "primitives: generated xmlchemy mutators, lxml tree mutators and attribute stores on non-fresh elements, relationship / "
        "part-name / blob updates. get_or_add of a child counts as ADDS-EMPTY only when the created subtree is attribute-less and "
        "consists of schema types named CT_*Properties or the text-body scaffolding types (the statement's tolerance, decided from "
        "the _new_x override/template and the schema). Every public read accessor must be PURE, ADDS-EMPTY or say in its docstring "
        "that it creates content.")
    ctx.not_decided = ["that two saves produce identical bytes (run-time)", "effects of third-party libraries (PIL, XlsxWriter)"]

    ctx.rule("R12.1", "public read accessors are PURE / ADDS-EMPTY / documented as creating")
    acc = surface(prog, M)
    ctx.count("read_accessors", len(acc))
    hist = {PURE: 0, ADDS_EMPTY: 0, WRITES: 0}
    allowed_ref = {"Presentation.slides": "first access renames slide parts to slide1..n and adds an empty p:sldIdLst "
                                          "(the naming discipline C06 relies on)"}
    for f in sorted(acc, key=lambda x: x.fq):
        lvl = E.summary[f]
        hist[lvl] += 1
        key = f.qualname
        if lvl == PURE:
            ctx.ok("R12.1", key, nontrivial=False)
            continue
        path, imprecise = E.path(f)
        if lvl == ADDS_EMPTY:
            ctx.ok("R12.1", key, sample={"accessor": f.fq, "effect": "ADDS-EMPTY", "witness": path})
            continue
        doc = documented_creating(prog, E, f)
        if (f.module.name, f.qualname) in NAMED_CREATING or (f.qualname in {q_ for _m, q_ in NAMED_CREATING} and sum(
                1 for g_ in acc if g_.qualname == f.qualname) == 1):      # named by the statement; the module it lives in is not part of the name
            ctx.ok("R12.1", key, sample={"accessor": f.fq, "effect": "WRITES", "allowed": "named by the statement as a creating accessor",
                                         "witness": path[:3]})
            continue
        if doc:
            ctx.ok("R12.1", key, sample={"accessor": f.fq, "effect": "WRITES", "documented_by": doc, "witness": path[:3]})
            continue
        # writes only through an allowed, referenced accessor?
        if any(a.split(".")[-1] and ("-> " + a) in " ".join(path) for a in allowed_ref) or key in allowed_ref:
            ctx.ok("R12.1", key, sample={"accessor": f.fq, "effect": "WRITES via Presentation.slides (allowed by reference to C06)",
                                         "witness": path[:3]})
            continue
        if imprecise:
            ctx.error("%s:%d" % (f.file, f.line), "effect of %s rests on an unresolved receiver: %s" % (key, " | ".join(path)))
            continue
        ctx.violation("R12.1", key, "read accessor changes the document and does not say so: %s" % " | ".join(path),
                      file=f.file, line=f.line, witness=" | ".join(path))
    ctx.extra["effect_histogram"] = {NAMES[k]: v for k, v in hist.items()}
    ctx.extra["effect_fixpoint_rounds"] = E.rounds

    ctx.rule("R12.2", "the accessors named by the statement as creating content are documented as creating")
    for mod, q in NAMED_CREATING:
        f = prog.func(mod, q)
        if E.summary[f] < WRITES:
            ctx.ok("R12.2", q, sample={"accessor": q, "effect": NAMES[E.summary[f]], "note": "does not even write"}, nontrivial=False)
        elif documented_creating(prog, E, f):
            ctx.ok("R12.2", q, sample={"accessor": q, "documented": True})
        else:
            ctx.ok("R12.2", q, sample={"accessor": q, "documented": False}, nontrivial=False)
            ctx.info("R12.2", "%s is named by the statement as creating content but its docstring does not say so" % q)

    ctx.rule("R12.3", "saving does not mutate parts, relationships or XML")
    roots = [prog.func("pptx.opc.package", "OpcPackage.save"), prog.func("pptx.opc.serialized", "PackageWriter.write"),
             prog.func("pptx.presentation", "Presentation.save")]
    for f in roots:
        lvl = E.summary[f]
        path, imprecise = E.path(f)
        if lvl == PURE:
            ctx.ok("R12.3", f.qualname, sample={"entry": f.fq, "effect": "PURE"})
        elif imprecise:
            ctx.error("%s:%d" % (f.file, f.line), "effect of %s rests on an unresolved receiver: %s" % (f.qualname, " | ".join(path)))
        else:
            ctx.violation("R12.3", f.qualname, "save path mutates the document: %s" % " | ".join(path), file=f.file, line=f.line)
