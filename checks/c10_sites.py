"""C10 rules R10.raw / R10.card — hand-written insertion sites and overrides of generated methods."""

from __future__ import annotations

import ast
import json
import os

from sa.contexts import ContextEnumerator
from sa.pysrc import dotted
from sa.report import VERIF, AnalysisError
from sa.types import FCtx, Types, walk_own
from sa.xmlchemy_model import choice_prop

RAW_METHODS = ("append", "insert", "addprevious", "addnext", "extend", "insert_element_before", "replace")


LAST_T = None


def _hints():
    p = os.path.join(VERIF, "hints.json")
    if os.path.exists(p):
        with open(p) as f:
            return json.load(f)
    return {}


def elem_classes(T, M, t):
    """(classes, has_unknown_lxml) of a type."""
    cls, unk = [], False
    for a in t:
        if a[0] == "inst" and M.is_oxml_class(a[1]):
            if a[1].name == "BaseOxmlElement":
                unk = True
            else:
                cls.append(a[1])
        elif a[0] == "lxml":
            unk = True
    return cls, unk


def tags_of_classes(prog, M, classes):
    tags = []
    for c in classes:
        ts = M.tags_for_class(c)
        if not ts:
            # abstract base: tags of registered subclasses
            for s in prog.subclasses(c):
                ts = ts + M.tags_for_class(s)
        for t in ts:
            if t not in tags:
                tags.append(t)
    return tags


def insertion_wrappers(prog, M):
    """Methods of element classes that do nothing but `self.insert_element_before(<their parameter>, <constant tags>)`: name ->
    (FuncInfo, index of the element parameter, [tags]).  A call of such a method is the insertion it makes (with the caller's
    argument), and is analysed at the call site, where the inserted element is known."""
    out = {}
    for c in M.oxml_classes():
        for name, f in c.methods.items():
            body = [s_ for s_ in f.node.body if not (isinstance(s_, ast.Expr) and isinstance(s_.value, ast.Constant))]
            if len(body) != 1 or not isinstance(body[0], (ast.Return, ast.Expr)) or not isinstance(body[0].value, ast.Call):
                continue
            c0 = body[0].value
            if dotted(c0.func) != "self.insert_element_before" or not c0.args or c0.keywords:
                continue
            ps = f.params[1:]
            if not (isinstance(c0.args[0], ast.Name) and c0.args[0].id in ps):
                continue
            tags, okt = [], True
            for a in c0.args[1:]:
                v = prog.const(a.value if isinstance(a, ast.Starred) else a, f.module, None, c)
                if isinstance(a, ast.Starred) and isinstance(v, (tuple, list)) and all(isinstance(x, str) for x in v):
                    tags += list(v)
                elif not isinstance(a, ast.Starred) and isinstance(v, str):
                    tags.append(v)
                else:
                    okt = False
            if okt and name not in RAW_METHODS:
                out[name] = (f, ps.index(c0.args[0].id), tags)
    return out


def collect_sites(prog, M, T):
    sites = []
    wrappers = insertion_wrappers(prog, M)
    for f in prog.all_functions():
        if f.module.name == "pptx.oxml.xmlchemy":
            continue
        if any(w[0] is f for w in wrappers.values()):
            continue   # analysed at its call sites
        fc = FCtx(f)
        for n in walk_own(f.node):
            if isinstance(n, ast.Call) and isinstance(n.func, ast.Attribute) and n.func.attr in wrappers and not n.keywords \
                    and len(n.args) > wrappers[n.func.attr][1]:
                _wf, wi, wtags = wrappers[n.func.attr]
                syn = ast.Call(func=ast.Attribute(value=n.func.value, attr="insert_element_before", ctx=ast.Load()),
                               args=[n.args[wi]] + [ast.Constant(value=t_) for t_ in wtags], keywords=[])
                ast.copy_location(syn, n)
                ast.copy_location(syn.func, n.func)
                for a_ in syn.args[1:]:
                    ast.copy_location(a_, n)
                n = syn
            if isinstance(n, ast.Call) and isinstance(n.func, ast.Attribute) and n.func.attr in RAW_METHODS:
                rt = T.expr(n.func.value, fc)
                cls, unk = elem_classes(T, M, rt)
                if not cls and not unk:
                    continue
                sites.append((f, fc, n, rt, cls, unk))
    return sites


def _positions_ok(S, tq, child, index_fn, bound=2, need=None):
    """Run index_fn(v) -> list of indices to test on every context; returns failing (v, idx, valid)."""
    en = ContextEnumerator(S, tq, child)
    fails = []
    n = 0
    seen = set()
    seeds = [w for w in en.seeds(bound)] + [w for _, w in en.families()]
    for w in seeds:
        if need is not None and need not in w:
            continue
        for v in en.completions(tuple(w)):
            if v in seen:
                continue
            seen.add(v)
            valid = en.valid_positions(v)
            if not valid:
                continue
            for idx in index_fn(v):
                n += 1
                if idx not in valid:
                    fails.append((v, idx, valid))
    return n, fails


def run(ctx, prog, S, M, explicit):
    from checks.c10 import complex_types_for

    global LAST_T
    T = LAST_T = Types(prog, M)
    hints = _hints().get("C10", {})
    ctx.rule("R10.raw", "hand-written tree insertions (append/insert/addprevious/addnext/insert_element_before) "
                        "place the child at a schema-valid position in every context")
    sites = collect_sites(prog, M, T)
    ctx.count("raw_sites", len(sites))
    bound = 2
    fresh_eval = None
    for f, fc, call, rt, rcls, runk in sites:
        meth = call.func.attr
        where = "%s:%d" % (f.file, call.lineno)
        skey = "%s@%s.%s" % (f.qualname, ast.unparse(call.func.value), meth)
        if meth == "replace" and len(call.args) == 2:
            ta = tags_of_classes(prog, M, elem_classes(T, M, T.expr(call.args[0], fc))[0])
            tb = tags_of_classes(prog, M, elem_classes(T, M, T.expr(call.args[1], fc))[0])
            if ta and tb and set(ta) == set(tb):
                ctx.ok("R10.raw", skey, sample={"site": where, "op": "replace", "same_tag": ta})
            else:
                ctx.error(where, "replace(%s, %s): cannot show that the new element has the tag of the one it replaces" % (
                    ast.unparse(call.args[0]), ast.unparse(call.args[1])))
            continue
        ext_at = None
        if meth == "extend" and len(call.args) == 1:
            # E.extend(<sequence of elements>): each is appended, in order - the placement question is that of append()
            lt = T.expr(call.args[0], fc)
            inner = frozenset(x for a_ in lt if a_[0] in ("list", "tuple") and len(a_) > 1 and a_[1] for x in a_[1])
            if inner:
                ext_at = inner
                meth = "append"
        if meth in ("extend", "replace"):
            ctx.error(where, "raw tree mutation .%s() on an element is not modelled" % meth)
            continue
        argi = 1 if meth == "insert" else 0
        if len(call.args) <= argi:
            continue
        arg = call.args[argi]
        at = ext_at if ext_at is not None else T.expr(arg, fc)
        acls, aunk = elem_classes(T, M, at)
        h = hints.get(skey, {})
        child_tags = h.get("child") or tags_of_classes(prog, M, acls)
        if not child_tags:
            ctx.error(where, "cannot infer the tag of the inserted element `%s` in %s (add a hint)" % (
                ast.unparse(arg), skey))
            continue
        if meth in ("addprevious", "addnext"):
            sib_tags = h.get("sibling") or tags_of_classes(prog, M, rcls)
            if not sib_tags:
                ctx.error(where, "cannot infer the tag of the sibling `%s` in %s (add a hint)" % (
                    ast.unparse(call.func.value), skey))
                continue
            nob = 0
            fails_all = []
            for st in sib_tags:
                sq = prog.qn(st)
                for ct in child_tags:
                    cq = prog.qn(ct)
                    for tq in sorted(S.elem_parents.get(sq, ())):
                        if cq not in S.alphabet(tq):
                            continue
                        if st != ct and not _same_slot(S, tq, sq, cq):
                            # sibling and child live in different slots of this parent type: only relevant
                            # if the class is really used there; report as failing context
                            pass

                        def idxs(v, sq=sq):
                            out = []
                            for i, x in enumerate(v):
                                if x == sq:
                                    out.append(i if meth == "addprevious" else i + 1)
                            return out

                        n, fails = _positions_ok(S, tq, cq, idxs, bound, need=sq)
                        nob += n
                        for v, idx, valid in fails:
                            fails_all.append((S.tname(tq), st, ct, v, idx, valid))
            if nob == 0:
                ctx.error(where, "%s: no schema type has both %s and %s as children" % (skey, sib_tags, child_tags))
                continue
            if fails_all:
                tn, st, ct, v, idx, valid = min(fails_all, key=lambda x: len(x[3]))
                ctx.violation("R10.raw", skey, "%s(%s) relative to %s is not schema-valid in %s" % (meth, ct, st, tn),
                              file=f.file, line=call.lineno,
                              witness="context [%s] index %d valid %s" % (", ".join(S.pfx(x) for x in v), idx, valid))
            else:
                ctx.ok("R10.raw", skey, sample={"site": where, "op": meth, "sibling": sib_tags, "child": child_tags,
                                                "positions_checked": nob})
            continue
        # parent-relative operations
        parent_tags = h.get("parent") or tags_of_classes(prog, M, rcls)
        if not parent_tags:
            ctx.error(where, "cannot infer the parent element class of `%s` in %s (add a hint)" % (
                ast.unparse(call.func.value), skey))
            continue
        if meth == "insert_element_before":
            succ = []
            okf = True
            for a in call.args[1:]:
                v = prog.const(a, f.module)
                if isinstance(v, str):
                    succ.append(prog.qn(v))
                else:
                    okf = False
            if not okf:
                ctx.error(where, "%s: successor tags are not literals" % skey)
                continue
            index_fn = None
        elif meth == "append":
            succ = []
        elif meth == "insert":
            iv = prog.const(call.args[0], f.module)
            if iv != 0:
                ctx.error(where, "%s: insert at a non-zero / computed index is not modelled" % skey)
                continue
            succ = None
        nob = 0
        fails_all = []
        unconstrained = False
        for pt in parent_tags:
            for tq in complex_types_for(S, prog.qn(pt)):
                sigma = S.alphabet(tq)
                if S.has_any(tq) and not sigma:
                    unconstrained = True
                    continue
                for ct in child_tags:
                    cq = prog.qn(ct)
                    if cq not in sigma:
                        continue
                    if succ is None:
                        idxs = lambda v: [0]  # noqa: E731
                    else:
                        idxs = lambda v, succ=succ: [_first_index(v, succ, M.semantics)]  # noqa: E731
                    n, fails = _positions_ok(S, tq, cq, idxs, bound)
                    nob += n
                    for v, idx, valid in fails:
                        fails_all.append((S.tname(tq), pt, ct, v, idx, valid))
        if nob == 0:
            if unconstrained:
                ctx.ok("R10.raw", skey, sample={"site": where, "op": meth, "parent": parent_tags,
                                                "note": "parent content is xsd:any (unconstrained)"}, nontrivial=False)
                continue
            ctx.violation("R10.raw", skey, "%s is not a child of %s in any schema type" % (child_tags, parent_tags),
                          file=f.file, line=call.lineno)
            continue
        if fails_all:
            # a receiver that was created in this function from a template has exactly the template's children
            fresh = _fresh_context(prog, M, T, f, fc, call, S)
            if fresh is not None:
                okf, why = fresh
                if okf == "unknown":
                    ctx.error(skey, why)
                    continue
                if okf:
                    ctx.ok("R10.raw", skey, sample={"site": where, "op": meth, "parent": parent_tags,
                                                    "child": child_tags, "fresh_receiver": why})
                    continue
            tn, pt, ct, v, idx, valid = min(fails_all, key=lambda x: len(x[3]))
            ctx.violation("R10.raw", skey,
                          "%s of %s into %s ignores later siblings the schema allows (%s)" % (meth, ct, pt, tn),
                          file=f.file, line=call.lineno,
                          witness="context [%s] -> index %d, valid %s" % (", ".join(S.pfx(x) for x in v), idx, valid))
        else:
            ctx.ok("R10.raw", skey, sample={"site": where, "op": meth, "parent": parent_tags, "child": child_tags,
                                            "positions_checked": nob})

    # -- explicit overrides of generated inserters ---------------------------------------------
    for cls, tag, tq, d, ct, fi in explicit:
        ctx.error("%s:%d" % (fi.file, fi.line),
                  "hand-written %s overrides the generated inserter; not modelled" % fi.qualname)

    # -- R10.card ----------------------------------------------------------------------------------
    ctx.rule("R10.card", "overrides of get_or_add_x test for presence before adding; choice-group removers cover "
                         "exactly the declared members; choice members are mutually exclusive in the schema")
    for c in M.oxml_classes():
        for name, fi in sorted(c.methods.items()):
            if name.startswith("get_or_add_"):
                key = "%s.%s" % (c.name, name)
                if _override_guarded(fi, name[len("get_or_add_"):]):
                    ctx.ok("R10.card", key, sample={"override": fi.fq, "guard": "presence test / delegation"})
                else:
                    ctx.violation("R10.card", key, "hand-written get_or_add adds a child without testing that "
                                  "none is present", file=fi.file, line=fi.line)
        for d in M.own_decls(c)[0]:
            if d.kind == "ZeroOrOneChoice":
                key = "%s.%s" % (c.name, d.prop)
                fi = c.methods.get("_remove_" + d.prop)
                if fi is not None:
                    ctx.error("%s:%d" % (fi.file, fi.line), "hand-written group remover %s not modelled" % fi.qualname)
                    continue
                # members must be alternatives of one non-repeating choice in every schema type of the class
                bad = None
                n = 0
                for t in M.tags_for_class(c) or tags_of_classes(prog, M, [c]):
                    for tq in complex_types_for(S, prog.qn(t)):
                        members = [prog.qn(x) for x in d.tags if prog.qn(x) in S.alphabet(tq)]
                        if len(members) < 2:
                            continue
                        R = S.automaton(tq, relaxed=True)
                        for i, a in enumerate(members):
                            for b in members[i + 1:]:
                                n += 1
                                if R.accepts([a, b]) or R.accepts([b, a]):
                                    bad = (S.tname(tq), S.pfx(a), S.pfx(b))
                # the declared group must cover the whole schema choice, else 'change to' leaves the
                # undeclared member in place next to the new one
                uncovered = None
                for t in M.tags_for_class(c) or tags_of_classes(prog, M, [c]):
                    for tq in complex_types_for(S, prog.qn(t)):
                        names = [prog.qn(x) for x in d.tags if prog.qn(x) in S.alphabet(tq)]
                        if not names:
                            continue
                        ch = _find_choice(S, S.model(tq), names)
                        if ch is None:
                            uncovered = (S.tname(tq), "members are not alternatives of one schema choice")
                            continue
                        miss = [S.pfx(e.name) for e in S.iter_elems(ch) if e.name not in names]
                        n += 1
                        if miss:
                            uncovered = (S.tname(tq), "schema alternatives not in the group: %s" % ", ".join(miss))
                if uncovered and not bad:
                    ctx.violation("R10.card", key, "choice group does not match the schema choice in %s: %s "
                                  "('change to' / group remover would leave two members)" % uncovered,
                                  file=c.file, line=d.line)
                    continue
                if bad:
                    ctx.violation("R10.card", key, "choice group members %s and %s can co-occur in %s: "
                                  "'change to' would wrongly remove a legitimate sibling" % (bad[1], bad[2], bad[0]),
                                  file=c.file, line=d.line)
                else:
                    ctx.ok("R10.card", key, sample={"group": d.prop, "members": d.tags, "pairs_checked": n},
                           nontrivial=n > 0)


def _find_choice(S, p, names):
    best = None

    def walk(q):
        nonlocal best
        if q.kind == "choice" and set(names) <= {e.name for e in S.iter_elems(q)}:
            best = q
        for i in q.items:
            walk(i)

    if p is not None:
        walk(p)
    return best


def _first_index(v, succ, semantics):
    from sa.contexts import insertion_index

    return insertion_index(v, succ, semantics)


def _same_slot(S, tq, a, b):
    R = S.automaton(tq, relaxed=True)
    return R.accepts([a, b]) and R.accepts([b, a])


def _override_guarded(fi, prop):
    """Every adding call in the override is dominated by an `is None` test on the child."""
    adds = []
    for n in ast.walk(fi.node):
        if isinstance(n, ast.Call) and isinstance(n.func, ast.Attribute) and dotted(n.func.value) == "self" and (
                n.func.attr.startswith(("_add_", "_insert_")) or
                n.func.attr in ("append", "insert", "insert_element_before")):
            adds.append(n)
    if not adds:
        return True
    guarded = set()
    for n in ast.walk(fi.node):
        if isinstance(n, ast.If):
            t = n.test
            if isinstance(t, ast.Compare) and len(t.ops) == 1 and isinstance(t.ops[0], ast.Is) and \
                    isinstance(t.comparators[0], ast.Constant) and t.comparators[0].value is None:
                for st in n.body:
                    for c in ast.walk(st):
                        guarded.add(id(c))
            if isinstance(t, ast.UnaryOp) and isinstance(t.op, ast.Not) and isinstance(t.operand, ast.Name):
                # if not matches: <add>
                for st in n.body:
                    for c in ast.walk(st):
                        guarded.add(id(c))
            if (isinstance(t, ast.Compare) and len(t.ops) == 1 and isinstance(t.ops[0], ast.IsNot) and
                    isinstance(t.comparators[0], ast.Constant) and t.comparators[0].value is None) or \
                    isinstance(t, ast.Name):
                # if x is not None: return x ; <add>      /     if matches: return matches[0] ; <add>
                if any(isinstance(s, ast.Return) for s in n.body):
                    body = fi.node.body
                    if n in body:
                        for st in body[body.index(n) + 1:]:
                            for c in ast.walk(st):
                                guarded.add(id(c))
                for st in n.orelse:
                    for c in ast.walk(st):
                        guarded.add(id(c))
    return all(id(a) in guarded for a in adds)


def _fresh_context(prog, M, T, f, fc, call, S):
    """If the receiver is a local created in this function from a template (parse_xml / OxmlElement /
    a template factory), decide the append on the template's exact child language.
    Returns (ok, description) or None when the receiver is not fresh."""
    from sa.strabs import S as AS
    from sa.strabs import StrEval
    from sa.xmlskel import child_regex, included, skeleton

    recv = call.func.value
    if not isinstance(recv, ast.Name):
        return None
    # find the single assignment of the receiver in this function
    assigns = [n for n in walk_own(f.node) if isinstance(n, ast.Assign) and len(n.targets) == 1
               and isinstance(n.targets[0], ast.Name) and n.targets[0].id == recv.id]
    if len(assigns) != 1:
        return None
    val = assigns[0].value
    # no other root-level mutation of the receiver between its creation and this call
    for n in walk_own(f.node):
        if isinstance(n, ast.Call) and n is not call and isinstance(n.func, ast.Attribute) \
                and isinstance(n.func.value, ast.Name) and n.func.value.id == recv.id:
            a = n.func.attr
            if a.startswith(("get_or_add_", "_add_", "_insert_", "add_", "get_or_change_to_", "_remove_")) \
                    or a in RAW_METHODS + ("remove", "clear"):
                return None
    ev = StrEval(prog, T)
    # single-assignment locals the template may be held in (`xml = f"..."; sp = parse_xml(xml)`)
    cnt_ = {}
    for n in walk_own(f.node):
        if isinstance(n, ast.Assign) and len(n.targets) == 1 and isinstance(n.targets[0], ast.Name):
            cnt_[n.targets[0].id] = cnt_.get(n.targets[0].id, 0) + 1
    env_ = {}
    if f.cls is not None and f.kind != "staticmethod" and f.params:
        env_[f.params[0]] = ("self", f.cls)   # `cls._tmpl(...)` / `self._tmpl()` resolve on the class
    for n in sorted((x for x in walk_own(f.node) if isinstance(x, ast.Assign) and len(x.targets) == 1 and isinstance(x.targets[0], ast.Name)
                     and cnt_[x.targets[0].id] == 1 and x is not assigns[0] and x.lineno < assigns[0].lineno), key=lambda x: x.lineno):
        if isinstance(n.value, (ast.JoinedStr, ast.Constant, ast.BinOp)) or (isinstance(n.value, ast.Call) and isinstance(n.value.func, ast.Attribute)
                                                                          and n.value.func.attr == "format"):
            try:
                env_[n.targets[0].id] = ev.eval(n.value, fc, env_)
            except Exception:  # noqa: BLE001
                pass
        elif isinstance(n.value, ast.Call):
            # a template handed out by a helper (`tmpl = CT_Shape._textbox_sp_tmpl()`): kept when it evaluates to a string
            try:
                from sa.strabs import S as _AS

                v_ = ev.eval(n.value, fc, env_)
                if isinstance(v_, _AS):
                    env_[n.targets[0].id] = v_
            except Exception:  # noqa: BLE001
                pass
    v = ev.eval(val, fc, env_)
    tmpl = None
    if isinstance(v, tuple) and v and v[0] == "parsed" and isinstance(v[1], AS):
        tmpl = v[1]
    elif isinstance(val, ast.Call) and dotted(val.func) == "OxmlElement":
        tag = prog.const(val.args[0], f.module) if val.args else None
        if isinstance(tag, str):
            # empty element: context is empty
            argt = T.expr(call.args[0], fc)
            from checks.c10_sites import elem_classes, tags_of_classes  # noqa: F401

            return _decide_fresh(prog, M, S, tag, [], call, T, fc, "OxmlElement(%r) has no children" % tag)
    made_here = any(isinstance(x, ast.Call) and (dotted(x.func) or "").split(".")[-1] in ("parse_xml", "parse_from_template") for x in ast.walk(val))
    if tmpl is None or ev.unknown:
        # the receiver is parsed from a template in this function, but the template's text is not evaluated: what children it has
        # at this point is not known (an analysis gap: the site is neither cleared nor reported)
        return ("unknown", "the template `%s` is parsed from does not evaluate" % recv.id) if made_here else None
    sk = skeleton(tmpl, prog.nsmap)
    if len(sk.roots) != 1:
        return None
    root = sk.roots[0]
    seq = child_regex(root)
    return _decide_fresh(prog, M, S, S.pfx(root.tag), seq, call, T, fc, "template root %s" % S.pfx(root.tag))


def _decide_fresh(prog, M, S, ptag, seq, call, T, fc, why):
    from checks.c10 import complex_types_for
    from sa.xmlskel import included

    argi = 1 if call.func.attr == "insert" else 0
    at = T.expr(call.args[argi], fc)
    acls, _ = elem_classes(T, M, at)
    ctags = tags_of_classes(prog, M, acls)
    if not ctags:
        return None
    okall = True
    n = 0
    for tq in complex_types_for(S, prog.qn(ptag)):
        for ct in ctags:
            cq = prog.qn(ct)
            if cq not in S.alphabet(tq):
                continue
            n += 1
            # intervening insertions between creation and this call may add children through schema-
            # positioned inserters only; the template's own children followed by the appended child
            # must be a valid word when the remaining required children are optional
            A = S.automaton(tq, relaxed=True)
            ok, cex = included(list(seq) + [("sym", cq, None)], A)
            if not ok:
                okall = False
    if n == 0:
        return None
    return (okall, why)


# -- R10.excl ------------------------------------------------------------------------------------------
def exclusive_alternatives(prog, S, M, owner, tag):
    """Declared children of `owner` that the schema never allows next to `tag` (alternatives of one choice)."""
    from checks.c10 import complex_types_for

    excl = set()
    xq = prog.qn(tag)
    for t in M.tags_for_class(owner) or tags_of_classes(prog, M, [owner]):
        for tq in complex_types_for(S, prog.qn(t)):
            if xq not in S.alphabet(tq):
                continue
            R = S.automaton(tq, relaxed=True)
            if not R.accepts([xq]):
                continue
            for d in M.child_decls(owner):
                for yt in getattr(d, "tags", None) or [d.tag]:
                    yq = prog.qn(yt)
                    if yq == xq or yq not in S.alphabet(tq):
                        continue
                    if R.accepts([yq]) and not R.accepts([xq, yq]) and not R.accepts([yq, xq]):
                        excl.add(yt)
    return excl


def _removed_before(prog, M, f, call, recv_src, owner, excl):
    """Alternatives removed on the same receiver before `call` in f (by _remove_<child>() or a group remover)."""
    done = set()
    groups = {d.prop: set(d.tags) for d in M.child_decls(owner) if d.kind == "ZeroOrOneChoice"}
    for n in walk_own(f.node):
        if isinstance(n, ast.Call) and isinstance(n.func, ast.Attribute) and n.func.attr.startswith("_remove_") \
                and (n.lineno, n.col_offset) < (call.lineno, call.col_offset) and ast.unparse(n.func.value) == recv_src \
                and _dominates(f.node, n, call):
            what = n.func.attr[len("_remove_"):]
            if what in groups:
                done |= groups[what]
            for y in excl:
                if y.split(":")[1] == what or y.split(":")[1].rstrip("_") == what.rstrip("_"):
                    done.add(y)
    return done


def _fresh_receiver(prog, M, T, f, fc, recv, ptags):
    """Receiver is a local bound (once) to a just-created element: X._add_p() / _new_p() / OxmlElement / parse_xml, or
    X.get_or_add_p() preceded by X._remove_p()."""
    if not isinstance(recv, ast.Name):
        return False
    assigns = [n for n in walk_own(f.node) if isinstance(n, ast.Assign) and len(n.targets) == 1
               and isinstance(n.targets[0], ast.Name) and n.targets[0].id == recv.id]
    if len(assigns) != 1:
        return False
    v = assigns[0].value
    while isinstance(v, ast.Call) and dotted(v.func) == "cast" and len(v.args) == 2:
        v = v.args[1]
    if not isinstance(v, ast.Call):
        return False
    d = dotted(v.func) or ""
    last = d.split(".")[-1]
    if last in ("OxmlElement", "parse_xml") or last.startswith(("_add_", "_new_", "new")):
        return True
    if last.startswith("get_or_add_") and isinstance(v.func, ast.Attribute):
        child = last[len("get_or_add_"):]
        base = ast.unparse(v.func.value)
        for n in walk_own(f.node):
            if isinstance(n, ast.Call) and isinstance(n.func, ast.Attribute) and n.func.attr == "_remove_" + child \
                    and ast.unparse(n.func.value) == base and n.lineno < v.lineno and _dominates(f.node, n, assigns[0]):
                return True
    return False


def _dominates(fnode, early, late):
    """Statement containing `early` is an earlier statement of a block that (transitively) contains `late`."""
    def blocks(node):
        for fld in ("body", "orelse", "finalbody"):
            b = getattr(node, fld, None)
            if isinstance(b, list) and b and isinstance(b[0], ast.stmt):
                yield b
        for h in getattr(node, "handlers", []) or []:
            yield h.body

    def contains(st, target):
        return any(x is target for x in ast.walk(st))

    def search(block):
        for i, st in enumerate(block):
            if contains(st, late):
                # early must be a whole earlier statement of this block (not nested in a conditional)
                for e in block[:i]:
                    if isinstance(e, ast.Expr) and contains(e, early):
                        return True
                for b in blocks(st):
                    if search(b):
                        return True
                return False
        return False

    return search(fnode.body)


def run_excl(ctx, prog, S, M, T):
    ctx.rule("R10.excl", "an alternative of a schema choice is added only after its declared exclusive siblings were removed "
                         "(or on a just-created parent)")
    n = 0
    seen = set()
    for f in prog.all_functions():
        fc = FCtx(f)
        for c in walk_own(f.node):
            if not (isinstance(c, ast.Call) and isinstance(c.func, ast.Attribute)
                    and c.func.attr.startswith(("get_or_add_", "_add_", "_insert_"))):
                continue
            bt = T.expr(c.func.value, fc)
            for a in T.member(bt, c.func.attr, fc, node=c.func):
                if a[0] != "gen":
                    continue
                decl, tag = a[2], a[3]
                owners = [x[1] for x in bt if x[0] == "inst" and M.is_oxml_class(x[1]) and decl.cls in prog.mro(x[1])] or [decl.cls]
                for o in owners:
                    excl = exclusive_alternatives(prog, S, M, o, tag)
                    if not excl:
                        continue
                    key = "%s@%s on %s" % (f.qualname, ast.unparse(c.func), o.name)
                    if key in seen:
                        continue
                    seen.add(key)
                    n += 1
                    recv_src = ast.unparse(c.func.value)
                    done = _removed_before(prog, M, f, c, recv_src, o, excl)
                    left = excl - done
                    why = None
                    if not left:
                        why = "removes %s first" % sorted(excl)
                    elif _fresh_receiver(prog, M, T, f, fc, c.func.value, None):
                        why = "parent `%s` was created in this function" % recv_src
                    elif recv_src == "self" and f.cls is not None:
                        # every caller invokes this method on a fresh receiver
                        callers = []
                        for g in prog.all_functions():
                            gc = FCtx(g)
                            for cc in walk_own(g.node):
                                if isinstance(cc, ast.Call) and isinstance(cc.func, ast.Attribute) and cc.func.attr == f.name and g is not f:
                                    rt = T.expr(cc.func.value, gc)
                                    if any(x[0] == "inst" and f.cls in prog.mro(x[1]) for x in rt):
                                        callers.append(_fresh_receiver(prog, M, T, g, gc, cc.func.value, None))
                        if callers and all(callers):
                            why = "every caller (%d) invokes %s on a parent it has just created" % (len(callers), f.name)
                    if why:
                        ctx.ok("R10.excl", key, sample={"site": "%s:%d" % (f.file, c.lineno), "adds": tag, "exclusive_with": sorted(excl), "safe_because": why})
                    else:
                        ctx.violation("R10.excl", key, "<%s> is added to <%s> while its schema alternative(s) %s may still be present: the "
                                      "parent then holds two members of one choice (schema-invalid, and readers prefer one of them)" % (
                                          tag, "/".join(M.tags_for_class(o) or tags_of_classes(prog, M, [o]))[:40], sorted(left)),
                                      file=f.file, line=c.lineno)
    ctx.count("exclusive_add_sites", n)
