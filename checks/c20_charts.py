"""C20 R20.5 / C07 R7.8 — PlotTypeInspector.chart_type is the inverse of the chart XML writers.

For each of the chart types ChartXmlWriter can write, the writer's template is specialised to that type (abstract string
evaluation with `self._chart_type` bound) and turned into an XML skeleton.  The inspector's own code is then interpreted
over that skeleton by a small evaluator for the Python subset it is written in (assignments, if/return, nested helper
functions, dict literals indexed by a value, xpath() with child steps and [@attr="v"] predicates, child-element and
attribute access through the element classes' declarations, .get(), bool(), comparisons).  The result must be the chart
type the writer was specialised to.  Conditional template content the inspector looks at, or any construct outside the
subset, makes that chart type "not decided" (analysis error), never a pass.

Premise: the chart data has at least one series (the series template is taken to occur once).
"""

from __future__ import annotations

import ast
import re

from sa.pysrc import ClassInfo, EnumMember, Unknown, dotted


class Undecided(Exception):
    pass


class Raised(Exception):
    def __init__(self, name):
        self.name = name


class Elem:
    def __init__(self, node):
        self.node = node

    def __repr__(self):
        return "<Elem %s>" % self.node.tag


class PlotV:
    def __init__(self, node, clsname):
        self.node = node
        self.clsname = clsname


class Closure:
    def __init__(self, fnode, env, module, selfv):
        self.fnode, self.env, self.module, self.selfv = fnode, env, module, selfv


class BoundMethod:
    def __init__(self, cls, name):
        self.cls, self.name = cls, name


_MARK = re.compile("[\ue000\ue001]")


class Interp:
    def __init__(self, prog, M, S):
        self.prog, self.M, self.S = prog, M, S
        self.depth = 0

    # -- skeleton access ------------------------------------------------------------------------------
    def children(self, node, clark):
        """child elements with tag `clark` (exactly, in order); content under alt/opt that matches is undecidable."""
        out = []

        def walk(n, certain):
            for c in n.children:
                if c.kind == "elem":
                    if c.tag == clark:
                        if not certain:
                            raise Undecided("<%s> is conditional content of the template" % self.S.pfx(clark))
                        out.append(Elem(c))
                elif c.kind == "star":
                    walk(c, certain)
                else:
                    walk(c, False)
        walk(node, True)
        return out

    def attr(self, node, name):
        v = node.attrs.get(name)
        if v is None:
            for k, x in node.attrs.items():
                if k.split("}")[-1] == name:
                    v = x
        if v is None:
            return None
        if _MARK.search(v):
            raise Undecided("attribute @%s of <%s> is not a constant of the template" % (name, self.S.pfx(node.tag)))
        return v

    def xpath(self, elem, expr):
        steps = [s for s in expr.split("/") if s not in ("", ".")]
        if expr.startswith("/") or any(s in ("..", "*") or s.startswith("@") for s in steps):
            raise Undecided("xpath `%s` outside the subset" % expr)
        cur = [elem]
        for s in steps:
            m = re.fullmatch(r"([\w]+:[\w]+)(?:\[@(\w+)=[\"']([^\"']*)[\"']\])?", s)
            if not m:
                raise Undecided("xpath step `%s` outside the subset" % s)
            clark = self.prog.qn(m.group(1))
            nxt = []
            for e in cur:
                for c in self.children(e.node, clark):
                    if m.group(2) is None or self.attr(c.node, m.group(2)) == m.group(3):
                        nxt.append(c)
            cur = nxt
        return cur

    # -- element members ------------------------------------------------------------------------------
    def elem_member(self, e, name):
        tag = self.S.pfx(e.node.tag)
        cls = self.M.class_for_tag(tag)
        if cls is None:
            raise Undecided("no element class registered for <%s>" % tag)
        f = self.prog.lookup(cls, name)
        if f is not None and f.kind in ("property", "lazyproperty"):
            return self.call(f.node, f.module, [e], selfv=e)
        if f is not None:
            return Closure(f.node, {}, f.module, e)
        for d in self.M.child_decls(cls):
            if d.prop == name or (name.endswith("_lst") and d.prop == name[:-4]):
                kids = []
                for t in d.tags:
                    kids += self.children(e.node, self.prog.qn(t))
                if name.endswith("_lst") and d.prop != name:
                    return kids
                if d.kind in ("ZeroOrMore", "OneOrMore"):
                    raise Undecided("repeating child %s accessed as a single element" % name)
                return kids[0] if kids else None
        for d in self.M.attr_decls(cls):
            if d.prop == name:
                raw = self.attr(e.node, d.attr.split(":")[-1])
                if raw is None:
                    dv = getattr(d, "default", None)
                    if isinstance(dv, ast.AST):
                        dv = self.prog.const(dv, cls.module)
                    return None if isinstance(dv, Unknown) else dv
                return self.convert(d, raw)
        if name in ("tag", "text", "tail", "attrib", "nsmap", "prefix", "getparent", "getnext", "getprevious", "iter", "find", "findall",
                    "iterchildren", "itertext", "index", "items", "keys", "values", "xml", "first_child_found_in"):
            raise Undecided("lxml member %s of <%s> not modelled" % (name, tag))
        raise Raised("AttributeError")  # neither declared on the element class nor part of the lxml API

    def convert(self, d, raw):
        st = getattr(d, "st", None)
        stc = getattr(st, "cls", None)
        names = {k.name for k in self.prog.mro(stc)} if stc is not None else set()
        if "XsdBoolean" in names or (stc is not None and stc.name == "XsdBoolean"):
            if raw in ("1", "true"):
                return True
            if raw in ("0", "false"):
                return False
            raise Undecided("boolean lexical %r" % raw)
        if names & {"BaseIntType", "XsdInt", "XsdUnsignedInt", "XsdLong"}:
            try:
                return int(raw)
            except ValueError:
                raise Undecided("integer lexical %r" % raw)
        if stc is not None and self.prog.is_xml_enum(stc) if hasattr(self.prog, "is_xml_enum") else False:
            for m in self.prog.enum_members(stc):
                if getattr(m, "xml", None) == raw:
                    return m
            raise Undecided("token %r not in %s" % (raw, stc.name))
        return raw  # string-like simple types (enumerations of plain strings)

    # -- evaluator ---------------------------------------------------------------------------------------
    def call(self, fnode, module, args, selfv=None, closure_env=None):
        self.depth += 1
        if self.depth > 12:
            raise Undecided("call depth")
        try:
            env = dict(closure_env or {})
            params = [a.arg for a in fnode.args.args]
            for p, a in zip(params, args):
                env[p] = a
            try:
                r = self.block(fnode.body, env, module)
            except _Return as ret:
                return ret.value
            return None
        finally:
            self.depth -= 1

    def block(self, stmts, env, module):
        for st in stmts:
            if isinstance(st, ast.Expr) and isinstance(st.value, ast.Constant):
                continue
            if isinstance(st, ast.Assign) and len(st.targets) == 1 and isinstance(st.targets[0], ast.Name):
                env[st.targets[0].id] = self.ev(st.value, env, module)
            elif isinstance(st, ast.FunctionDef):
                env[st.name] = Closure(st, env, module, None)
            elif isinstance(st, ast.Return):
                raise _Return(self.ev(st.value, env, module) if st.value is not None else None)
            elif isinstance(st, ast.If):
                self.block(st.body if self.truth(self.ev(st.test, env, module)) else st.orelse, env, module)
            elif isinstance(st, ast.Raise):
                exc = st.exc.func if isinstance(st.exc, ast.Call) else st.exc
                raise Raised(dotted(exc) or "Exception")
            elif isinstance(st, ast.Try):
                try:
                    self.block(st.body, env, module)
                except Raised as r:
                    for h in st.handlers:
                        if h.type is None or dotted(h.type) == r.name or dotted(h.type) == "Exception":
                            self.block(h.body, env, module)
                            break
                    else:
                        raise
            elif isinstance(st, ast.Expr):
                self.ev(st.value, env, module)
            elif isinstance(st, ast.Pass):
                continue
            elif isinstance(st, ast.AnnAssign) and isinstance(st.target, ast.Name) and st.value is not None:
                env[st.target.id] = self.ev(st.value, env, module)
            elif isinstance(st, ast.Match):
                subj = self.ev(st.subject, env, module)
                for case in st.cases:
                    pat = case.pattern
                    hit = None
                    if isinstance(pat, ast.MatchValue):
                        hit = self.ev(pat.value, env, module) == subj
                    elif isinstance(pat, ast.MatchSingleton):
                        hit = subj is pat.value
                    elif isinstance(pat, ast.MatchAs) and pat.pattern is None:
                        hit = True
                        if pat.name:
                            env[pat.name] = subj
                    elif isinstance(pat, ast.MatchOr) and all(isinstance(p_, ast.MatchValue) for p_ in pat.patterns):
                        hit = any(self.ev(p_.value, env, module) == subj for p_ in pat.patterns)
                    if hit is None:
                        raise Undecided("match pattern `%s`" % ast.unparse(pat))
                    if hit and (case.guard is None or self.truth(self.ev(case.guard, env, module))):
                        self.block(case.body, env, module)
                        break
            else:
                raise Undecided("statement `%s`" % ast.unparse(st)[:50])

    def truth(self, v):
        if isinstance(v, (bool, int, str, list, tuple, dict)) or v is None:
            return bool(v)
        if isinstance(v, (Elem, EnumMember, PlotV, Closure)):
            if isinstance(v, Elem):
                raise Undecided("truthiness of an element")
            return True
        raise Undecided("truthiness of %r" % (v,))

    def ev(self, e, env, module):
        if isinstance(e, ast.Constant):
            return e.value
        if isinstance(e, ast.Name):
            if e.id in env:
                return env[e.id]
            c = self.prog.const(e, module)
            if not isinstance(c, Unknown):
                return c
            r = self.prog.resolve(module, e.id)
            if r is not None:
                return r
            if e.id in ("bool", "len", "int", "str", "next", "iter", "list", "tuple"):
                return ("builtin", e.id)
            raise Undecided("name %s" % e.id)
        if isinstance(e, ast.Attribute):
            # constants such as ST_Grouping.STANDARD / XL.AREA
            c = self.prog.const(e, module, env={k: v for k, v in env.items() if isinstance(v, (ClassInfo,))} if False else None)
            if not isinstance(c, Unknown):
                return c
            base = self.ev(e.value, env, module)
            return self.member(base, e.attr, module)
        if isinstance(e, ast.Call):
            return self.ev_call(e, env, module)
        if isinstance(e, ast.Subscript):
            base = self.ev(e.value, env, module)
            if isinstance(e.slice, ast.Slice):
                raise Undecided("slice")
            k = self.ev(e.slice, env, module)
            if isinstance(base, dict):
                for kk, vv in base.items():
                    if kk == k:
                        return vv
                raise Raised("KeyError")
            if isinstance(base, (list, tuple)):
                if not isinstance(k, int):
                    raise Undecided("index %r" % (k,))
                if -len(base) <= k < len(base):
                    return base[k]
                raise Raised("IndexError")
            raise Undecided("subscript of %r" % (base,))
        if isinstance(e, ast.Dict):
            out = {}
            for k, v in zip(e.keys, e.values):
                kk = self.ev(k, env, module)
                try:
                    hash(kk)
                except TypeError:
                    raise Undecided("unhashable key")
                out[kk] = self.ev(v, env, module)
            return out
        if isinstance(e, (ast.Tuple, ast.List)):
            return [self.ev(x, env, module) for x in e.elts]
        if isinstance(e, ast.IfExp):
            return self.ev(e.body if self.truth(self.ev(e.test, env, module)) else e.orelse, env, module)
        if isinstance(e, ast.BoolOp):
            v = None
            for x in e.values:
                v = self.ev(x, env, module)
                t = self.truth(v)
                if isinstance(e.op, ast.And) and not t:
                    return v
                if isinstance(e.op, ast.Or) and t:
                    return v
            return v
        if isinstance(e, ast.UnaryOp) and isinstance(e.op, ast.Not):
            return not self.truth(self.ev(e.operand, env, module))
        if isinstance(e, ast.Compare) and len(e.ops) == 1:
            a, b = self.ev(e.left, env, module), self.ev(e.comparators[0], env, module)
            op = e.ops[0]
            if isinstance(op, (ast.Is, ast.IsNot)):
                r = (a is b) or (a is None and b is None) or (isinstance(a, (bool, EnumMember)) and a == b and type(a) is type(b))
                return r if isinstance(op, ast.Is) else not r
            if isinstance(a, Elem) or isinstance(b, Elem):
                raise Undecided("comparison of elements")
            if isinstance(op, ast.Eq):
                return a == b
            if isinstance(op, ast.NotEq):
                return a != b
            if isinstance(op, ast.In):
                return a in b
            if isinstance(op, ast.NotIn):
                return a not in b
            raise Undecided("comparison %s" % type(op).__name__)
        if isinstance(e, ast.BinOp) and isinstance(e.op, ast.Mod):
            return "<formatted>"
        raise Undecided("expression `%s`" % ast.unparse(e)[:50])

    def member(self, base, name, module):
        if isinstance(base, PlotV):
            if name == "_element":
                return Elem(base.node)
            if name == "__class__":
                return ("class-of-plot", base.clsname)
            raise Undecided("plot.%s" % name)
        if isinstance(base, tuple) and base and base[0] == "class-of-plot" and name == "__name__":
            return base[1]
        if isinstance(base, Elem):
            return self.elem_member(base, name)
        if isinstance(base, ClassInfo):
            f = self.prog.lookup(base, name)
            if f is not None:
                return BoundMethod(base, name)
            c = self.prog.const(ast.parse("%s.%s" % (base.name, name), mode="eval").body, base.module)
            if not isinstance(c, Unknown):
                return c
            raise Undecided("%s.%s" % (base.name, name))
        if isinstance(base, tuple) and base and base[0] == "cls":
            if self.prog.lookup(base[1], name) is None:
                # a class-level constant (a lookup table hoisted out of the method)
                a = self.prog.lookup_attr(base[1], name)
                if a is not None:
                    c = self.prog.const(a[1], a[0].module, None, a[0])
                    if not isinstance(c, Unknown):
                        return c
                raise Undecided("%s.%s" % (base[1].name, name))
            return BoundMethod(base[1], name)
        if base is None:
            raise Raised("AttributeError")
        raise Undecided("attribute %s of %r" % (name, base))

    def ev_call(self, e, env, module):
        f = e.func
        if isinstance(f, ast.Attribute):
            base = self.ev(f.value, env, module)
            if type(base).__name__ == "ClassRef" and hasattr(base, "cls"):
                base = base.cls      # the class named in the source (`PlotTypeInspector._helper(...)`)
            args = [self.ev(a, env, module) for a in e.args]
            if isinstance(base, Elem):
                if f.attr == "xpath":
                    if not (args and isinstance(args[0], str)):
                        raise Undecided("xpath argument")
                    return self.xpath(base, args[0])
                if f.attr == "get":
                    return self.attr(base.node, args[0].split("}")[-1].split(":")[-1])
                m = self.elem_member(base, f.attr)
                if isinstance(m, Closure):
                    return self.call(m.fnode, m.module, [m.selfv] + args)
                raise Undecided("call of element member %s" % f.attr)
            if isinstance(base, ClassInfo) or (isinstance(base, tuple) and base and base[0] == "cls"):
                c = base if isinstance(base, ClassInfo) else base[1]
                g = self.prog.lookup(c, f.attr)
                if g is None:
                    raise Undecided("%s.%s" % (c.name, f.attr))
                return self.call(g.node, g.module, ([("cls", c)] if g.kind in ("classmethod", "method") else []) + args)
            if isinstance(base, dict) and f.attr == "get":
                for kk, vv in base.items():
                    if kk == args[0]:
                        return vv
                return args[1] if len(args) > 1 else None
            if base is None:
                raise Raised("AttributeError")
            raise Undecided("method %s of %r" % (f.attr, base))
        if isinstance(f, ast.Name) and f.id == "getattr" and len(e.args) == 2 and not e.keywords and f.id not in env:
            # getattr(X, <name>): the member the (evaluated) name denotes
            base = self.ev(e.args[0], env, module)
            nm = self.ev(e.args[1], env, module)
            if not isinstance(nm, str):
                raise Undecided("getattr with a name that is not a string")
            if isinstance(base, ClassInfo) or (isinstance(base, tuple) and base and base[0] == "cls"):
                c = base if isinstance(base, ClassInfo) else base[1]
                if self.prog.lookup(c, nm) is not None:
                    return BoundMethod(c, nm)
            return self.member(base, nm, module)
        fn = self.ev(f, env, module)
        args = [self.ev(a, env, module) for a in e.args]
        if isinstance(fn, Closure):
            return self.call(fn.fnode, fn.module, args, closure_env=fn.env)
        if isinstance(fn, BoundMethod):
            g = self.prog.lookup(fn.cls, fn.name)
            if g.kind == "staticmethod":
                return self.call(g.node, g.module, args)     # no implicit first argument
            return self.call(g.node, g.module, [("cls", fn.cls)] + args)
        if isinstance(fn, tuple) and fn and fn[0] == "builtin":
            if fn[1] == "bool":
                return self.truth(args[0])
            if fn[1] == "len":
                return len(args[0])
            if fn[1] == "int":
                return int(args[0])
            if fn[1] == "str":
                return str(args[0])
            if fn[1] in ("iter", "list", "tuple") and len(args) == 1 and isinstance(args[0], (list, tuple)):
                return list(args[0])   # (an iterator over a list read as the list: only its first element is ever asked for)
            if fn[1] == "next" and args and isinstance(args[0], (list, tuple)):
                if args[0]:
                    return args[0][0]
                if len(args) > 1:
                    return args[1]
                raise Raised("StopIteration")
        raise Undecided("call `%s`" % ast.unparse(e)[:50])


class _Return(Exception):
    def __init__(self, value):
        self.value = value


def plot_class_table(prog):
    pm = prog.modules.get("pptx.chart.plot")
    f = pm.functions.get("PlotFactory") if pm else None
    if f is None:
        return None
    for n in ast.walk(f.node):
        if isinstance(n, ast.Dict) and len(n.keys) >= 3:
            t = {}
            for k, v in zip(n.keys, n.values):
                if isinstance(k, ast.Call) and dotted(k.func) == "qn" and k.args:
                    tag = prog.const(k.args[0], pm)
                    if isinstance(tag, str) and dotted(v):
                        t[prog.qn(tag)] = dotted(v)
            return t
    return None


def per_type_skeletons(ctx, prog, M, T=None):
    """[(writer class, chart type, skeleton)] for every chart type of the ChartXmlWriter table."""
    from sa.report import AnalysisError
    from sa.strabs import S as AS
    from sa.strabs import StrEval
    from sa.templates import chart_writers
    from sa.types import Types
    from sa.xmlskel import skeleton

    T = T or Types(prog, M)
    out = []
    for cls, types in chart_writers(prog):
        xml = prog.lookup(cls, "xml")
        for member in types:
            ev = StrEval(prog, T, bindings={"self._chart_type": member})
            v = ev.function_value(xml, cls)
            if not isinstance(v, AS):
                ctx.error("%s[%s]" % (cls.name, member.name), "xml does not evaluate to a string")
                continue
            try:
                out.append((cls, member, skeleton(v, prog.nsmap)))
            except AnalysisError as e:
                ctx.error("%s[%s]" % (cls.name, member.name), str(e))
    return out


def run(ctx, prog, S, M, per_type, rid):
    """per_type: [(writer ClassInfo, chart-type EnumMember, Skeleton)]"""
    pm = prog.modules.get("pptx.chart.plot")
    insp = pm.classes.get("PlotTypeInspector") if pm else None
    ct = insp.methods.get("chart_type") if insp else None
    table = plot_class_table(prog)
    if ct is None or not table:
        ctx.error("pptx.chart.plot", "PlotTypeInspector.chart_type / PlotFactory table not recognised")
        return
    n = 0
    for cls, member, sk in per_type:
        key = "chart-type %s" % member.name
        root = sk.roots[0]
        pa = [x for x in root.elems() if x.tag == prog.qn("c:plotArea")]
        plots = [c for c in (pa[0].children if pa else []) if c.kind == "elem" and c.tag in table]
        if len(plots) != 1:
            ctx.error(key, "writer output has %d plot elements known to PlotFactory" % len(plots))
            continue
        node = plots[0]
        it = Interp(prog, M, S)
        n += 1
        try:
            got = it.call(ct.node, ct.module, [("cls", insp), PlotV(node, table[node.tag])])
        except Undecided as e:
            ctx.error(key, "inspector not decided on the %s template: %s" % (cls.name, e))
            continue
        except Raised as r:
            ctx.violation(rid, key, "a chart written as %s makes PlotTypeInspector raise %s" % (member.name, r.name), file=ct.file, line=ct.line)
            continue
        if isinstance(got, EnumMember) and got.name == member.name and got.enum == member.enum:
            ctx.ok(rid, key, sample={"written_as": member.name, "plot": S.pfx(node.tag), "inspector_returns": got.name})
        else:
            ctx.violation(rid, key, "a chart written as %s (%s, <%s>) is reported by chart.chart_type as %s" % (
                member.name, cls.name, S.pfx(node.tag), getattr(got, "name", got)), file=ct.file, line=ct.line)
    ctx.count("inspected_chart_types", n)
