"""C11 — accepted attribute values are exactly those the schema can represent.

Rules
  R11.1  every attribute declaration names an attribute of a schema type of its element; requiredness agrees
  R11.2  accepted value set -> written lexical set is inside the schema simple type's value space
  R11.3  validate precedes convert_to_xml; rejections are TypeError/ValueError; setters convert before writing
  R11.4  every lexical alternative of the paired schema type can be read (representative lexeme per alternative;
         every enumeration token for enum-typed attributes)
"""

from __future__ import annotations

import ast
import re
from fractions import Fraction

from sa.attrpair import pairings, schema_types_for_pyclass
from sa.intervals import Image, Lexeme, SimpleTypes
from sa.pysrc import ClassRef, dotted
from sa.report import AnalysisError
from sa.xsd import INTEGER_PRIMS, XS

try:
    import re._parser as sre_parse  # py3.11+
except ImportError:  # pragma: no cover
    import sre_parse


def regex_samples(pattern):
    """Representative strings of an XSD pattern with each-choice coverage of optionals/alternatives."""
    tree = sre_parse.parse(pattern)

    def seq(items):
        bases = []
        variants = []
        for it in items:
            vs = one(it)
            bases.append(vs[0])
            variants.append(vs)
        out = ["".join(bases)]
        for i, vs in enumerate(variants):
            for v in vs[1:]:
                out.append("".join(bases[:i] + [v] + bases[i + 1:]))
        return out

    def one(it):
        op, av = it
        name = str(op)
        if name == "LITERAL":
            return [chr(av)]
        if name == "IN":
            for o, a in av:
                if str(o) == "RANGE":
                    lo, hi = a
                    return [chr(min(hi, lo + 7)) if chr(lo).isdigit() else chr(lo)]
                if str(o) == "LITERAL":
                    return [chr(a)]
                if str(o) == "CATEGORY":
                    return ["7"]
            return ["x"]
        if name in ("MAX_REPEAT", "MIN_REPEAT"):
            lo, hi, sub = av
            subs = seq(list(sub))
            out = []
            if lo == 0:
                out.append("")
                out.extend(subs)
                # present first so that the base sample exercises the simplest form: keep "" first
                return out
            return [s * lo for s in subs]
        if name == "SUBPATTERN":
            return seq(list(av[3]))
        if name == "BRANCH":
            out = []
            for alt in av[1]:
                out.extend(seq(list(alt)))
            return out
        if name == "ANY":
            return ["x"]
        if name == "CATEGORY":
            return ["7"]
        raise AnalysisError("regex construct %s not handled in %r" % (name, pattern))

    res = []
    for s in seq(list(tree)):
        if s not in res:
            res.append(s)
    return res


def schema_lexemes(S, sq, depth=0):
    """Representative lexemes for every lexical alternative of schema simple type sq:
    list of (lexeme text, description).  Enumerations are handled separately."""
    if depth > 6:
        return []
    if sq[0] == XS:
        p = sq[1]
        if p in INTEGER_PRIMS:
            return [("12", "xsd:%s" % p)]
        if p == "boolean":
            return [("true", "xsd:boolean"), ("false", "xsd:boolean"), ("1", "xsd:boolean"), ("0", "xsd:boolean")]
        if p in ("double", "float", "decimal"):
            out = [("1.5", "xsd:%s" % p), ("12", "xsd:%s" % p)]
            if p != "decimal":
                out += [("1E3", "xsd:%s exponent" % p), ("INF", "xsd:%s INF" % p), ("NaN", "xsd:%s NaN" % p)]
            return out
        if p == "hexBinary":
            return [("FF00AA", "xsd:hexBinary")]
        return [("abc", "xsd:%s" % p)]
    st = S.stypes.get(sq)
    if st is None:
        return []
    if st.union is not None:
        out = []
        for m in st.union:
            out.extend(schema_lexemes(S, m, depth + 1))
        return out
    if st.enums is not None:
        return []
    pats = st.facets.get("pattern")
    if pats:
        out = []
        for p in pats:
            try:
                smp = regex_samples(p)
            except (re.error, AnalysisError):
                smp = []  # XSD-only regex syntax (\\p{..}); such types are read as plain strings
            for s in smp:
                out.append((s, "%s pattern %s" % (S.tname(sq), p)))
        return out
    return schema_lexemes(S, st.base, depth + 1) if st.base else []


def int_space(S, sq, depth=0):
    """List of integer intervals (lo, hi) (None = unbounded) that schema type sq admits as integer
    lexemes, or None if sq admits any string."""
    if depth > 6:
        return []
    if sq[0] == XS:
        p = sq[1]
        if p in INTEGER_PRIMS:
            lo, lo_open, hi, hi_open = S.st_bounds(sq)
            return [(lo, hi)]
        if p in ("string", "token", "normalizedString", "anyURI"):
            return None
        if p in ("double", "float", "decimal"):
            return [(None, None)]
        return []
    st = S.stypes.get(sq)
    if st is None:
        return []
    if st.union is not None:
        out = []
        for m in st.union:
            r = int_space(S, m, depth + 1)
            if r is None:
                return None
            out.extend(r)
        return out
    prim = S.st_primitive(sq)
    if prim in INTEGER_PRIMS or prim in ("double", "float", "decimal"):
        lo, lo_open, hi, hi_open = S.st_bounds(sq)
        if lo is not None and lo_open:
            lo = lo + 1
        if hi is not None and hi_open:
            hi = hi - 1
        if st.enums is not None:
            return []
        return [(lo, hi)]
    if prim in ("string", "token") and not S.st_patterns(sq) and S.st_enums(sq) is None:
        return None
    return []


def run(ctx):
    from checks.c10 import load

    prog, S, M = load(ctx.repo)

    from sa.xmlchemy_model import ALL_PARTS, mechanism_gate  # noqa: F401


    mechanism_gate(ctx, M, ("attr",))
    ctx.level = "other"
    ctx.trusted = ["CPython ast", "XSD simple types / attribute tables under /repo/spec as oracle",
                   "recognised idioms of simpletypes.py (anything else is exit 2)"]
    ctx.explanation = (
        "Each xmlchemy attribute declaration is paired with the schema attribute of the same name on every schema type of "
        "its element (by use). The accepted set of each simple-type class is computed by abstract interpretation of "
        "validate() (kinds, closed/open intervals with exact rationals), pushed through convert_to_xml (scale, rounding "
        "mode, modulus and their order) and compared with the schema type's value space; convert_from_xml is evaluated on "
        "one representative lexeme per lexical alternative of the schema type (branch conditions form a finite case split).")
    ctx.not_decided = ["exact float rounding at individual values beyond the interval/scale argument",
                       "pattern facets of string-typed attributes (the library does not validate them: informational)"]
    st_mod = prog.modules["pptx.oxml.simpletypes"]
    ctx.note_file(st_mod.path)
    ST = SimpleTypes(prog)
    pairs = pairings(prog, S, M)
    bycls = schema_types_for_pyclass(pairs)

    # -- R11.1 -----------------------------------------------------------------------------------
    ctx.rule("R11.1", "attribute declaration names a schema attribute of its element's type(s); Python requiredness does "
                      "not exceed the schema's")
    decls = {}
    for p in pairs:
        decls.setdefault((p.cls, p.decl.prop), []).append(p)
    ctx.count("attribute_declarations", len(decls))
    for (cls, prop), ps in sorted(decls.items(), key=lambda kv: (kv[0][0].name, kv[0][1])):
        d = ps[0].decl
        key = "%s.%s" % (cls.name, prop)
        found = [p for p in ps if p.attr is not None]
        if not found:
            ctx.violation("R11.1", key, "attribute %r is not declared on any schema type of %s" % (
                d.attr, sorted({p.tag for p in ps})), file=cls.file, line=d.line)
            continue
        bad = [p for p in found if d.kind == "RequiredAttribute" and p.attr.use != "required"]
        if bad:
            p = bad[0]
            ctx.violation("R11.1", key + ":required",
                          "RequiredAttribute but %s/@%s is optional in %s%s: a schema-valid element without it cannot be read "
                          "(InvalidXmlError)" % (p.tag, d.attr, S.tname(p.tq),
                                                 (" (default %r)" % p.attr.default) if p.attr.default is not None else ""),
                          file=cls.file, line=d.line)
        else:
            ctx.ok("R11.1", key, sample={"class": cls.name, "attr": d.attr, "kind": d.kind,
                                         "schema": [(p.tag, S.tname(p.tq), p.attr.use) for p in found][:3]})
        opt_req = [p for p in found if d.kind == "OptionalAttribute" and p.attr.use == "required"]
        for p in opt_req[:1]:
            ctx.violation("R11.1", key + ":optional",
                          "OptionalAttribute on %s/@%s, which is required in %s: assigning None%s removes the attribute and leaves "
                          "an element the schema rejects (and that reads back through the default instead of the stored value)" % (
                              p.tag, d.attr, S.tname(p.tq), (" or the default %r" % (d.default,)) if d.has_default and d.default is not None else ""),
                          file=cls.file, line=d.line)

    # -- R11.3 (mechanism) -----------------------------------------------------------------------
    ctx.rule("R11.3", "to_xml validates before converting; every rejection on a validate path is TypeError or ValueError; "
                      "xmlchemy setters convert before writing")
    base = st_mod.classes.get("BaseSimpleType")
    if base is None or "to_xml" not in base.methods:
        raise AnalysisError("anchor vanished: BaseSimpleType.to_xml")
    order = []
    for n in ast.walk(base.methods["to_xml"].node):
        if isinstance(n, ast.Call) and isinstance(n.func, ast.Attribute) and n.func.attr in ("validate", "convert_to_xml"):
            order.append((n.lineno, n.col_offset, n.func.attr))
    order.sort()
    if [o[2] for o in order] == ["validate", "convert_to_xml"]:
        ctx.ok("R11.3", "BaseSimpleType.to_xml", sample={"order": "validate -> convert_to_xml"})
    else:
        ctx.violation("R11.3", "BaseSimpleType.to_xml", "to_xml does not validate before converting (%s)" % [o[2] for o in order],
                      file=base.file, line=base.methods["to_xml"].line)
    for c in ST.classes():
        if "to_xml" in c.methods and c is not base:
            ctx.violation("R11.3", "%s.to_xml" % c.name, "to_xml overridden: validation order not established",
                          file=c.file, line=c.methods["to_xml"].line)
    for sev, where, what in M.mechanism_problems:
        if "setter" in what:
            f, _, l = where.partition(":")
            ctx.violation("R11.3", "xmlchemy.setter", what, file=f, line=l)

    # -- per simple-type class ---------------------------------------------------------------------
    ctx.rule("R11.2", "image of the accepted set under convert_to_xml is inside the schema simple type's value space")
    ctx.rule("R11.4", "each lexical alternative of the paired schema type is readable by convert_from_xml / from_xml")
    ctx.rule("R11.5", "the written image covers the integer value space of the schema type (no schema-valid value is refused)")
    nclasses = 0
    for cls in sorted(bycls, key=lambda c: c.name):
        stypes = sorted(bycls[cls])
        if prog.is_enum(cls):
            _enum_reader(ctx, prog, S, cls, stypes, bycls[cls])
            continue
        if not any(k.name == "BaseSimpleType" for k in prog.mro(cls)):
            ctx.error(cls.fq, "attribute type is neither a simple-type class nor an enumeration")
            continue
        nclasses += 1
        acc = ST.accepted(cls)
        for exc, file, line in acc.raises:
            key = "%s.validate:%s" % (cls.name, exc)
            if exc in ("TypeError", "ValueError"):
                ctx.ok("R11.3", key, nontrivial=False)
            else:
                ctx.violation("R11.3", key, "validate path raises %s (must be TypeError or ValueError)" % exc, file=file, line=line)
        img = ST.image(cls)
        for sq in stypes:
            key = "%s~%s" % (cls.name, S.tname(sq))
            probs = _image_in_space(S, cls, acc, img, sq)
            for cat, prob in probs:
                ctx.violation("R11.2", key + ":" + cat, prob, file=cls.file, line=cls.line,
                              sample={"class": cls.name, "accepted": acc.describe(), "written": img.describe(),
                                      "schema": S.tname(sq)})
            if not probs:
                ctx.ok("R11.2", key, sample={"class": cls.name, "accepted": acc.describe(), "written": img.describe(),
                                             "schema": S.tname(sq), "used_by": len(bycls[cls][sq])})
            # accepted set covers the schema value space (title: *exactly* those the schema can represent)
            cov = _coverage_gap(S, acc, img, sq)
            if cov:
                ctx.violation("R11.5", key + ":narrower", cov, file=cls.file, line=cls.line)
            elif img.kind == "int" and acc.kind in ("int", "num"):
                ctx.ok("R11.5", key, nontrivial=True)
            # readable alternatives
            lex = schema_lexemes(S, sq)
            enums = S.st_enums(sq)
            if enums is not None:
                lex = [(t, "enumeration token") for t in enums]
            bad = []
            factors = {}   # "percent" / "int": linear factor between the number in the lexeme and the value read
            for text, desc in lex:
                r = ST.reads(cls, Lexeme(text))
                if r is None:
                    raise AnalysisError("%s.convert_from_xml: no result for %r" % (cls.name, text))
                if r[0] == "raises":
                    bad.append((text, desc, r[1]))
                elif isinstance(r[1], tuple) and r[1][0] == "num" and len(r[1]) > 2:
                    if text.endswith("%"):
                        factors.setdefault("percent", set()).add(r[1][2])
                    elif text.lstrip("+-").isdigit():
                        factors.setdefault("int", set()).add(r[1][2])
            # the two spellings of one quantity: "P%" and the integer form in 1000ths of a percent (ST_Percentage and the types
            # derived from it, ECMA-376 Part 1 20.1.10.40/.75) must read as the same value: factor("P%") = 1000 x factor(int)
            if len(factors.get("percent", ())) == 1 and len(factors.get("int", ())) == 1:
                kp, ki = next(iter(factors["percent"])), next(iter(factors["int"]))
                # DrawingML percentages: the integer form counts 1000ths of a percent; chart percentages (c:ST_Overlap, c:ST_GapAmount,
                # c:ST_BubbleScale ...: unsignedShort / byte ranges in whole percents) use the same unit in both spellings
                unit = 1 if S.tname(sq).startswith("c:") else 1000
                if kp == unit * ki:
                    ctx.ok("R11.4", key + ":percent-scale", sample={"percent_literal_factor": str(kp), "integer_form_factor": str(ki)})
                else:
                    ctx.violation("R11.4", key + ":percent-scale", "the percent-literal form reads as %s x P but the integer form (%s) as %s x N: "
                                  "\"50%%\" and \"%d\" denote the same quantity and read as different values (%s vs %s)"
                                  % (kp, "1000ths of a percent" if unit == 1000 else "whole percents", ki, 50 * unit, 50 * kp, 50 * unit * ki),
                                  file=cls.file, line=cls.line)
            if bad:
                ctx.violation("R11.4", key + ":unreadable{%s}" % ",".join(b[0] for b in bad),
                              "schema-valid lexical form(s) cannot be read: %s" % "; ".join(
                                  "%r (%s) raises %s" % b for b in bad[:4]), file=cls.file, line=cls.line)
            elif lex:
                ctx.ok("R11.4", key, sample={"class": cls.name, "schema": S.tname(sq), "lexemes": [l[0] for l in lex][:10]})
            else:
                ctx.ok("R11.4", key, nontrivial=False)
    ctx.count("simple_type_classes", nclasses)
    ctx.count("pairings", sum(len(v) for v in bycls.values()))


def _enum_reader(ctx, prog, S, cls, stypes, uses):
    members = prog.enum_members(cls)
    # members sharing an integer value are aliases of the first: only the first one's token is ever matched
    first = {}
    for m in members:
        first.setdefault(m.value, m)
    toks = {m.xml for m in first.values() if m.xml}
    for sq in stypes:
        enums = S.st_enums(sq)
        key = "%s~%s" % (cls.name, S.tname(sq))
        if enums is None:
            ctx.ok("R11.4", key, nontrivial=False)
            continue
        missing = [t for t in enums if t not in toks]
        if missing:
            ctx.violation("R11.4", key + ":unreadable{%s}" % ",".join(missing),
                          "schema tokens without a member: reading %s raises ValueError" % ", ".join(repr(t) for t in missing[:8]),
                          file=cls.file, line=cls.line,
                          sample={"enum": cls.name, "schema": S.tname(sq), "missing": missing})
        else:
            ctx.ok("R11.4", key, sample={"enum": cls.name, "schema": S.tname(sq), "tokens": len(enums)})


def _image_in_space(S, cls, acc, img, sq):
    """List of (category, description) of escaping values; empty if the image is inside the space."""
    prim = S.st_primitive(sq)
    enums = S.st_enums(sq)
    out = []
    if img.kind == "int":
        space = int_space(S, sq)
        if space is None:
            return out
        iv = img.ival
        if getattr(img, "bool_tokens", None):
            out = [("bool", "%s passes validation (bool is an Integral) and is written as %s, which is not a lexeme of %s; the file "
                            "no longer re-opens (int('True'))" % (" / ".join(img.bool_tokens), " / ".join(repr(t) for t in img.bool_tokens), S.tname(sq)))]
        for lo, hi in space:
            if (lo is None or (iv.lo is not None and iv.lo >= lo)) and (hi is None or (iv.hi is not None and iv.hi <= hi)):
                return out
        return [("range", "written integers %r are not contained in %s (admits %s)" % (
            iv, S.tname(sq), ", ".join("[%s, %s]" % (l, h) for l, h in space) or "no integer lexemes"))]
    if img.kind == "tokens":
        if enums is not None:
            bad = sorted(t for t in img.tokens if t not in enums)
            return [("tokens{%s}" % ",".join(bad), "tokens %s not in enumeration %s" % (bad, S.tname(sq)))] if bad else out
        if prim == "boolean":
            bad = sorted(t for t in img.tokens if t not in ("0", "1", "true", "false"))
            return [("tokens", "tokens %s are not xsd:boolean lexemes" % bad)] if bad else out
        if prim in ("string", "token", None):
            return out
        return [("tokens", "tokens %s written into %s" % (sorted(img.tokens), S.tname(sq)))]
    if img.kind == "float-repr":
        if prim not in ("double", "float", "decimal"):
            return [("kind", "a float repr is written into %s (%s)" % (S.tname(sq), prim))]
        lo, lo_open, hi, hi_open = S.st_bounds(sq)
        iv = img.ival
        if lo is not None and iv is not None and iv.lo is not None and (
                iv.lo < lo or (iv.lo == lo and lo_open and not iv.lo_open)):
            out.append(("lower-bound", "accepted lower bound %s escapes %s (min%s %s)" % (
                iv.lo, S.tname(sq), "Exclusive" if lo_open else "Inclusive", lo)))
        if lo is not None and iv is not None and iv.lo is None:
            out.append(("lower-bound", "no lower bound is enforced but %s has min %s" % (S.tname(sq), lo)))
        if hi is not None and iv is not None and iv.hi is not None and (
                iv.hi > hi or (iv.hi == hi and hi_open and not iv.hi_open)):
            out.append(("upper-bound", "accepted upper bound %s escapes %s (max%s %s)" % (
                iv.hi, S.tname(sq), "Exclusive" if hi_open else "Inclusive", hi)))
        nonfinite = []
        if acc.hi is None:
            nonfinite.append("inf -> 'inf'")
        if acc.lo is None:
            nonfinite.append("-inf -> '-inf'")
        if acc.lo is None and acc.hi is None:
            nonfinite.append("nan -> 'nan'")
        if nonfinite:
            out.append(("nonfinite", "non-finite floats are accepted and written as Python reprs, not xsd:%s lexemes (%s)" % (
                prim, ", ".join(nonfinite))))
        return out
    if img.kind in ("str-identity", "str-upper"):
        if enums is not None and acc.kind != "enum":
            return [("enum", "any string is accepted but %s is an enumeration" % S.tname(sq))]
        if prim == "hexBinary":
            if {"hex", "len6"} <= acc.extra:
                return out
            return [("hex", "hexBinary(3) needs a 6-digit hex check")]
        return out
    return [("kind", "image kind %s not comparable" % img.kind)]


def _coverage_gap(S, acc, img, sq):
    """Description of schema-valid integers the setter refuses, for integer images with a single bounded
    schema interval; None when covered or not applicable."""
    if img.kind != "int" or img.ival is None or acc.kind != "int":
        return None  # only identity-written integers: a scaled / normalised image refuses nothing by being narrower
    space = int_space(S, sq)
    if not space or len([x for x in space if x != (None, None)]) != 1:
        return None
    lo, hi = [x for x in space if x != (None, None)][0]
    iv = img.ival
    gaps = []
    if lo is not None and iv.lo is not None and iv.lo > lo:
        gaps.append("[%s, %s) " % (lo, iv.lo))
    if hi is not None and iv.hi is not None and iv.hi < hi:
        gaps.append("(%s, %s]" % (iv.hi, hi))
    if gaps:
        return "schema-valid values %s of %s are refused (written range %r)" % (" and ".join(gaps), S.tname(sq), iv)
    return None
