"""C13 — a new slide mirrors its layout's placeholders (decidable clauses).

Rules
  R13.1  the latent placeholder set is exactly {DATE, FOOTER, SLIDE_NUMBER} and the notes cloneable set is exactly
         {SLIDE_IMAGE, BODY, SLIDE_NUMBER} (the sets the statement names), used with `not in` resp. `in`
  R13.2  pass-through: the four values read from the source placeholder (type, orient, sz, idx) reach the same-named
         attribute stores on the new p:ph, through add_placeholder -> new_placeholder_sp, in matching positions
  R13.3  Slides.add_slide: part creation, then clone_layout_placeholders on the new slide, then add_sldId with the new
         relationship id; p:sldId is appended last (its C10 obligation is discharged); iteration preserves layout order
  R13.4  placeholder names are made unique against all names of the part (allocator idiom, see C06 R6.2)
  (geometry inheritance values: not decided)
"""

from __future__ import annotations

import ast

from sa.pysrc import EnumMember, dotted
from sa.report import AnalysisError
from sa.types import walk_own


def _enum_set(prog, f, varname):
    for n in ast.walk(f.node):
        if isinstance(n, ast.Assign) and any(isinstance(t, ast.Name) and t.id == varname for t in n.targets):
            v = prog.const(n.value, f.module)
            if isinstance(v, tuple) and all(isinstance(x, EnumMember) for x in v):
                return {x.name for x in v}, n
    return None, None


def _selection(prog, f):
    """Which placeholders a generator hands out: follows f into the generator it loops over (nested def, method of self, method
    of a typed receiver) and reads, on every path that yields the loop variable of a loop over `<x>.placeholders`, the membership
    fact about `<v>.element.ph_type`.  Returns {"names", "polarity" (True: in / False: not in), "func", "source", "memo"} or None."""
    from sa import paths as P_
    from sa.desugar import desugar
    from sa.inline import expand, resolve_callee
    from sa.pysrc import FuncInfo, Unknown

    REORDERED = [None]

    def scan(node, owner, module, cls):
        env = {}
        for n in ast.walk(node):
            if isinstance(n, ast.Assign) and len(n.targets) == 1 and isinstance(n.targets[0], ast.Name):
                v = prog.const(n.value, module, env, cls)
                if not isinstance(v, Unknown):
                    env[n.targets[0].id] = v
        al = P_.aliases(node)
        for lp in [n for n in ast.walk(node) if isinstance(n, ast.For) and isinstance(n.target, ast.Name)]:
            it_, reord_ = lp.iter, None
            while isinstance(it_, ast.Call) and dotted(it_.func) in ("list", "tuple", "iter", "reversed", "sorted") and it_.args:
                if dotted(it_.func) in ("reversed", "sorted"):
                    reord_ = ast.unparse(it_)[:60]     # same elements, another order (reported by the order rule)
                it_ = it_.args[0]
            src = P_.norm(it_, al)
            if not src.endswith(".placeholders"):
                continue
            REORDERED[0] = reord_
            v = lp.target.id
            for pth in P_.enum_paths(lp.body):
                def uses(stn):
                    """the element is handed out (yield) or handed on (argument of a call, `cast(...)` aside)"""
                    for x in ast.walk(stn):
                        if isinstance(x, ast.Yield) and x.value is not None and P_.norm(x.value, al) == v:
                            return True
                        if isinstance(x, ast.Call) and dotted(x.func) != "cast" and any(
                                P_.norm(a_.args[-1] if isinstance(a_, ast.Call) and dotted(a_.func) == "cast" and a_.args else a_, al) == v for a_ in x.args):
                            return True
                    return False
                ys = [i for i, e in enumerate(pth.events) if e[0] == "stmt" and uses(e[1])]
                if not ys:
                    continue
                for a in P_.facts(pth, ys[0], al):
                    if a[0] == "in" and a[1] == v + ".element.ph_type":
                        st = prog.const(ast.parse(a[2], mode="eval").body, module, env, cls)
                        if isinstance(st, (tuple, list, frozenset)) and all(isinstance(x, EnumMember) for x in st):
                            return {"names": {x.name for x in st}, "polarity": a[3], "source": src, "reordered": REORDERED[0]}
        # the same selection written as a comprehension: (v for v in <x>.placeholders if <test on v.element.ph_type>)
        for g_ in [n for n in ast.walk(node) if isinstance(n, (ast.GeneratorExp, ast.ListComp)) and len(n.generators) == 1
                   and isinstance(n.generators[0].target, ast.Name)]:
            gen = g_.generators[0]
            src = P_.norm(gen.iter, al)
            v = gen.target.id
            if not src.endswith(".placeholders") or dotted(g_.elt) != v:
                continue
            for c in gen.ifs:
                for a in P_.atoms(c, True, al):
                    if a[0] == "in" and a[1] == v + ".element.ph_type":
                        st = prog.const(ast.parse(a[2], mode="eval").body, module, env, cls)
                        if isinstance(st, (tuple, list, frozenset)) and all(isinstance(x, EnumMember) for x in st):
                            return {"names": {x.name for x in st}, "polarity": a[3], "source": src}
        return None

    todo, seen = [(f, f.node if hasattr(f, "node") else f, f)], set()
    while todo:
        g, gnode, owner = todo.pop(0)
        if id(gnode) in seen or len(seen) > 6:
            continue
        seen.add(id(gnode))
        node = expand(prog, g, local_only=True) if isinstance(g, FuncInfo) else desugar(gnode)
        r = scan(node, owner, owner.module, owner.cls)
        if r is not None:
            r["func"] = g if isinstance(g, FuncInfo) else owner
            r["memo"] = g if isinstance(g, FuncInfo) and g.kind == "lazyproperty" else None
            return r
        local_defs = {n.name: n for n in ast.walk(gnode) if isinstance(n, ast.FunctionDef) and n is not gnode}
        for n in ast.walk(gnode):
            # generators / properties the function draws its elements from
            if isinstance(n, ast.Call):
                rc = resolve_callee(prog, owner, n, local_defs)
                if rc is not None:
                    callee = rc[0]
                    todo.append((callee, callee.node if isinstance(callee, FuncInfo) else callee, callee if isinstance(callee, FuncInfo) else owner))
            if isinstance(n, ast.Attribute) and dotted(n.value) == "self" and owner.cls is not None:
                h = prog.lookup(owner.cls, n.attr)
                if h is not None and h is not g and h.kind in ("property", "lazyproperty"):
                    todo.append((h, h.node, h))
    return None


def run(ctx):
    from checks.c10 import load

    prog, S, M = load(ctx.repo)

    from sa.xmlchemy_model import ALL_PARTS, mechanism_gate  # noqa: F401


    mechanism_gate(ctx, M, ("insert",))
    from sa import inline as _inl
    from sa.types import Types as _Types

    _inl.use_types(_Types(prog, M))   # `notes_master.iter_cloneable_placeholders()` resolves through the receiver's type
    ctx.level = "other"
    ctx.trusted = ["CPython ast", "constant folding of the placeholder-type tuples"]
    ctx.explanation = (
        "The structural skeleton of placeholder cloning: the two literal type sets equal the sets named in the statement and are "
        "used with the right polarity; the four placeholder attributes read from the source flow position-by-position into the "
        "attribute stores of the new p:ph; adding a slide creates the part, clones placeholders, then registers the slide id "
        "last. Geometry inheritance (effective position/size lookups) is value-level and not decided.")
    ctx.not_decided = ["inherited position/size values", "one-to-one correspondence for layouts with duplicate types (run-time)"]

    # -- R13.1 ---------------------------------------------------------------------------------------
    ctx.rule("R13.1", "latent / cloneable placeholder type sets equal the sets named in the statement")
    f0 = prog.func("pptx.slide", "SlideLayout.iter_cloneable_placeholders")
    # the selection may live in a helper property of the class the iterator delegates to (one level)
    sel = _selection(prog, f0)
    f = sel["func"] if sel else f0
    memo = sel["memo"] if sel else None
    if sel is None:
        ctx.error("SlideLayout.iter_cloneable_placeholders", "the selection of the cloneable placeholders by type is not recognised")
    elif sel["names"] == {"DATE", "FOOTER", "SLIDE_NUMBER"} and sel["polarity"] is False:
        ctx.ok("R13.1", "latent_ph_types", sample={"set": sorted(sel["names"]), "use": "ph_type not in <latent types> -> yield", "in": f.qualname})
    else:
        ctx.violation("R13.1", "latent_ph_types", "latent placeholder set is %s (expected DATE, FOOTER, SLIDE_NUMBER; excluded with "
                      "`not in`), used with `%s`" % (sorted(sel["names"]), "in" if sel["polarity"] else "not in"), file=f.file, line=f.line)
    if memo is not None:
        ctx.violation("R13.1", "SlideLayout.iter_cloneable_placeholders:memo", "the cloneable placeholders are computed once (%s is a "
                      "lazyproperty): the set and order cloned to later slides is frozen at the first add_slide and no longer follows "
                      "the layout" % memo.qualname, file=memo.file, line=memo.line)
    else:
        ctx.ok("R13.1", "SlideLayout.iter_cloneable_placeholders:memo", nontrivial=False)
    g = prog.func("pptx.slide", "NotesSlide.clone_master_placeholders")
    sel2 = _selection(prog, g)
    if sel2 is None:
        ctx.error("NotesSlide.clone_master_placeholders", "the selection of the cloneable notes placeholders by type is not recognised")
    elif sel2["names"] == {"SLIDE_IMAGE", "BODY", "SLIDE_NUMBER"} and sel2["polarity"] is True:
        ctx.ok("R13.1", "notes cloneable", sample={"set": sorted(sel2["names"]), "use": "ph_type in <cloneable types> -> yield", "in": sel2["func"].qualname})
    else:
        ctx.violation("R13.1", "notes cloneable", "notes cloneable set is %s (expected SLIDE_IMAGE, BODY, SLIDE_NUMBER; selected with "
                      "`in`), used with `%s`" % (sorted(sel2["names"]), "in" if sel2["polarity"] else "not in"), file=g.file, line=g.line)
    # both iterate the source placeholders in order (the source is the loop the selection was read from)
    for fn, sl_, want_src in ((f, sel, ("self.placeholders",)), (g, sel2, ("notes_master.placeholders", "self.placeholders"))):
        if sl_ is None:
            continue
        # ... and nothing re-orders them on the way out: sorted() / reversed() / set() / .sort() of the selected placeholders
        reorder = None
        sfn = sl_.get("func")
        if sfn is not None and hasattr(sfn, "node"):
            from sa import paths as _Po

            vo = _Po.value_aliases(sfn.node)
            for c_ in ast.walk(sfn.node):
                if isinstance(c_, ast.Call) and dotted(c_.func) in ("sorted", "reversed", "set", "frozenset", "random.sample", "random.shuffle") and c_.args \
                        and ".placeholders" in _Po.full(c_.args[0], vo):
                    reorder = ast.unparse(c_)[:60]
                elif isinstance(c_, ast.Call) and isinstance(c_.func, ast.Attribute) and c_.func.attr in ("sort", "reverse") \
                        and ".placeholders" in _Po.full(c_.func.value, vo):
                    reorder = ast.unparse(c_)[:60]
        reorder = reorder or sl_.get("reordered")
        if reorder:
            ctx.violation("R13.1", fn.qualname + ":order", "the selected placeholders are re-ordered (`%s`) before they are handed out: the new slide's "
                          "placeholders are not in the order of the layout" % reorder, file=fn.file, line=fn.line)
        elif sl_["source"] in want_src:
            ctx.ok("R13.1", fn.qualname + ":order", nontrivial=False)
        else:
            ctx.violation("R13.1", fn.qualname + ":order", "does not iterate %s in document order (iterates %s)" % (want_src[0], sl_["source"]),
                          file=fn.file, line=fn.line)

    # -- R13.2 ---------------------------------------------------------------------------------------
    ctx.rule("R13.2", "type/orient/sz/idx of the source placeholder reach the same-named attributes of the new p:ph")
    cp = prog.func("pptx.shapes.shapetree", "_BaseShapes.clone_placeholder")
    # sp = placeholder.element ; a, b, c, d = (sp.ph_type, sp.ph_orient, sp.ph_sz, sp.ph_idx)
    from sa import paths as P_
    from sa.desugar import desugar as _desugar

    cpx = _desugar(cp.node)
    reads = {k: v.attr for k, v in P_.value_aliases(cpx).items() if isinstance(v, ast.Attribute)}   # local -> source attribute it was read from
    call = None
    for n in walk_own(cpx):
        if isinstance(n, ast.Call) and isinstance(n.func, ast.Attribute) and n.func.attr == "add_placeholder":
            call = n
    gs = prog.cls("pptx.oxml.shapes.groupshape", "CT_GroupShape")
    ap = gs.methods.get("add_placeholder")
    nps = prog.func("pptx.oxml.shapes.autoshape", "CT_Shape.new_placeholder_sp")
    if call is None or ap is None:
        raise AnalysisError("anchor vanished: clone_placeholder / add_placeholder")
    # map: source attribute -> add_placeholder parameter -> new_placeholder_sp parameter -> ph attribute store
    ap_params = ap.params[1:]
    flow = {}
    cval = P_.value_aliases(cpx)
    shape_el = prog.cls("pptx.oxml.shapes.shared", "BaseShapeElement")

    def record_field(a):
        """`R.f` where R is a record property of the source element (`element.ph_props`, a NamedTuple built from p:ph attributes):
        the reader-property name (`ph_<attr>`) of the p:ph attribute field f is built from"""
        if not isinstance(a, ast.Attribute):
            return None
        r = cval.get(a.value.id, a.value) if isinstance(a.value, ast.Name) else a.value
        if not isinstance(r, ast.Attribute) or shape_el is None:
            return None
        pr = prog.lookup(shape_el, r.attr)
        if pr is None or pr.kind not in ("property", "lazyproperty"):
            return None
        rets_ = [x.value for x in ast.walk(pr.node) if isinstance(x, ast.Return) and isinstance(x.value, ast.Call)]
        if len(rets_) != 1:
            return None
        c_ = rets_[0]
        fields = {k.arg: k.value for k in c_.keywords if k.arg}
        rc_ = prog.resolve(pr.module, dotted(c_.func) or "")
        if c_.args and hasattr(rc_, "node"):
            names_ = [n_.target.id for n_ in rc_.node.body if isinstance(n_, ast.AnnAssign) and isinstance(n_.target, ast.Name)]
            fields.update(dict(zip(names_, c_.args)))
        v_ = fields.get(a.attr)
        if isinstance(v_, ast.Attribute) and isinstance(v_.value, ast.Name):
            return "ph_" + v_.attr   # the field is the p:ph attribute of that name, as the ph_<attr> readers return it
        return None

    # `*rec`: a record star-expanded into the call stands for its fields in order
    from sa import records as R13

    args_ = []
    for a in call.args:
        if isinstance(a, ast.Starred):
            r_ = cval.get(a.value.id, a.value) if isinstance(a.value, ast.Name) else a.value
            pr_ = prog.lookup(shape_el, r_.attr) if isinstance(r_, ast.Attribute) and shape_el is not None else None
            rec_ = R13.producer_record(prog, pr_) if pr_ is not None and pr_.kind in ("property", "lazyproperty") else None
            if rec_ is not None:
                args_ += [ast.Attribute(value=a.value, attr=f_, ctx=ast.Load()) for f_ in rec_[1]]
                continue
        args_.append(a)
    for i, a in enumerate(args_):
        if isinstance(a, ast.Name) and a.id in reads and i < len(ap_params):
            flow[reads[a.id]] = ap_params[i]
        elif record_field(a) is not None and i < len(ap_params):
            flow[record_field(a)] = ap_params[i]
        elif isinstance(a, ast.Attribute) and a.attr.startswith("ph_") and i < len(ap_params):
            flow[a.attr] = ap_params[i]   # read in place: add_placeholder(..., sp.ph_type, ...)
    for k_ in call.keywords:
        v_ = k_.value
        src_ = reads.get(v_.id) if isinstance(v_, ast.Name) else (v_.attr if isinstance(v_, ast.Attribute) else None)
        if k_.arg and src_:
            flow[src_] = k_.arg
    inner = None
    for n in walk_own(ap.node):
        if isinstance(n, ast.Call) and isinstance(n.func, ast.Attribute) and n.func.attr == "new_placeholder_sp":
            inner = n
    nps_params = nps.params[1:] if (nps.kind != "staticmethod" and nps.cls is not None) else nps.params   # without cls / self
    flow2 = {}
    if inner is not None:
        for i, a in enumerate(inner.args):
            if isinstance(a, ast.Name) and i < len(nps_params):
                flow2[a.id] = nps_params[i]
        for k_ in inner.keywords:
            if k_.arg and isinstance(k_.value, ast.Name):
                flow2[k_.value.id] = k_.arg
    stores = {}
    conditional = set()
    npx = _desugar(nps.node)   # `ph.type, ph.orient = a, b` split into single stores
    try:
        from sa.inline import expand as _exp132

        npx = _exp132(prog, nps, local_only=True)     # a configuring helper (`cls._configure_ph(sp, ...)`) is read in place
    except Exception:  # noqa: BLE001
        npx = _desugar(nps.node)
    ph_names = {k for k, v in P_.value_aliases(npx).items() if isinstance(v, ast.Call) and isinstance(v.func, ast.Attribute)
                and v.func.attr in ("get_or_add_ph", "_add_ph")}
    if not ph_names:
        ctx.error("CT_Shape.new_placeholder_sp", "the new p:ph element (get_or_add_ph()) is not recognised")
    nps_body = list(npx.body)
    for n in walk_own(npx):
        if isinstance(n, ast.Assign) and isinstance(n.targets[0], ast.Attribute) and dotted(n.targets[0].value) in ph_names \
                and isinstance(n.value, ast.Name):
            if n in nps_body:
                stores[n.value.id] = n.targets[0].attr
            else:
                conditional.add(n.targets[0].attr)
    want = {"ph_type": "type", "ph_orient": "orient", "ph_sz": "sz", "ph_idx": "idx"}
    for src, attr in want.items():
        p1 = flow.get(src)
        p2 = flow2.get(p1) if p1 else None
        dst = stores.get(p2) if p2 else None
        key = "%s->ph.%s" % (src, attr)
        if not stores and not conditional:
            ctx.error(key, "no store into the new p:ph element recognised in new_placeholder_sp")
        elif dst == attr:
            ctx.ok("R13.2", key, sample={"source": "sp." + src, "via": [p1, p2], "store": "ph.%s" % dst})
        elif attr in conditional:
            ctx.violation("R13.2", key, "ph.%s is stored only under a condition in new_placeholder_sp: for the other placeholder kinds "
                          "the clone falls back to the attribute's default" % attr, file=nps.file, line=nps.line)
        else:
            ctx.violation("R13.2", key, "source sp.%s ends in ph.%s (via %s, %s), expected ph.%s" % (src, dst, p1, p2, attr),
                          file=cp.file, line=cp.line)
    # the CT_Shape readers are the same attributes of p:ph
    sh = prog.cls("pptx.oxml.shapes.shared", "BaseShapeElement")
    for src, attr in want.items():
        r = sh.methods.get(src)
        ok = False
        if r is not None:
            from sa.idioms import returned_exprs

            _rx, rets_ = returned_exprs(prog, r)
            # the value returned is <p:ph element>.<attr>, the element being self.ph (directly or through a local / helper)
            ok = bool(rets_) and all(isinstance(v_, ast.Attribute) and v_.attr == attr and ast.unparse(v_.value) in ("self.ph", "self._required_ph")
                                     for v_ in rets_)
        if ok:
            ctx.ok("R13.2", "reader " + src, nontrivial=False)
        else:
            ctx.violation("R13.2", "reader " + src, "BaseShapeElement.%s does not read p:ph/@%s" % (src, attr), file=sh.file,
                          line=r.line if r else sh.line)

    # -- R13.3 ---------------------------------------------------------------------------------------
    ctx.rule("R13.3", "add_slide: create part -> clone layout placeholders -> append p:sldId last")
    a = prog.func("pptx.slide", "Slides.add_slide")
    seq = []
    for n in walk_own(a.node):
        if isinstance(n, ast.Call) and isinstance(n.func, ast.Attribute) and n.func.attr in (
                "add_slide", "clone_layout_placeholders", "add_sldId"):
            seq.append((n.lineno, n.func.attr, n))
    seq.sort()
    names = [x[1] for x in seq]
    if names == ["add_slide", "clone_layout_placeholders", "add_sldId"]:
        # the rId returned by part creation is the one registered
        # the id registered is the one returned by the part-level add_slide (first component of its result)
        aval = P_.value_aliases(a.node)
        reg = seq[2][2].args[0] if seq[2][2].args else None
        rid_src = P_.full(reg, aval) if reg is not None else ""
        made = ast.unparse(seq[0][2])
        ok = rid_src in (made + "[0]",) and dotted(seq[1][2].args[0]) == a.params[1]
        if ok:
            ctx.ok("R13.3", "Slides.add_slide", sample={"order": names})
        else:
            ctx.violation("R13.3", "Slides.add_slide", "the slide id is not registered with the new part's relationship id / wrong layout",
                          file=a.file, line=a.line)
    else:
        ctx.violation("R13.3", "Slides.add_slide", "step order is %s" % names, file=a.file, line=a.line)
    # sldId appended last: CT_SlideIdList._add_sldId with no successors and sldId the only child kind before extLst
    lst = prog.cls("pptx.oxml.presentation", "CT_SlideIdList")
    d = [x for x in M.child_decls(lst) if "p:sldId" in x.tags]
    from checks.c10 import complex_types_for, decide

    bad = None
    if d:
        succ = tuple(prog.qn(t) for t in d[0].successors)
        for tq in complex_types_for(S, prog.qn("p:sldIdLst")):
            fails = decide(S, tq, prog.qn("p:sldId"), succ, M.semantics, 2)
            if fails:
                bad = fails[0]
            # appended after every existing sldId
            A = S.automaton(tq)
            if not A.accepts([prog.qn("p:sldId")] * 3):
                bad = "schema does not allow repeated sldId"
    if d and not bad and not d[0].successors:
        ctx.ok("R13.3", "p:sldId last", sample={"declaration": "ZeroOrMore p:sldId, no successors -> appended after existing ids"})
    else:
        ctx.violation("R13.3", "p:sldId last", "new p:sldId is not appended after the existing ones (%s)" % (bad,), file=lst.file,
                      line=lst.line)
    rt_cls = prog.cls("pptx.opc.constants", "RELATIONSHIP_TYPE")

    def rt_value(mod, expr):
        v = prog.const(expr, mod)
        return v if isinstance(v, str) else None

    RT_SLIDE = prog.const(rt_cls.attrs["SLIDE"], rt_cls.module)
    RT_LAYOUT = prog.const(rt_cls.attrs["SLIDE_LAYOUT"], rt_cls.module)
    pa = prog.func("pptx.parts.presentation", "PresentationPart.add_slide")
    new_calls = [n for n in walk_own(pa.node) if isinstance(n, ast.Call) and dotted(n.func) == "SlidePart.new"]
    rel = [n for n in walk_own(pa.node) if isinstance(n, ast.Call) and isinstance(n.func, ast.Attribute)
           and n.func.attr == "relate_to" and len(n.args) >= 2 and rt_value(pa.module, n.args[1]) == RT_SLIDE]
    layout_used = any(isinstance(n, ast.Attribute) and n.attr == "part" and isinstance(n.value, ast.Name)
                      and n.value.id == pa.params[1] for n in walk_own(pa.node))
    if new_calls and rel and layout_used and len(new_calls[0].args) == 3:
        ctx.ok("R13.3", "PresentationPart.add_slide", sample={"creates": "SlidePart.new(..., layout part)", "relates": "RT.SLIDE"})
    else:
        ctx.violation("R13.3", "PresentationPart.add_slide", "new slide part is not created from the layout's part and related as RT.SLIDE",
                      file=pa.file, line=pa.line)
    sn = prog.func("pptx.parts.slide", "SlidePart.new")
    rel2 = [n for n in walk_own(sn.node) if isinstance(n, ast.Call) and isinstance(n.func, ast.Attribute)
            and n.func.attr == "relate_to" and len(n.args) >= 2 and rt_value(sn.module, n.args[1]) == RT_LAYOUT
            and isinstance(n.args[0], ast.Name) and n.args[0].id == sn.params[-1]]
    if rel2:
        ctx.ok("R13.3", "SlidePart.new", sample={"relates": "RT.SLIDE_LAYOUT -> the given layout part"})
    else:
        ctx.violation("R13.3", "SlidePart.new", "new slide part is not related to the layout it was created from", file=sn.file, line=sn.line)

    # -- R13.4 ---------------------------------------------------------------------------------------
    ctx.rule("R13.4", "placeholder names are unique within the part")
    nm = prog.func("pptx.shapes.shapetree", "_BaseShapes._next_ph_name")
    from checks.c06 import _stale_returns, idiom_first_gap, idiom_while_in, idiom_while_not_in

    xp = [prog.const(n.args[0], nm.module) for n in walk_own(nm.node) if isinstance(n, ast.Call)
          and isinstance(n.func, ast.Attribute) and n.func.attr == "xpath" and n.args]
    from sa.inline import expand as _exp13

    nmx = _exp13(prog, nm, local_only=True)   # pipelines (`next(n for n in candidates if n not in names)`) read as loops
    idiom = idiom_while_not_in(nm.node) or idiom_while_in(nm.node) or idiom_first_gap(nm.node) \
        or idiom_while_not_in(nmx) or idiom_while_in(nmx) or idiom_first_gap(nmx)   # while-loops and `for n in count(...)`
    handed_on = False
    if not idiom:
        # the scan may live in a helper of another module that is handed the names: read in place
        try:
            nmx2 = _exp13(prog, nm, depth=3, local_only=False)
            idiom = idiom_while_not_in(nmx2) or idiom_while_in(nmx2) or idiom_first_gap(nmx2)
        except Exception:  # noqa: BLE001
            nmx2 = None
        from sa import paths as _P13
        from sa.inline import resolve_callee as _rc13

        val13 = _P13.value_aliases(nm.node)
        if not idiom:
            # `return helper(basename, first, <names>)`: the scan of a helper that loops / returns from inside its loop is judged on
            # the helper, with the names bound to its parameter
            for r_ in [x for x in walk_own(nm.node) if isinstance(x, ast.Return) and isinstance(x.value, ast.Call)]:
                try:
                    rc_ = _rc13(prog, nm, r_.value, {})
                except Exception:  # noqa: BLE001
                    rc_ = None
                if rc_ is None or not hasattr(rc_[0], "node"):
                    continue
                h_ = rc_[0]
                hps = [a_.arg for a_ in h_.node.args.args][(1 if rc_[1] else 0):]
                bound = dict(zip(hps, r_.value.args))
                bound.update({k_.arg: k_.value for k_ in r_.value.keywords if k_.arg})
                names_p = [p_ for p_, a_ in bound.items() if ".xpath(" in _P13.full(a_, val13)]
                hid = idiom_while_not_in(h_.node) or idiom_while_in(h_.node) or idiom_first_gap(h_.node)
                tested = any(isinstance(c_, ast.Compare) and isinstance(c_.ops[0], (ast.In, ast.NotIn)) and dotted(c_.comparators[0]) in names_p
                             for c_ in ast.walk(h_.node))
                if hid and names_p and tested and not _stale_returns(h_, prog):
                    idiom = hid + " (in %s)" % h_.name
        handed_on = any(isinstance(c_, ast.Call) and any(".xpath(" in _P13.full(a_, val13) for a_ in list(c_.args) + [k_.value for k_ in c_.keywords])
                        for c_ in walk_own(nm.node))
    if "//p:cNvPr/@name" in xp and idiom and not _stale_returns(nm, prog):
        ctx.ok("R13.4", "_next_ph_name", sample={"population": "//p:cNvPr/@name", "idiom": idiom})
    elif "//p:cNvPr/@name" in xp and not idiom and any(
            isinstance(n, ast.Compare) and isinstance(n.ops[0], (ast.In, ast.NotIn)) for n in walk_own(nm.node)):
        ctx.error("_BaseShapes._next_ph_name", "the candidate is tested against the names of the part, but not through a recognised "
                  "uniqueness idiom (loop until / while the candidate is in the names)")
    elif "//p:cNvPr/@name" in xp and not idiom and handed_on:
        ctx.error("_BaseShapes._next_ph_name", "the names of the part are handed to a helper whose scan is not recognised")
    else:
        ctx.violation("R13.4", "_next_ph_name", "name allocator does not loop until the candidate is absent from all names of the part",
                      file=nm.file, line=nm.line)
    uses = {n.attr for n in walk_own(cp.node) if isinstance(n, ast.Attribute) and dotted(n.value) == "self"}
    if {"_next_ph_name", "_next_shape_id"} <= uses:
        ctx.ok("R13.4", "clone_placeholder uses allocators", nontrivial=False)
    else:
        ctx.violation("R13.4", "clone_placeholder uses allocators", "cloned placeholder is not named/numbered by the allocators",
                      file=cp.file, line=cp.line)

    # -- R13.5 ---------------------------------------------------------------------------------------
    ctx.rule("R13.5", "layout -> master inheritance table maps every layout placeholder type onto a type a master can carry")
    lp = prog.cls("pptx.shapes.placeholder", "LayoutPlaceholder")
    bp = lp.methods.get("_base_placeholder") if lp else None
    if bp is None:
        raise AnalysisError("anchor vanished: LayoutPlaceholder._base_placeholder")
    from sa.paths import tables_by_use

    table = None
    for v, node_ in tables_by_use(prog, bp):
        if len(v) >= 5 and all(isinstance(k, EnumMember) and isinstance(x, EnumMember) for k, x in v.items()) \
                and "ph_type" in ast.unparse(node_.slice):
            table = {k.name: x.name for k, x in v.items()}
    if table is None:
        # the table written as a function of the type: `if t in (A, B): return X` arms (a match statement reads as that chain)
        from sa.inline import resolve_callee as _rc135

        for c_ in [x for x in ast.walk(bp.node) if isinstance(x, ast.Call) and any("ph_type" in ast.unparse(a_) for a_ in x.args)]:
            try:
                rc_ = _rc135(prog, bp, c_, {})
            except Exception:  # noqa: BLE001
                rc_ = None
            g_ = rc_[0] if rc_ is not None and hasattr(rc_[0], "node") else None
            if g_ is None and dotted(c_.func):
                r_ = prog.resolve(bp.module, dotted(c_.func))
                g_ = r_ if hasattr(r_, "node") and hasattr(r_, "module") else None
            if g_ is None:
                continue
            ps_ = [a_.arg for a_ in g_.node.args.args if a_.arg not in ("self", "cls")]
            if len(ps_) != 1:
                continue
            tb_, okt_ = {}, True

            def arms(stmts):
                nonlocal okt_
                for st in stmts:
                    if isinstance(st, ast.Expr) and isinstance(st.value, ast.Constant):
                        continue
                    if isinstance(st, ast.Raise):
                        return
                    if isinstance(st, ast.If) and isinstance(st.test, ast.Compare) and len(st.test.ops) == 1 and dotted(st.test.left) == ps_[0] \
                            and isinstance(st.test.ops[0], (ast.In, ast.Eq, ast.Is)) and len(st.body) == 1 and isinstance(st.body[0], ast.Return):
                        ks = prog.const(st.test.comparators[0], g_.module)
                        ks = list(ks) if isinstance(ks, (tuple, list)) else [ks]
                        v_ = prog.const(st.body[0].value, g_.module)
                        if all(isinstance(k_, EnumMember) for k_ in ks) and isinstance(v_, EnumMember):
                            for k_ in ks:
                                tb_.setdefault(k_.name, v_.name)
                        else:
                            okt_ = False
                        arms(st.orelse)
                        if st.orelse:
                            return
                    else:
                        okt_ = False
                        return
            arms(g_.node.body)
            if okt_ and len(tb_) >= 5:
                table = tb_
    MASTER = {"TITLE", "BODY", "DATE", "FOOTER", "SLIDE_NUMBER"}  # placeholder kinds of a slide master (ECMA-376 Part 1, 19.3.1.36 / 19.7.10)
    if table is None:
        ctx.error("LayoutPlaceholder._base_placeholder", "inheritance table does not fold")
    else:
        ctx.count("base_ph_rows", len(table))
        for k, v in sorted(table.items()):
            key = "base_ph_type[%s]" % k
            if v not in MASTER:
                ctx.violation("R13.5", key, "%s inherits from master placeholder type %s, which a slide master never carries: a layout "
                              "placeholder of that type without its own geometry reports None for position and size, and so do its "
                              "clones" % (k, v), file=bp.file, line=bp.line)
            elif k in MASTER and v != k:
                ctx.violation("R13.5", key, "%s inherits from %s instead of the master placeholder of its own type" % (k, v), file=bp.file, line=bp.line)
            elif k == "CENTER_TITLE" and v != "TITLE":
                ctx.violation("R13.5", key, "a centered title inherits from %s, not from the master title" % v, file=bp.file, line=bp.line)
            elif k not in MASTER and k != "CENTER_TITLE" and v != "BODY":
                # every content kind (subtitle, object, chart, table, picture, media, clip art, diagram) specialises the master's body
                ctx.violation("R13.5", key, "%s inherits from the master %s placeholder; content placeholders (subtitle included) inherit "
                              "position and size from the master body" % (k, v), file=bp.file, line=bp.line)
            else:
                ctx.ok("R13.5", key, sample={"layout_type": k, "master_type": v})

    # -- R13.6 ---------------------------------------------------------------------------------------
    ctx.rule("R13.6", "each of left / top / width / height falls back on the base placeholder exactly when the placeholder's own value is None")
    ihd = prog._anywhere("class", "_InheritsDimensions")
    ev_ = prog.lookup(ihd, "_effective_value") if ihd is not None else None
    if ev_ is None:
        raise AnalysisError("anchor vanished: _InheritsDimensions._effective_value")
    from sa import paths as _P136
    from sa.desugar import desugar as _ds136

    evx = _ds136(ev_.node)
    al136, val136 = _P136.aliases(evx), _P136.value_aliases(evx)

    def own_value(txt):
        return txt.startswith("getattr(super(")

    probs, npaths = [], 0
    for pth in _P136.enum_paths(evx.body):
        if pth.end != "return" or pth.end_node.value is None:
            continue
        npaths += 1
        rv = _P136.full(pth.end_node.value, val136)
        fs = _P136.facts(pth, None, al136)

        def fact_own(is_none):
            for a in fs:
                if a[0] == "none" and a[2] is is_none:
                    try:
                        t_ = _P136.full(ast.parse(a[1], mode="eval").body, val136)
                    except SyntaxError:
                        t_ = a[1]
                    if own_value(t_):
                        return True
                if a[0] == "is" and own_value(_P136.full(a[1], val136)) and str(a[2]) == "None" and a[3] is is_none:
                    return True
                if a[0] == "cmp" and own_value(_P136.full(a[2], val136)) and a[3] == "None" and ((a[1] in ("Is", "Eq")) == a[4]) is is_none:
                    return True
            return False

        if not own_value(rv):
            # the inherited value (through a helper or read from the base placeholder here), or None when there is no base
            if not fact_own(True):
                probs.append("the inherited value is returned on a path that has not established that the placeholder's own value is None (%s)" % (
                    "; ".join(str(a) for a in fs)[:80] or "unconditionally"))
        else:
            if not fact_own(False):
                probs.append("the placeholder's own value is returned without establishing that it is not None: a placeholder with a partial "
                             "a:xfrm (only a rotation, only a size, only a position) reports None where its layout's value applies")
    if not npaths or not any(own_value(_P136.full(p_.end_node.value, val136)) for p_ in _P136.enum_paths(evx.body)
                             if p_.end == "return" and p_.end_node.value is not None):
        probs.append("?no path returns the placeholder's own value (getattr(super(), attr))")
    if not npaths or any(p_.startswith("?") for p_ in probs):
        ctx.error("_InheritsDimensions._effective_value", "own value / inherited value selection not recognised (%s)" % "; ".join(probs)[:120])
    elif probs:
        ctx.violation("R13.6", "_InheritsDimensions._effective_value", "; ".join(sorted(set(probs))), file=ev_.file, line=ev_.line)
    else:
        ctx.ok("R13.6", "_InheritsDimensions._effective_value", sample={"own": "getattr(super(), attr)", "fallback": "when it is None", "paths": npaths})
