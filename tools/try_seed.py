#!/venv/bin/python
"""Apply a seeded change to /repo, run the given checks, undo the change.

usage: tools/try_seed.py <seed-dir> <PROP> [<PROP> ...] [--demo] [--tests]
Prints, per check, exit code and the VIOLATION / ANALYSIS-ERROR lines.  /repo is restored
(git checkout -- .) even on error.
"""

import os
import subprocess
import sys

HERE = os.path.dirname(os.path.dirname(os.path.abspath(__file__)))


def sh(cmd, **kw):
    return subprocess.run(cmd, shell=True, capture_output=True, text=True, **kw)


def main():
    args = [a for a in sys.argv[1:] if not a.startswith("--")]
    flags = [a for a in sys.argv[1:] if a.startswith("--")]
    seed, props = args[0], args[1:]
    patch = os.path.join(seed, "patch.diff")
    demo = os.path.join(seed, "demo.py")
    st = sh("git -C /repo status --porcelain")
    if st.stdout.strip():
        print("refusing: /repo is not clean")
        return 2
    out = {}
    try:
        if "--demo" in flags:
            r = sh("cd /tmp && PYTHONPATH=/repo/src /venv/bin/python %s" % demo)
            print("demo on pristine: exit %d %s" % (r.returncode, r.stdout.strip().splitlines()[-1:] or ""))
        r = sh("git -C /repo apply %s" % patch)
        if r.returncode:
            print("patch does not apply:", r.stderr)
            return 2
        if "--demo" in flags:
            r = sh("cd /tmp && PYTHONPATH=/repo/src /venv/bin/python %s" % demo)
            print("demo with patch:  exit %d %s" % (r.returncode, (r.stdout.strip().splitlines() or [""])[-1][:160]))
        if "--tests" in flags:
            r = sh("cd /repo && /venv/bin/python -m pytest -q -p no:cacheprovider --timeout=900 --continue-on-collection-errors 2>&1 | tail -1")
            print("tests with patch:", r.stdout.strip())
        for p in props:
            r = sh("cd %s && /venv/bin/python check %s --tier quick" % (HERE, p), env=dict(os.environ, VERIF_NOWRITE="1"))
            lines = [l for l in r.stdout.splitlines() if l.startswith(("VIOLATION", "ANALYSIS-ERROR", "  "))]
            print("check %s: exit %d" % (p, r.returncode))
            for l in lines[:8]:
                print("   ", l[:260])
            out[p] = r.returncode
    finally:
        sh("git -C /repo checkout -- . && git -C /repo clean -fdq src")
    return 0


if __name__ == "__main__":
    sys.exit(main())
