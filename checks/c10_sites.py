def run(ctx, prog, S, M, explicit):
    pass
