"""C05 mutants."""

X = "src/pptx/chart/xmlwriter.py"

MUTANTS = [
    ("series-name-unescaped", "series name no longer escaped",
     [(X, "        return escape(self._series.name)", "        return self._series.name")],
     "R5.1 _BaseSeriesXmlWriter"),
    ("category-label-unescaped", "category label written raw",
     [(X, '"cat_label": escape(str(category.label))', '"cat_label": str(category.label)')],
     "R5.1 _CategorySeriesXmlWriter._cat_pt_xml"),
    ("attr-helper-drops-quote-map", "picture._escape_attr escapes for character data only",
     [("src/pptx/oxml/shapes/picture.py", "    return escape(value, {'\"': \"&quot;\"})", "    return escape(value)")],
     "R5.1 CT_Picture.new_pic:desc"),
    ("numfmt-attr-text-escape", "axis number format escaped without the quote map",
     [(X, '.format(**{"cat_ax_pos": self._cat_ax_pos, "nf": escape(categories.number_format, {\'"\': "&quot;"})})',
       '.format(**{"cat_ax_pos": self._cat_ax_pos, "nf": escape(categories.number_format)})')],
     "R5.1 _BarChartXmlWriter._cat_ax_xml"),
    ("progid-raw", "OLE progId substituted raw",
     [("src/pptx/oxml/shapes/graphfrm.py", 'progId="{_escape_attr(progId)}"', 'progId="{progId}"')],
     "R5.1 CT_GraphicalObjectFrame.new_ole_object_graphicFrame:progId"),
    ("multilevel-label-raw", "multi-level category names written raw",
     [(X, ') % (idx, escape("%s" % name))', ') % (idx, "%s" % name)')],
     "R5.1 _CategorySeriesXmlWriter._lvl_xml"),
    ("basename-helper", "autoshape base name escaped without quote map",
     [("src/pptx/shapes/autoshape.py", "return saxutils.escape(self._basename, {'\"': \"&quot;\"})", "return saxutils.escape(self._basename)")],
     "ANALYSIS"),
    ("textbox-name-from-user", "add_textbox grows a user-supplied name parameter written raw",
     [("src/pptx/shapes/shapetree.py", '        name = "TextBox %d" % (id_ - 1)\n        sp = self._spTree.add_textbox(id_, name, x, y, cx, cy)',
       '        name = getattr(self, "_next_name", None) or "TextBox %d" % (id_ - 1)\n        sp = self._spTree.add_textbox(id_, name, x, y, cx, cy)')],
     "R5.1 CT_Shape.new_textbox_sp"),
]
