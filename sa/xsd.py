"""Engine B — schema model: XSD loader (complex/simple types, groups, attribute groups) and
content-model automata (Thompson NFA with lazy subset construction).

Names are `(namespace, local)` pairs; element symbols are Clark names `{ns}local`.
"""

from __future__ import annotations

import glob
import os
import xml.etree.ElementTree as ET
from fractions import Fraction

from .report import AnalysisError

XS = "http://www.w3.org/2001/XMLSchema"
UNBOUNDED = 10 ** 9
ANY = "##any"


def _x(tag):
    return "{%s}%s" % (XS, tag)


class Particle:
    """kind: elem | seq | choice | all | any"""

    __slots__ = ("kind", "name", "type", "items", "min", "max", "ns", "decl")

    def __init__(self, kind, min=1, max=1, name=None, type=None, items=None, ns=None, decl=None):
        self.kind = kind
        self.min = min
        self.max = max
        self.name = name  # clark name for elem
        self.type = type  # qname tuple or None
        self.items = items or []
        self.ns = ns
        self.decl = decl

    def __repr__(self):
        occ = "" if (self.min, self.max) == (1, 1) else "{%s,%s}" % (self.min, "*" if self.max >= UNBOUNDED else self.max)
        if self.kind == "elem":
            return self.name.split("}")[-1] + occ
        if self.kind == "any":
            return "ANY" + occ
        sep = {"seq": ", ", "choice": " | ", "all": " & "}[self.kind]
        return "(" + sep.join(map(repr, self.items)) + ")" + occ


class Attr:
    __slots__ = ("name", "type", "use", "default", "fixed")

    def __init__(self, name, type, use, default, fixed):
        self.name = name  # clark or bare local name
        self.type = type
        self.use = use
        self.default = default
        self.fixed = fixed

    def __repr__(self):
        return "Attr(%s:%s %s default=%r)" % (self.name, self.type, self.use, self.default)


class ComplexType:
    def __init__(self, qname):
        self.qname = qname
        self.particle = None
        self.attrs = {}
        self.base = None
        self.simple_base = None
        self.mixed = False
        self.any_attr = False

    @property
    def name(self):
        return self.qname[1]

    def __repr__(self):
        return "<CT %s>" % (self.qname[1],)


class SimpleType:
    def __init__(self, qname):
        self.qname = qname
        self.base = None  # qname
        self.enums = None  # list[str]
        self.facets = {}  # minInclusive... -> str ; pattern -> [str]
        self.union = None  # list of qnames / anonymous SimpleType
        self.list_item = None

    @property
    def name(self):
        return self.qname[1]

    def __repr__(self):
        return "<ST %s>" % (self.qname[1],)


class Schemas:
    def __init__(self, repo, nsmap):
        self.repo = repo
        self.pfx_of = {}  # ns -> preferred prefix (repo nsmap first)
        for p, ns in nsmap.items():
            self.pfx_of.setdefault(ns, p)
        self.ctypes = {}
        self.stypes = {}
        self.groups = {}
        self.attr_groups = {}
        self.global_elems = {}  # clark -> type qname
        self.global_attrs = {}  # clark -> Attr
        self.elem_decls = {}  # clark -> set of type qnames (every local/global declaration)
        self.elem_parents = {}  # clark -> set of parent ctype qnames
        self.files = []
        self._anon = 0
        dirs = [
            os.path.join(repo, "spec", "ISO-IEC-29500-4", "xsd"),
            os.path.join(repo, "spec", "ISO-IEC-29500-2", "opc-xsd"),
        ]
        for d in dirs:
            fs = sorted(glob.glob(os.path.join(d, "*.xsd")))
            if not fs:
                raise AnalysisError("anchor vanished: no XSD files in %s" % d)
            for f in fs:
                self._load(f)
        self._resolved = {}
        self._index_elements()
        self._auto = {}

    # -- loading ---------------------------------------------------------------------------------
    def _load(self, path):
        self.files.append(path)
        nsmap = {}
        root = None
        for ev, obj in ET.iterparse(path, events=("start-ns", "start")):
            if ev == "start-ns":
                nsmap.setdefault(obj[0], obj[1])
            elif root is None:
                root = obj
        # iterparse returns root only after completion; reparse for simplicity
        root = ET.parse(path).getroot()
        tns = root.get("targetNamespace", "")
        qualified = root.get("elementFormDefault") == "qualified"
        for p, ns in nsmap.items():
            if p and ns != XS:
                self.pfx_of.setdefault(ns, p)
        ctx = dict(tns=tns, nsmap=nsmap, qualified=qualified, path=path)
        for ch in root:
            t = ch.tag
            if t == _x("complexType"):
                ct = self._complex(ch, ctx, (tns, ch.get("name")))
                self.ctypes[ct.qname] = ct
            elif t == _x("simpleType"):
                st = self._simple(ch, ctx, (tns, ch.get("name")))
                self.stypes[st.qname] = st
            elif t == _x("group"):
                self.groups[(tns, ch.get("name"))] = self._particle_of(ch, ctx)
            elif t == _x("attributeGroup"):
                self.attr_groups[(tns, ch.get("name"))] = (ch, ctx)
            elif t == _x("element"):
                clark = "{%s}%s" % (tns, ch.get("name")) if tns else ch.get("name")
                self.global_elems[clark] = self._elem_type(ch, ctx)
            elif t == _x("attribute"):
                clark = "{%s}%s" % (tns, ch.get("name")) if tns else ch.get("name")
                self.global_attrs[clark] = Attr(
                    clark, self._qn(ch.get("type"), ctx) if ch.get("type") else None,
                    ch.get("use", "optional"), ch.get("default"), ch.get("fixed"))

    def _qn(self, s, ctx):
        if s is None:
            return None
        if ":" in s:
            p, l = s.split(":", 1)
            ns = ctx["nsmap"].get(p)
            if ns is None and p == "xml":
                ns = "http://www.w3.org/XML/1998/namespace"
            if ns is None:
                raise AnalysisError("undeclared prefix %s in %s" % (p, ctx["path"]))
            return (ns, l)
        return (ctx["nsmap"].get("", ctx["tns"]), s)

    def _occ(self, el):
        mn = int(el.get("minOccurs", "1"))
        mx = el.get("maxOccurs", "1")
        mx = UNBOUNDED if mx == "unbounded" else int(mx)
        return mn, mx

    def _elem_type(self, el, ctx):
        if el.get("type"):
            return self._qn(el.get("type"), ctx)
        for ch in el:
            if ch.tag == _x("complexType"):
                self._anon += 1
                q = (ctx["tns"], "_anon%d_%s" % (self._anon, el.get("name")))
                self.ctypes[q] = self._complex(ch, ctx, q)
                return q
            if ch.tag == _x("simpleType"):
                self._anon += 1
                q = (ctx["tns"], "_anonST%d_%s" % (self._anon, el.get("name")))
                self.stypes[q] = self._simple(ch, ctx, q)
                return q
        return (XS, "anyType")

    def _particle_of(self, parent, ctx):
        """First compositor/group child of `parent` as a Particle (or None)."""
        for ch in parent:
            p = self._particle(ch, ctx)
            if p is not None:
                return p
        return None

    def _particle(self, el, ctx):
        t = el.tag
        if t in (_x("sequence"), _x("choice"), _x("all")):
            mn, mx = self._occ(el)
            items = [p for p in (self._particle(c, ctx) for c in el) if p is not None]
            kind = {"sequence": "seq", "choice": "choice", "all": "all"}[t.split("}")[1]]
            return Particle(kind, mn, mx, items=items)
        if t == _x("element"):
            mn, mx = self._occ(el)
            if el.get("ref"):
                ns, l = self._qn(el.get("ref"), ctx)
                clark = "{%s}%s" % (ns, l) if ns else l
                return Particle("elem", mn, mx, name=clark, type=("ref", clark))
            ns = ctx["tns"] if (ctx["qualified"] or el.get("form") == "qualified") else ""
            clark = "{%s}%s" % (ns, el.get("name")) if ns else el.get("name")
            return Particle("elem", mn, mx, name=clark, type=self._elem_type(el, ctx))
        if t == _x("group"):
            mn, mx = self._occ(el)
            return Particle("group", mn, mx, type=self._qn(el.get("ref"), ctx))
        if t == _x("any"):
            mn, mx = self._occ(el)
            return Particle("any", mn, mx, ns=el.get("namespace", "##any"))
        return None

    def _complex(self, el, ctx, qname):
        ct = ComplexType(qname)
        ct.mixed = el.get("mixed") == "true"
        ct._raw_attrs = []
        body = el
        for ch in el:
            if ch.tag in (_x("complexContent"), _x("simpleContent")):
                for d in ch:
                    if d.tag in (_x("extension"), _x("restriction")):
                        base = self._qn(d.get("base"), ctx)
                        if ch.tag == _x("simpleContent"):
                            ct.simple_base = base
                            if base in self.ctypes or base[0] != XS:
                                ct.base = base
                        else:
                            ct.base = base
                            ct._derivation = d.tag.split("}")[1]
                        body = d
        ct.particle = self._particle_of(body, ctx)
        for ch in body:
            if ch.tag == _x("attribute"):
                ct._raw_attrs.append(("attr", ch, ctx))
            elif ch.tag == _x("attributeGroup"):
                ct._raw_attrs.append(("group", self._qn(ch.get("ref"), ctx), ctx))
            elif ch.tag == _x("anyAttribute"):
                ct.any_attr = True
        return ct

    def _attr(self, el, ctx):
        if el.get("ref"):
            ns, l = self._qn(el.get("ref"), ctx)
            clark = "{%s}%s" % (ns, l)
            g = self.global_attrs.get(clark)
            typ = g.type if g else None
            return Attr(clark, typ, el.get("use", "optional"), el.get("default", g.default if g else None),
                        el.get("fixed"))
        typ = self._qn(el.get("type"), ctx) if el.get("type") else None
        if typ is None:
            for ch in el:
                if ch.tag == _x("simpleType"):
                    self._anon += 1
                    q = (ctx["tns"], "_anonST%d_%s" % (self._anon, el.get("name")))
                    self.stypes[q] = self._simple(ch, ctx, q)
                    typ = q
        name = el.get("name")
        if el.get("form") == "qualified":
            name = "{%s}%s" % (ctx["tns"], name)
        return Attr(name, typ, el.get("use", "optional"), el.get("default"), el.get("fixed"))

    def _simple(self, el, ctx, qname):
        st = SimpleType(qname)
        for ch in el:
            if ch.tag == _x("restriction"):
                if ch.get("base"):
                    st.base = self._qn(ch.get("base"), ctx)
                else:
                    for s in ch:
                        if s.tag == _x("simpleType"):
                            self._anon += 1
                            q = (ctx["tns"], "_anonST%d" % self._anon)
                            self.stypes[q] = self._simple(s, ctx, q)
                            st.base = q
                for f in ch:
                    k = f.tag.split("}")[1]
                    if k == "enumeration":
                        st.enums = (st.enums or []) + [f.get("value")]
                    elif k == "pattern":
                        st.facets.setdefault("pattern", []).append(f.get("value"))
                    elif k in ("minInclusive", "maxInclusive", "minExclusive", "maxExclusive",
                               "length", "minLength", "maxLength", "totalDigits", "fractionDigits",
                               "whiteSpace"):
                        st.facets[k] = f.get("value")
            elif ch.tag == _x("union"):
                st.union = []
                for m in (ch.get("memberTypes") or "").split():
                    st.union.append(self._qn(m, ctx))
                for s in ch:
                    if s.tag == _x("simpleType"):
                        self._anon += 1
                        q = (ctx["tns"], "_anonST%d" % self._anon)
                        self.stypes[q] = self._simple(s, ctx, q)
                        st.union.append(q)
            elif ch.tag == _x("list"):
                st.list_item = self._qn(ch.get("itemType"), ctx) if ch.get("itemType") else None
        return st

    # -- resolved views --------------------------------------------------------------------------
    def attrs_of(self, qname):
        """All attributes of a complex type (through bases and attribute groups): name -> Attr."""
        ct = self.ctypes.get(qname)
        if ct is None:
            return {}
        out = {}
        if ct.base and ct.base in self.ctypes:
            out.update(self.attrs_of(ct.base))
        for kind, a, ctx in getattr(ct, "_raw_attrs", []):
            if kind == "attr":
                at = self._attr(a, ctx)
                out[at.name] = at
            else:
                out.update(self._attr_group(a))
        return out

    def _attr_group(self, q):
        g = self.attr_groups.get(q)
        if g is None:
            raise AnalysisError("unknown attributeGroup %s" % (q,))
        el, ctx = g
        out = {}
        for ch in el:
            if ch.tag == _x("attribute"):
                at = self._attr(ch, ctx)
                out[at.name] = at
            elif ch.tag == _x("attributeGroup"):
                out.update(self._attr_group(self._qn(ch.get("ref"), ctx)))
        return out

    def model(self, qname, _depth=0):
        """Content model of complex type `qname` with groups inlined and extension bases prefixed."""
        if qname in self._resolved:
            return self._resolved[qname]
        ct = self.ctypes.get(qname)
        if ct is None:
            return None
        own = self._inline(ct.particle) if ct.particle is not None else None
        if ct.base and ct.base in self.ctypes and getattr(ct, "_derivation", "extension") == "extension":
            base = self.model(ct.base, _depth + 1)
            if base is not None and own is not None:
                own = Particle("seq", 1, 1, items=[base, own])
            elif base is not None:
                own = base
        self._resolved[qname] = own
        return own

    def _inline(self, p):
        if p.kind == "group":
            g = self.groups.get(p.type)
            if g is None:
                raise AnalysisError("unknown group %s" % (p.type,))
            g = self._inline(g)
            # wrap to apply the ref's occurrence
            if (p.min, p.max) == (1, 1):
                return g
            return Particle("seq", p.min, p.max, items=[g])
        if p.kind in ("seq", "choice", "all"):
            return Particle(p.kind, p.min, p.max, items=[self._inline(i) for i in p.items])
        if p.kind == "elem" and isinstance(p.type, tuple) and p.type[0] == "ref":
            return Particle("elem", p.min, p.max, name=p.name, type=self.global_elems.get(p.name))
        return p

    def _index_elements(self):
        for clark, t in self.global_elems.items():
            self.elem_decls.setdefault(clark, set()).add(t)
        for q in list(self.ctypes):
            m = self.model(q)
            if m is None:
                continue
            for e in self.iter_elems(m):
                if e.type is not None:
                    self.elem_decls.setdefault(e.name, set()).add(e.type)
                self.elem_parents.setdefault(e.name, set()).add(q)

    def iter_elems(self, p):
        if p.kind == "elem":
            yield p
        elif p.kind in ("seq", "choice", "all"):
            for i in p.items:
                yield from self.iter_elems(i)

    def child_type(self, qname, clark):
        """Type of child element `clark` in the content model of `qname` (None if not a child)."""
        m = self.model(qname)
        if m is None:
            return None
        for e in self.iter_elems(m):
            if e.name == clark:
                return e.type
        return None

    def has_any(self, qname):
        m = self.model(qname)
        return m is not None and self._has_any(m)

    def _has_any(self, p):
        if p.kind == "any":
            return True
        return any(self._has_any(i) for i in p.items) if p.items else False

    def alphabet(self, qname):
        m = self.model(qname)
        if m is None:
            return []
        seen, out = set(), []
        for e in self.iter_elems(m):
            if e.name not in seen:
                seen.add(e.name)
                out.append(e.name)
        return out

    def single_occurrence(self, qname):
        m = self.model(qname)
        if m is None:
            return True
        names = [e.name for e in self.iter_elems(m)]
        return len(names) == len(set(names))

    def pfx(self, clark):
        if not clark.startswith("{"):
            return clark
        ns, l = clark[1:].split("}")
        p = self.pfx_of.get(ns)
        return "%s:%s" % (p, l) if p else clark

    def tname(self, q):
        if q is None:
            return "?"
        p = self.pfx_of.get(q[0], "xsd" if q[0] == XS else "?")
        return "%s:%s" % (p, q[1])

    # -- automata --------------------------------------------------------------------------------
    def automaton(self, qname, optional=frozenset(), relaxed=False):
        key = (qname, frozenset(optional), relaxed)
        if key not in self._auto:
            m = self.model(qname)
            if m is not None and m.kind == "all" and all(i.kind == "elem" and i.max == 1 for i in m.items) \
                    and (m.min, m.max) == (1, 1):
                self._auto[key] = AllAutomaton(m, optional=optional, relaxed=relaxed)
            else:
                self._auto[key] = Automaton(m, optional=optional, relaxed=relaxed)
        return self._auto[key]

    # -- simple types ------------------------------------------------------------------------------
    def st_chain(self, q):
        """Restriction chain [q, base, base-of-base ...] ending at an xsd primitive qname."""
        out = []
        seen = set()
        while q is not None and q not in seen:
            seen.add(q)
            out.append(q)
            st = self.stypes.get(q)
            if st is None:
                break
            q = st.base
        return out

    def st_primitive(self, q):
        ch = self.st_chain(q)
        last = ch[-1] if ch else None
        return last[1] if last and last[0] == XS else None

    def st_enums(self, q):
        """Effective enumeration (nearest in the restriction chain) or None; unions: union of members."""
        st = self.stypes.get(q)
        if st is None:
            return None
        if st.union is not None:
            vals = []
            for m in st.union:
                e = self.st_enums(m)
                if e is None:
                    return None
                vals.extend(e)
            return vals
        if st.enums is not None:
            return list(st.enums)
        return self.st_enums(st.base) if st.base else None

    def st_bounds(self, q):
        """(lo, lo_open, hi, hi_open) as Fractions/None from the facet chain (tightest)."""
        lo = hi = None
        lo_open = hi_open = False
        for t in self.st_chain(q):
            st = self.stypes.get(t)
            if st is None:
                lo2, hi2 = _PRIM_BOUNDS.get(t[1], (None, None)) if t[0] == XS else (None, None)
                f = {}
                if lo2 is not None:
                    f["minInclusive"] = str(lo2)
                if hi2 is not None:
                    f["maxInclusive"] = str(hi2)
            else:
                f = st.facets
            for k, v in f.items():
                if k == "minInclusive":
                    x = Fraction(v)
                    if lo is None or x > lo:
                        lo, lo_open = x, False
                elif k == "minExclusive":
                    x = Fraction(v)
                    if lo is None or x >= lo:
                        lo, lo_open = x, True
                elif k == "maxInclusive":
                    x = Fraction(v)
                    if hi is None or x < hi:
                        hi, hi_open = x, False
                elif k == "maxExclusive":
                    x = Fraction(v)
                    if hi is None or x <= hi:
                        hi, hi_open = x, True
        return lo, lo_open, hi, hi_open

    def st_patterns(self, q):
        out = []
        for t in self.st_chain(q):
            st = self.stypes.get(t)
            if st and "pattern" in st.facets:
                out.append(st.facets["pattern"])
        return out

    def st_union_members(self, q):
        st = self.stypes.get(q)
        if st is None:
            return None
        if st.union is not None:
            return list(st.union)
        if st.base:
            return self.st_union_members(st.base)
        return None


_PRIM_BOUNDS = {
    "int": (-(2 ** 31), 2 ** 31 - 1),
    "unsignedInt": (0, 2 ** 32 - 1),
    "long": (-(2 ** 63), 2 ** 63 - 1),
    "unsignedLong": (0, 2 ** 64 - 1),
    "short": (-(2 ** 15), 2 ** 15 - 1),
    "unsignedShort": (0, 2 ** 16 - 1),
    "byte": (-128, 127),
    "unsignedByte": (0, 255),
    "nonNegativeInteger": (0, None),
    "positiveInteger": (1, None),
}

INTEGER_PRIMS = {"int", "unsignedInt", "long", "unsignedLong", "short", "unsignedShort", "byte",
                 "unsignedByte", "integer", "nonNegativeInteger", "positiveInteger"}


class Automaton:
    """ε-NFA from a content model, simulated with lazily built DFA states (frozensets)."""

    def __init__(self, model, optional=frozenset(), relaxed=False):
        self.optional = optional
        self.relaxed = relaxed
        self.eps = {}
        self.trans = {}  # state -> list[(sym, state)]
        self.n = 0
        self.symbols = []
        self.unbounded_repeat = False
        s = self._new()
        f = self._new()
        if model is not None:
            self._build(model, s, f)
        else:
            self._e(s, f)
        self.start_nfa, self.final_nfa = s, f
        self._closure_cache = {}
        self.start = self._close(frozenset([s]))
        self._dfa = {}

    def _new(self):
        self.n += 1
        return self.n - 1

    def _e(self, a, b):
        self.eps.setdefault(a, []).append(b)

    def _t(self, a, sym, b):
        self.trans.setdefault(a, []).append((sym, b))
        if sym not in self.symbols:
            self.symbols.append(sym)

    def _build_once(self, p, s, f):
        if p.kind == "elem":
            self._t(s, p.name, f)
        elif p.kind == "any":
            self._t(s, ANY, f)
        elif p.kind == "seq":
            cur = s
            for i, it in enumerate(p.items):
                nxt = f if i == len(p.items) - 1 else self._new()
                self._build(it, cur, nxt)
                cur = nxt
            if not p.items:
                self._e(s, f)
        elif p.kind == "choice":
            if not p.items:
                self._e(s, f)
            for it in p.items:
                self._build(it, s, f)
        elif p.kind == "all":
            # xsd:all — any order, each member at most its max (1); modelled exactly by permutation
            # expansion for small groups, else as a loop (over-approximation recorded by caller).
            items = p.items
            if len(items) <= 0:
                self._e(s, f)
            else:
                self._build_all(items, s, f)
        else:
            raise AnalysisError("unknown particle kind %s" % p.kind)

    def _build_all(self, items, s, f):
        # states are subsets of consumed members; bitmask encoded lazily
        n = len(items)
        if n > 16:
            raise AnalysisError("xsd:all with %d members" % n)
        req = 0
        for i, it in enumerate(items):
            if it.min > 0 and not self.relaxed and it.name not in self.optional:
                req |= 1 << i
        node = {0: s}
        # build on demand: BFS over subsets would be 2^n; n<=15 (coreProperties) -> 32768 states OK
        from collections import deque

        dq = deque([0])
        while dq:
            m = dq.popleft()
            st = node[m]
            if m & req == req:
                self._e(st, f)
            for i, it in enumerate(items):
                if m & (1 << i):
                    continue
                m2 = m | (1 << i)
                if m2 not in node:
                    node[m2] = self._new()
                    dq.append(m2)
                if it.kind == "elem":
                    self._t(st, it.name, node[m2])
                else:
                    self._build(it, st, node[m2])

    def _build(self, p, s, f):
        mn, mx = p.min, p.max
        if self.relaxed:
            mn = 0
        if p.kind == "elem" and p.name in self.optional:
            mn = 0
        if mx == 0:
            self._e(s, f)
            return
        cur = s
        for _ in range(mn):
            nxt = self._new()
            self._build_once(p, cur, nxt)
            cur = nxt
        if mx >= UNBOUNDED:
            # loop
            a = self._new()
            b = self._new()
            self._e(cur, a)
            self._build_once(p, a, b)
            self._e(b, a)
            self._e(a, f)
            self._e(b, f)
        else:
            extra = mx - mn
            if extra > 64:
                raise AnalysisError("occurrence bound %d too large to unroll" % mx)
            for _ in range(extra):
                nxt = self._new()
                self._e(cur, f)
                self._build_once(p, cur, nxt)
                cur = nxt
            self._e(cur, f)

    def _close(self, states):
        if states in self._closure_cache:
            return self._closure_cache[states]
        seen = set(states)
        st = list(states)
        while st:
            x = st.pop()
            for y in self.eps.get(x, ()):
                if y not in seen:
                    seen.add(y)
                    st.append(y)
        r = frozenset(seen)
        self._closure_cache[states] = r
        return r

    def step(self, state, sym):
        key = (state, sym)
        r = self._dfa.get(key)
        if r is None:
            nxt = set()
            for x in state:
                for s2, y in self.trans.get(x, ()):
                    if s2 == sym or s2 == ANY:
                        nxt.add(y)
            r = self._close(frozenset(nxt)) if nxt else frozenset()
            self._dfa[key] = r
        return r

    def is_final(self, state):
        return self.final_nfa in state

    def accepts(self, word):
        st = self.start
        for s in word:
            st = self.step(st, s)
            if not st:
                return False
        return self.is_final(st)

    def run(self, word, st=None):
        st = self.start if st is None else st
        for s in word:
            st = self.step(st, s)
            if not st:
                return st
        return st

    def live_symbols(self, state):
        out = []
        for x in state:
            for s2, _ in self.trans.get(x, ()):
                if s2 not in out:
                    out.append(s2)
        return out


class AllAutomaton:
    """Deterministic automaton for a top-level xsd:all of elements (each at most once, any order).
    State = frozenset of consumed names plus a liveness marker (so the dead state is the empty set)."""

    _LIVE = "\x00live"

    def __init__(self, model, optional=frozenset(), relaxed=False):
        self.names = [i.name for i in model.items]
        self.required = frozenset(
            i.name for i in model.items if i.min > 0 and not relaxed and i.name not in optional)
        self.symbols = list(self.names)
        self.start = frozenset([self._LIVE])

    def step(self, state, sym):
        if not state or sym not in self.names or sym in state:
            return frozenset()
        return state | {sym}

    def is_final(self, state):
        return bool(state) and self.required <= state

    def run(self, word, st=None):
        st = self.start if st is None else st
        for s in word:
            st = self.step(st, s)
            if not st:
                return st
        return st

    def accepts(self, word):
        return self.is_final(self.run(word))

    def live_symbols(self, state):
        return [n for n in self.names if n not in state] if state else []
