"""Engine A — program model of /repo/src/pptx built from `ast` only (nothing is imported).

Program: modules, import resolution, classes with C3 MRO, member classification, a constant
evaluator for class-body / module-level expressions.
"""

from __future__ import annotations

import ast
import os

from .report import AnalysisError


class Unknown:
    """Result of constant evaluation that could not be folded."""

    def __init__(self, why="", node=None):
        self.why = why
        self.node = node

    def __repr__(self):
        return "Unknown(%s)" % self.why

    def __bool__(self):
        return False


class EnumMember:
    def __init__(self, enum, name, value, xml, doc, line):
        self.enum = enum
        self.name = name
        self.value = value
        self.xml = xml
        self.doc = doc
        self.line = line

    def __repr__(self):
        return "%s.%s" % (self.enum, self.name)

    def __eq__(self, other):
        return isinstance(other, EnumMember) and (self.enum, self.name) == (other.enum, other.name)

    def __hash__(self):
        return hash((self.enum, self.name))


class ClassRef:
    """A reference to a repo class as a constant value (e.g. simple type in an attribute decl)."""

    def __init__(self, cls):
        self.cls = cls

    def __repr__(self):
        return "ClassRef(%s)" % self.cls.name


class CallValue:
    """A call expression with evaluated arguments, e.g. ZeroOrOne('a:x', successors=(...))."""

    def __init__(self, func, args, kwargs, node):
        self.func = func  # dotted name string
        self.args = args
        self.kwargs = kwargs
        self.node = node

    def __repr__(self):
        return "CallValue(%s,%r,%r)" % (self.func, self.args, self.kwargs)


class FuncInfo:
    def __init__(self, node, module, cls=None):
        self.node = node
        self.name = node.name
        self.module = module
        self.cls = cls
        self.decorators = [_dotted(d.func if isinstance(d, ast.Call) else d) for d in node.decorator_list]
        kind = "method" if cls else "function"
        for d in self.decorators:
            if d in ("property",):
                kind = "property"
            elif d in ("lazyproperty",):
                kind = "lazyproperty"
            elif d and d.endswith(".setter"):
                kind = "setter"
            elif d and d.endswith(".deleter"):
                kind = "deleter"
            elif d == "staticmethod":
                kind = "staticmethod"
            elif d == "classmethod":
                kind = "classmethod"
        self.kind = kind

    @property
    def qualname(self):
        return "%s.%s" % (self.cls.name, self.name) if self.cls else self.name

    @property
    def fq(self):
        return "%s:%s" % (self.module.name, self.qualname)

    @property
    def file(self):
        return self.module.relpath

    @property
    def line(self):
        return self.node.lineno

    @property
    def docstring(self):
        return ast.get_docstring(self.node) or ""

    @property
    def params(self):
        a = self.node.args
        return [x.arg for x in a.posonlyargs + a.args]

    def __repr__(self):
        return "<Func %s>" % self.fq


class ClassInfo:
    def __init__(self, node, module):
        self.node = node
        self.name = node.name
        self.module = module
        self.base_exprs = node.bases
        self.bases = []  # resolved ClassInfo or str (external)
        self.methods = {}  # name -> FuncInfo (getter for properties)
        self.setters = {}  # name -> FuncInfo
        self.attrs = {}  # class-level assignments: name -> ast expr (last)
        self.attr_lines = {}
        self.annotations = {}  # name -> annotation expr
        self.body_assigns = []  # ordered (name, expr, node) incl. deletes (expr None)
        self._mro = None
        for st in node.body:
            if isinstance(st, (ast.FunctionDef, ast.AsyncFunctionDef)):
                fi = FuncInfo(st, module, self)
                if fi.kind == "setter":
                    self.setters[st.name] = fi
                elif fi.kind == "deleter":
                    pass
                else:
                    self.methods[st.name] = fi
            elif isinstance(st, ast.Assign):
                for t in st.targets:
                    if isinstance(t, ast.Name):
                        self.attrs[t.id] = st.value
                        self.attr_lines[t.id] = st.lineno
                        self.body_assigns.append((t.id, st.value, st))
            elif isinstance(st, ast.AnnAssign) and isinstance(st.target, ast.Name):
                self.annotations[st.target.id] = st.annotation
                if st.value is not None:
                    self.attrs[st.target.id] = st.value
                    self.attr_lines[st.target.id] = st.lineno
                    self.body_assigns.append((st.target.id, st.value, st))
            elif isinstance(st, ast.Delete):
                for t in st.targets:
                    if isinstance(t, ast.Name):
                        self.body_assigns.append((t.id, None, st))

    @property
    def fq(self):
        return "%s:%s" % (self.module.name, self.name)

    @property
    def file(self):
        return self.module.relpath

    @property
    def line(self):
        return self.node.lineno

    @property
    def docstring(self):
        return ast.get_docstring(self.node) or ""

    def __repr__(self):
        return "<Class %s>" % self.fq


class _AnchorMap(dict):
    """Definitions of one kind (classes / functions) of a module, by name.  Iteration and membership see what the module defines;
    `.get(name)` and `[name]` of a name the module does not define follow the module's import of that name (a definition moved
    to another module and re-exported), and, failing that, the one definition of that name in the program: the checks anchor
    their rules on definitions, and where a definition lives is not part of any rule."""

    def __init__(self, module, kind):
        super().__init__()
        self._module, self._kind = module, kind

    def _moved(self, name):
        prog = getattr(self._module, "program", None)
        if prog is None or not isinstance(name, str):
            return None
        want = ClassInfo if self._kind == "class" else FuncInfo
        if name in self._module.imports:
            try:
                r = prog.resolve(self._module, name)
            except Exception:  # noqa: BLE001
                r = None
            if isinstance(r, want):
                return r
        found = []
        for m in prog.modules.values():
            d = m.classes if self._kind == "class" else m.functions
            if dict.__contains__(d, name):
                found.append(dict.__getitem__(d, name))
        return found[0] if len(found) == 1 else None

    def get(self, name, default=None):
        if dict.__contains__(self, name):
            return dict.__getitem__(self, name)
        r = self._moved(name)
        return default if r is None else r

    def __missing__(self, name):
        r = self._moved(name)
        if r is None:
            raise KeyError(name)
        return r


class Module:
    def __init__(self, name, path, relpath, src):
        self.name = name
        self.path = path
        self.relpath = relpath
        self.src = src
        from .normalise import normalise

        self.tree = normalise(ast.parse(src, filename=path))
        self.imports = {}  # local name -> ("mod", modname) | ("attr", modname, attr)
        self.classes = _AnchorMap(self, "class")
        self.functions = _AnchorMap(self, "function")
        self.assigns = {}  # module-level name -> expr
        self.is_pkg = os.path.basename(path) == "__init__.py"
        for n in ast.walk(self.tree):
            if isinstance(n, ast.Import):
                for a in n.names:
                    if a.asname:
                        self.imports[a.asname] = ("mod", a.name)
                    else:
                        self.imports[a.name.split(".")[0]] = ("mod", a.name.split(".")[0])
            elif isinstance(n, ast.ImportFrom):
                base = n.module or ""
                if n.level:
                    pkg = name.split(".")
                    if not self.is_pkg:
                        pkg = pkg[:-1]
                    pkg = pkg[: len(pkg) - (n.level - 1)]
                    base = ".".join(pkg + ([n.module] if n.module else []))
                for a in n.names:
                    self.imports[a.asname or a.name] = ("attr", base, a.name)
        self._collect(self.tree.body)

    def _collect(self, body):
        for st in body:
            if isinstance(st, ast.ClassDef):
                self.classes[st.name] = ClassInfo(st, self)
            elif isinstance(st, (ast.FunctionDef, ast.AsyncFunctionDef)):
                self.functions[st.name] = FuncInfo(st, self)
            elif isinstance(st, ast.Assign):
                for t in st.targets:
                    if isinstance(t, ast.Name):
                        self.assigns[t.id] = st.value
            elif isinstance(st, ast.AnnAssign) and isinstance(st.target, ast.Name) and st.value is not None:
                self.assigns[st.target.id] = st.value
            elif isinstance(st, (ast.If, ast.Try)):
                # module-level conditionals (TYPE_CHECKING, try/except ImportError)
                self._collect(st.body)
                if isinstance(st, ast.If):
                    self._collect(st.orelse)
                else:
                    for h in st.handlers:
                        self._collect(h.body)


def _dotted(node):
    if isinstance(node, ast.Name):
        return node.id
    if isinstance(node, ast.Attribute):
        b = _dotted(node.value)
        return "%s.%s" % (b, node.attr) if b else None
    return None


dotted = _dotted


_PURE_BUILTINS = {"sorted": sorted, "min": min, "max": max, "sum": sum, "abs": abs, "bool": bool, "any": any, "all": all,
                  "range": lambda *a: tuple(range(*a)) if len(range(*a)) <= 5000 else (_ for _ in ()).throw(ValueError("range too long")),
                  "enumerate": lambda *a: tuple(enumerate(*a)), "zip": lambda *a: tuple(zip(*a)), "reversed": lambda a: tuple(reversed(a)),
                  "divmod": divmod, "round": round, "ord": ord, "chr": chr, "repr": repr,
                  "itertools.chain": lambda *a: tuple(x for it in a for x in it), "chain": lambda *a: tuple(x for it in a for x in it),
                  "re.escape": lambda s_: __import__("re").escape(s_), "hex": hex, "frozenset": frozenset}
_PURE_FUNCS_BY_NAME = {"re.escape": lambda s_: __import__("re").escape(s_), "str": str, "chr": chr, "ord": ord, "int": int, "float": float,
                       "len": len, "abs": abs, "str.lower": str.lower, "str.upper": str.upper, "hex": hex, "repr": repr}
_PURE_METHODS = {"index", "count", "lower", "upper", "strip", "lstrip", "rstrip", "split", "rsplit", "join", "format", "replace",
                 "startswith", "endswith", "get", "keys", "values", "items", "find", "rfind", "partition", "rpartition", "title",
                 "capitalize", "zfill", "isdigit", "isalpha", "union", "intersection", "difference", "copy", "splitlines", "encode"}


class Program:
    def __init__(self, repo, pkg="pptx"):
        self.repo = os.path.abspath(repo)
        self.root = os.path.join(self.repo, "src", pkg)
        if not os.path.isdir(self.root):
            raise AnalysisError("source root %s not found" % self.root)
        self.modules = {}
        for dp, dn, fn in os.walk(self.root):
            dn[:] = sorted(d for d in dn if d != "__pycache__")
            for f in sorted(fn):
                if not f.endswith(".py"):
                    continue
                path = os.path.join(dp, f)
                rel = os.path.relpath(path, self.root)
                parts = rel[:-3].split(os.sep)
                if parts[-1] == "__init__":
                    parts = parts[:-1]
                name = ".".join([pkg] + parts)
                with open(path, encoding="utf-8") as fh:
                    src = fh.read()
                try:
                    self.modules[name] = Module(name, path, os.path.relpath(path, self.repo), src)
                except SyntaxError as e:
                    raise AnalysisError("cannot parse %s: %s" % (path, e))
        for m_ in self.modules.values():
            m_.program = self
        self._resolve_bases()
        self._nsmap = None
        self._enum_cache = {}
        self._subclasses = None

    # -- name resolution -------------------------------------------------------------------------
    def resolve(self, module, name, _seen=None):
        """Resolve a (possibly dotted) name in `module` to ClassInfo | FuncInfo | Module |
        ("expr", module, ast) | ("ext", dotted) | None."""
        _seen = _seen or set()
        key = (module.name, name)
        if key in _seen:
            return None
        _seen.add(key)
        head, _, rest = name.partition(".")
        tgt = None
        if head in module.classes:
            tgt = module.classes[head]
        elif head in module.functions:
            tgt = module.functions[head]
        elif head in module.assigns:
            v = module.assigns[head]
            if isinstance(v, (ast.Name, ast.Attribute)) and _dotted(v):
                tgt = self.resolve(module, _dotted(v), _seen) or ("expr", module, v)
            else:
                tgt = ("expr", module, v)
        elif head in module.imports:
            imp = module.imports[head]
            if imp[0] == "mod":
                tgt = self.modules.get(imp[1]) or ("ext", imp[1])
            else:
                m = self.modules.get(imp[1])
                if m is None:
                    tgt = ("ext", "%s.%s" % (imp[1], imp[2]))
                else:
                    sub = self.modules.get("%s.%s" % (imp[1], imp[2]))
                    r = self.resolve(m, imp[2], _seen)
                    tgt = r if r is not None else sub
        else:
            return None
        while rest and tgt is not None:
            head, _, rest = rest.partition(".")
            if isinstance(tgt, Module):
                sub = self.modules.get("%s.%s" % (tgt.name, head))
                r = self.resolve(tgt, head, _seen)
                tgt = r if r is not None else sub
            elif isinstance(tgt, ClassInfo):
                m = self.lookup(tgt, head)
                if m is not None:
                    tgt = m
                else:
                    a = self.lookup_attr(tgt, head)
                    tgt = ("expr", a[0].module, a[1], a[0]) if a else None
            elif isinstance(tgt, tuple) and tgt[0] == "ext":
                tgt = ("ext", tgt[1] + "." + head)
            else:
                return None
        return tgt

    def _resolve_bases(self):
        for m in self.modules.values():
            for c in m.classes.values():
                c.bases = []
                for b in c.base_exprs:
                    if isinstance(b, ast.Subscript):
                        b = b.value
                    d = _dotted(b)
                    r = self.resolve(m, d) if d else None
                    if isinstance(r, ClassInfo):
                        c.bases.append(r)
                    else:
                        c.bases.append(d or "?")

    def mro(self, cls):
        if cls._mro is not None:
            return cls._mro
        seqs = []
        for b in cls.bases:
            if isinstance(b, ClassInfo):
                seqs.append(list(self.mro(b)))
        seqs.append([b for b in cls.bases if isinstance(b, ClassInfo)])
        res = [cls]
        seqs = [s for s in seqs if s]
        while seqs:
            for s in seqs:
                cand = s[0]
                if not any(cand in t[1:] for t in seqs):
                    break
            else:
                raise AnalysisError("inconsistent MRO for %s" % cls.name)
            res.append(cand)
            for s in seqs:
                if s and s[0] is cand:
                    del s[0]
            seqs = [s for s in seqs if s]
        cls._mro = res
        return res

    def ext_bases(self, cls):
        out = set()
        for c in self.mro(cls):
            for b in c.bases:
                if not isinstance(b, ClassInfo):
                    out.add(b)
        return out

    def is_subclass(self, cls, name):
        return any(c.name == name for c in self.mro(cls))

    def lookup(self, cls, name, after=None):
        """Method/property getter `name` through the MRO (optionally after class `after`)."""
        mro = self.mro(cls)
        if after is not None and after in mro:
            mro = mro[mro.index(after) + 1:]
        for c in mro:
            if name in c.methods:
                return c.methods[name]
        return None

    def lookup_setter(self, cls, name):
        for c in self.mro(cls):
            if name in c.setters:
                return c.setters[name]
            if name in c.methods:
                return None
        return None

    def lookup_attr(self, cls, name):
        for c in self.mro(cls):
            if name in c.attrs:
                return (c, c.attrs[name])
        return None

    def all_classes(self):
        for m in self.modules.values():
            for c in m.classes.values():
                yield c

    def all_functions(self):
        for m in self.modules.values():
            for f in m.functions.values():
                yield f
            for c in m.classes.values():
                for f in c.methods.values():
                    yield f
                for f in c.setters.values():
                    yield f

    def classes_named(self, name):
        return [c for c in self.all_classes() if c.name == name]

    def _anywhere(self, kind, name):
        """the one definition of `name` in the program (a module that was split or renamed takes its definitions along)"""
        found = [dict.__getitem__(d, name) for m in self.modules.values()
                 for d in [m.classes if kind == "class" else m.functions] if dict.__contains__(d, name)]
        return found[0] if len(found) == 1 else None

    def cls(self, modname, name):
        m = self.modules.get(modname)
        c = m.classes.get(name) if m is not None else self._anywhere("class", name)
        if c is None:
            raise AnalysisError("anchor vanished: class %s in %s" % (name, modname))
        return c

    def func(self, modname, qual):
        m = self.modules.get(modname)
        if "." in qual:
            c, f = qual.split(".")
            ci = m.classes.get(c) if m is not None else self._anywhere("class", c)
            if ci is None:
                raise AnalysisError("anchor vanished: class %s in %s" % (c, modname))
            fi = ci.methods.get(f) or self.lookup(ci, f)
            if fi is None:
                raise AnalysisError("anchor vanished: %s.%s in %s" % (c, f, modname))
            return fi
        fi = m.functions.get(qual) if m is not None else self._anywhere("function", qual)
        if fi is None:
            raise AnalysisError("anchor vanished: function %s in %s" % (qual, modname))
        return fi

    def subclasses(self, cls):
        if self._subclasses is None:
            self._subclasses = {}
            for c in self.all_classes():
                for a in self.mro(c)[1:]:
                    self._subclasses.setdefault(a, []).append(c)
        return self._subclasses.get(cls, [])

    # -- nsmap -----------------------------------------------------------------------------------
    @property
    def nsmap(self):
        if self._nsmap is None:
            m = self.modules.get("pptx.oxml.ns")
            if m is None or "_nsmap" not in m.assigns:
                raise AnalysisError("anchor vanished: pptx.oxml.ns._nsmap")
            v = self.const(m.assigns["_nsmap"], m)
            if not isinstance(v, dict):
                raise AnalysisError("pptx.oxml.ns._nsmap is not a literal dict")
            self._nsmap = v
        return self._nsmap

    def qn(self, tag):
        if ":" not in tag:
            return tag
        p, l = tag.split(":", 1)
        return "{%s}%s" % (self.nsmap[p], l)

    # -- enums -----------------------------------------------------------------------------------
    def enum_members(self, cls):
        """Members of a BaseEnum/BaseXmlEnum class body: list of EnumMember (in order)."""
        if cls in self._enum_cache:
            return self._enum_cache[cls]
        out = []
        for name, expr, node in cls.body_assigns:
            if expr is None or name.startswith("_"):
                continue
            v = self.const(expr, cls.module)
            if isinstance(v, tuple) and len(v) in (2, 3) and isinstance(v[0], int):
                if len(v) == 3:
                    out.append(EnumMember(cls.name, name, v[0], v[1], v[2], node.lineno))
                else:
                    out.append(EnumMember(cls.name, name, v[0], None, v[1], node.lineno))
        self._enum_cache[cls] = out
        return out

    def is_enum(self, cls):
        return any(c.name in ("BaseEnum", "BaseXmlEnum") for c in self.mro(cls)) and cls.name not in (
            "BaseEnum", "BaseXmlEnum")

    def is_xml_enum(self, cls):
        return any(c.name == "BaseXmlEnum" for c in self.mro(cls)) and cls.name != "BaseXmlEnum"

    # -- constant evaluation ---------------------------------------------------------------------
    def const(self, node, module, env=None, cls=None, depth=0):
        """Fold `node` to a Python value, EnumMember, ClassRef, CallValue or Unknown."""
        if depth > 40:
            return Unknown("depth")
        ev = lambda n: self.const(n, module, env, cls, depth + 1)  # noqa: E731
        if isinstance(node, ast.Constant):
            return node.value
        if isinstance(node, ast.Tuple):
            vs = []
            for e in node.elts:
                if isinstance(e, ast.Starred):
                    v = ev(e.value)
                    if isinstance(v, Unknown):
                        return v
                    vs.extend(v)
                else:
                    v = ev(e)
                    if isinstance(v, Unknown):
                        return v
                    vs.append(v)
            return tuple(vs)
        if isinstance(node, (ast.List, ast.Set)):
            vs = [ev(e) for e in node.elts]
            for v in vs:
                if isinstance(v, Unknown):
                    return v
            if isinstance(node, ast.Set):
                try:
                    return frozenset(vs)
                except TypeError:
                    return Unknown("unhashable set")
            return vs
        if isinstance(node, ast.Dict):
            d = {}
            for k, v in zip(node.keys, node.values):
                if k is None:
                    sub = ev(v)
                    if not isinstance(sub, dict):
                        return Unknown("dict splat")
                    d.update(sub)
                    continue
                kk, vv = ev(k), ev(v)
                if isinstance(kk, Unknown):
                    return kk
                try:
                    d[kk] = vv
                except TypeError:
                    return Unknown("unhashable key")
            return d
        if isinstance(node, ast.Name):
            if env is not None and node.id in env:
                return env[node.id]
            if node.id in ("True", "False", "None"):
                return {"True": True, "False": False, "None": None}[node.id]
            if cls is not None:
                a = self.lookup_attr(cls, node.id)
                if a:
                    return self.const(a[1], a[0].module, None, a[0], depth + 1)
            r = self.resolve(module, node.id)
            return self._const_of_target(r, depth, node)
        if isinstance(node, ast.Attribute):
            d = _dotted(node)
            if d:
                head = d.split(".")[0]
                if env is not None and head in env:
                    # a local alias of a class (`XL_CT = XL_CHART_TYPE`): enum members and class constants through it
                    hv = env[head]
                    if isinstance(hv, ClassRef) and d.count(".") == 1:
                        if self.is_enum(hv.cls):
                            for m in self._enum_members_mro(hv.cls):
                                if m.name == node.attr:
                                    return m
                        a = self.lookup_attr(hv.cls, node.attr)
                        if a:
                            return self.const(a[1], a[0].module, None, a[0], depth + 1)
                    return Unknown("attr of env value", node)
                if head in ("self", "cls") and cls is not None:
                    a = self.lookup_attr(cls, d.split(".", 1)[1]) if d.count(".") == 1 else None
                    if a:
                        return self.const(a[1], a[0].module, None, a[0], depth + 1)
                    return Unknown("self attr", node)
                r = self.resolve(module, d)
                if r is None:
                    # Enum member: X.MEMBER where X resolves to an enum class
                    base = self.resolve(module, d.rsplit(".", 1)[0])
                    if isinstance(base, ClassInfo) and self.is_enum(base):
                        for m in self._enum_members_mro(base):
                            if m.name == node.attr:
                                return m
                    return Unknown("unresolved %s" % d, node)
                if isinstance(r, tuple) and r[0] == "expr" and len(r) == 4 and self.is_enum(r[3]):
                    for m in self._enum_members_mro(r[3]):
                        if m.name == node.attr:
                            return m
                return self._const_of_target(r, depth, node)
            return Unknown("attribute", node)
        if isinstance(node, ast.BinOp):
            l, r = ev(node.left), ev(node.right)
            if isinstance(l, Unknown):
                return l
            if isinstance(r, Unknown):
                return r
            try:
                if isinstance(node.op, ast.Add):
                    return l + r
                if isinstance(node.op, ast.Sub):
                    return l - r
                if isinstance(node.op, ast.Mult):
                    return l * r
                if isinstance(node.op, ast.Mod):
                    return l % r
                if isinstance(node.op, ast.Div):
                    return l / r
                if isinstance(node.op, ast.FloorDiv):
                    return l // r
                if isinstance(node.op, ast.Pow):
                    return l ** r
                if isinstance(node.op, ast.BitOr):
                    return l | r
            except Exception as e:  # noqa: BLE001
                return Unknown("binop %s" % e, node)
            return Unknown("binop", node)
        if isinstance(node, ast.UnaryOp):
            v = ev(node.operand)
            if isinstance(v, Unknown):
                return v
            try:
                if isinstance(node.op, ast.USub):
                    return -v
                if isinstance(node.op, ast.UAdd):
                    return +v
                if isinstance(node.op, ast.Not):
                    return not v
            except Exception:  # noqa: BLE001
                pass
            return Unknown("unary", node)
        if isinstance(node, ast.Subscript):
            v = ev(node.value)
            if isinstance(v, Unknown):
                return v
            s = node.slice
            try:
                if isinstance(s, ast.Slice):
                    lo = ev(s.lower) if s.lower else None
                    hi = ev(s.upper) if s.upper else None
                    st = ev(s.step) if s.step else None
                    if any(isinstance(x, Unknown) for x in (lo, hi, st)):
                        return Unknown("slice", node)
                    return v[lo:hi:st]
                i = ev(s)
                if isinstance(i, Unknown):
                    return i
                return v[i]
            except Exception as e:  # noqa: BLE001
                return Unknown("subscript %s" % e, node)
        if isinstance(node, ast.JoinedStr):
            parts = []
            for p in node.values:
                if isinstance(p, ast.Constant):
                    parts.append(str(p.value))
                elif isinstance(p, ast.FormattedValue):
                    v = ev(p.value)
                    if isinstance(v, Unknown) or not isinstance(v, (str, int, float)):
                        return Unknown("fstring", node)
                    parts.append(str(v))
            return "".join(parts)
        if isinstance(node, ast.Call):
            fn = _dotted(node.func)
            args = [ev(a) for a in node.args if not isinstance(a, ast.Starred)]
            if fn in ("qn",) and len(args) == 1 and isinstance(args[0], str):
                try:
                    return self.qn(args[0])
                except KeyError:
                    return Unknown("qn prefix", node)
            if fn == "nsdecls" and all(isinstance(a, str) for a in args):
                try:
                    return " ".join('xmlns:%s="%s"' % (p, self.nsmap[p]) for p in args)
                except KeyError:
                    return Unknown("nsdecls prefix", node)
            if fn in ("frozenset", "set", "tuple", "list") and len(args) == 1 and not isinstance(args[0], Unknown):
                try:
                    return {"frozenset": frozenset, "set": frozenset, "tuple": tuple, "list": list}[fn](args[0])
                except TypeError:
                    return Unknown("container", node)
            if fn in ("frozenset", "set", "tuple", "list", "dict") and not args and not node.keywords:
                return {"frozenset": frozenset(), "set": frozenset(), "tuple": (), "list": [], "dict": {}}[fn]
            if fn == "dict" and not args:
                return {k.arg: ev(k.value) for k in node.keywords if k.arg}
            if fn == "dict" and len(args) == 1 and not node.keywords:
                a0 = args[0]
                if isinstance(a0, dict):
                    return dict(a0)
                if isinstance(a0, (tuple, list)) and all(isinstance(x, (tuple, list)) and len(x) == 2 for x in a0):
                    try:
                        return {k_: v_ for k_, v_ in a0}
                    except TypeError:
                        return Unknown("dict of unhashable keys", node)
            if fn in ("int", "float", "str", "len") and len(args) == 1 and not isinstance(args[0], Unknown):
                try:
                    return {"int": int, "float": float, "str": str, "len": len}[fn](args[0])
                except Exception:  # noqa: BLE001
                    return Unknown("builtin", node)
            if fn == "cast" and len(node.args) == 2:
                return ev(node.args[1])

            def plain(v):
                if isinstance(v, (Unknown, CallValue)):
                    return False
                if isinstance(v, (tuple, list, frozenset)):
                    return all(plain(x) for x in v)
                if isinstance(v, dict):
                    return all(plain(x) for x in v.values())
                return True

            # map(<pure function>, <folded iterable>)
            if fn == "map" and len(node.args) == 2 and not node.keywords and _dotted(node.args[0]) in _PURE_FUNCS_BY_NAME:
                it_ = ev(node.args[1])
                if isinstance(it_, dict):
                    it_ = tuple(it_)
                if isinstance(it_, (tuple, list, str, frozenset)) and plain(it_):
                    try:
                        return tuple(_PURE_FUNCS_BY_NAME[_dotted(node.args[0])](x) for x in it_)
                    except Exception as e_:  # noqa: BLE001
                        return Unknown("map: %s" % e_, node)
            if fn == "dict.fromkeys" and len(args) in (1, 2) and not node.keywords and isinstance(args[0], (tuple, list, frozenset, dict)) \
                    and plain(args[0]):
                try:
                    ks_ = sorted(args[0], key=repr) if isinstance(args[0], frozenset) else list(args[0])
                    return dict.fromkeys(ks_, args[1] if len(args) == 2 else None)
                except TypeError:
                    return Unknown("dict.fromkeys", node)
            # pure builtins over folded values
            if fn in _PURE_BUILTINS and not node.keywords and args and all(plain(a) for a in args) \
                    and not any(isinstance(a, ast.Starred) for a in node.args):
                try:
                    r = _PURE_BUILTINS[fn](*args)
                    return r if not hasattr(r, "__next__") else tuple(r)
                except Exception as e:  # noqa: BLE001
                    return Unknown("builtin %s: %s" % (fn, e), node)
            # pure methods of folded str / tuple / list / dict values
            if isinstance(node.func, ast.Attribute) and node.func.attr in _PURE_METHODS and not node.keywords:
                recv = ev(node.func.value)
                if isinstance(recv, (str, tuple, list, dict, frozenset)) and plain(recv) and all(plain(a) for a in args) \
                        and hasattr(recv, node.func.attr):
                    try:
                        r = getattr(recv, node.func.attr)(*args)
                        if isinstance(r, type({}.keys())) or isinstance(r, type({}.values())) or isinstance(r, type({}.items())):
                            r = tuple(r)
                        return r
                    except Exception as e:  # noqa: BLE001
                        return Unknown("method %s: %s" % (node.func.attr, e), node)
            # repository helper whose value is one expression of its parameters (`def f(a, b): return E`)
            if fn and depth < 30 and not any(isinstance(a, ast.Starred) for a in node.args):
                tgt = self.resolve(module, fn) if "." not in fn or fn.split(".")[0] not in ("self", "cls") else None
                if isinstance(tgt, FuncInfo) and tgt.cls is None and not tgt.node.decorator_list:
                    body = [st for st in tgt.node.body if not (isinstance(st, ast.Expr) and isinstance(st.value, ast.Constant))]
                    a = tgt.node.args
                    # ... or a straight line of single-name bindings ending in one (`def table(): a = {..}; b = {..}; return {**a, **b}`)
                    straight = len(body) >= 1 and isinstance(body[-1], ast.Return) and body[-1].value is not None and all(
                        (isinstance(st, ast.Assign) and len(st.targets) == 1 and isinstance(st.targets[0], ast.Name))
                        or (isinstance(st, ast.AnnAssign) and isinstance(st.target, ast.Name) and st.value is not None) for st in body[:-1])
                    if straight and not (a.vararg or a.kwarg or a.kwonlyargs):
                        params = [x.arg for x in a.posonlyargs + a.args]
                        defaults = dict(zip(params[-len(a.defaults):], a.defaults)) if a.defaults else {}
                        kw = {k.arg: ev(k.value) for k in node.keywords if k.arg}
                        fenv, okp = {}, True
                        for i, pn in enumerate(params):
                            if i < len(args):
                                fenv[pn] = args[i]
                            elif pn in kw:
                                fenv[pn] = kw[pn]
                            elif pn in defaults:
                                fenv[pn] = self.const(defaults[pn], tgt.module, None, None, depth + 1)
                            else:
                                okp = False
                        if okp and all(not isinstance(v, Unknown) for v in fenv.values()):
                            for st in body[:-1]:
                                tn_ = st.targets[0].id if isinstance(st, ast.Assign) else st.target.id
                                fenv[tn_] = self.const(st.value, tgt.module, fenv, None, depth + 1)
                                if isinstance(fenv[tn_], Unknown):
                                    okp = False
                                    break
                        if okp and all(not isinstance(v, Unknown) for v in fenv.values()):
                            r = self.const(body[-1].value, tgt.module, fenv, None, depth + 1)
                            if not isinstance(r, Unknown):
                                return r
            if fn:
                kwargs = {k.arg: ev(k.value) for k in node.keywords if k.arg}
                return CallValue(fn, args, kwargs, node)
            return Unknown("call", node)
        if isinstance(node, (ast.GeneratorExp, ast.ListComp, ast.SetComp, ast.DictComp)):
            # comprehension over folded iterables
            out = []

            def bind(target, value, e2):
                if isinstance(target, ast.Name):
                    e2[target.id] = value
                    return True
                if isinstance(target, (ast.Tuple, ast.List)) and isinstance(value, (tuple, list)) and len(value) == len(target.elts):
                    return all(bind(t, v, e2) for t, v in zip(target.elts, value))
                return False

            def go(gi, e2):
                if len(out) > 2000:
                    return False
                if gi == len(node.generators):
                    if isinstance(node, ast.DictComp):
                        k, v = self.const(node.key, module, e2, cls, depth + 1), self.const(node.value, module, e2, cls, depth + 1)
                        if isinstance(k, Unknown) or isinstance(v, Unknown):
                            return False
                        out.append((k, v))
                    else:
                        v = self.const(node.elt, module, e2, cls, depth + 1)
                        if isinstance(v, Unknown):
                            return False
                        out.append(v)
                    return True
                g = node.generators[gi]
                it = self.const(g.iter, module, e2, cls, depth + 1)
                if isinstance(it, dict):
                    it = tuple(it)
                if not isinstance(it, (tuple, list, frozenset, str)):
                    return False
                for x in (sorted(it, key=repr) if isinstance(it, frozenset) else it):
                    e3 = dict(e2)
                    if not bind(g.target, x, e3):
                        return False
                    keep = True
                    for c in g.ifs:
                        t = self.const(c, module, e3, cls, depth + 1)
                        if isinstance(t, (Unknown, CallValue)):
                            return False
                        if not t:
                            keep = False
                            break
                    if keep and not go(gi + 1, e3):
                        return False
                return True

            if not go(0, dict(env or {})):
                return Unknown("comprehension", node)
            try:
                if isinstance(node, ast.DictComp):
                    return dict(out)
                if isinstance(node, ast.SetComp):
                    return frozenset(out)
                return out if isinstance(node, ast.ListComp) else tuple(out)
            except TypeError:
                return Unknown("comprehension value", node)
        if isinstance(node, ast.IfExp):
            t = ev(node.test)
            if isinstance(t, Unknown):
                return t
            return ev(node.body if t else node.orelse)
        if isinstance(node, ast.Compare) and len(node.ops) == 1:
            l, r = ev(node.left), ev(node.comparators[0])
            if isinstance(l, Unknown) or isinstance(r, Unknown):
                return Unknown("compare", node)
            op = node.ops[0]
            try:
                if isinstance(op, ast.Eq):
                    return l == r
                if isinstance(op, ast.NotEq):
                    return l != r
                if isinstance(op, ast.In):
                    return l in r
                if isinstance(op, ast.NotIn):
                    return l not in r
                if isinstance(op, ast.Lt):
                    return l < r
                if isinstance(op, ast.Gt):
                    return l > r
                if isinstance(op, ast.LtE):
                    return l <= r
                if isinstance(op, ast.GtE):
                    return l >= r
                if isinstance(op, ast.Is):
                    return l is r
                if isinstance(op, ast.IsNot):
                    return l is not r
            except Exception:  # noqa: BLE001
                pass
            return Unknown("compare", node)
        return Unknown(type(node).__name__, node)

    def _enum_members_mro(self, cls):
        out = []
        for c in self.mro(cls):
            out.extend(self.enum_members(c))
        return out

    def _const_of_target(self, r, depth, node):
        if r is None:
            return Unknown("unresolved", node)
        if isinstance(r, ClassInfo):
            return ClassRef(r)
        if isinstance(r, tuple) and r[0] == "expr":
            c = r[3] if len(r) == 4 else None
            return self.const(r[2], r[1], None, c, depth + 1)
        if isinstance(r, tuple) and r[0] == "ext":
            return Unknown("external %s" % r[1], node)
        return Unknown("target %r" % (r,), node)

    def class_body_values(self, cls):
        """Evaluate the class body's simple assignments in order (handles `_tag_seq` rebinding and
        `del`); returns list of (name, value, node)."""
        env = {}
        out = []
        for name, expr, node in cls.body_assigns:
            if expr is None:
                env.pop(name, None)
                continue
            v = self.const(expr, cls.module, env, None)
            if isinstance(v, Unknown) or isinstance(v, CallValue):
                # fall back to inherited class attributes for names not in env
                v2 = self.const(expr, cls.module, env, cls) if isinstance(v, Unknown) else v
                v = v2
            env[name] = v
            out.append((name, v, node))
        return out


def unpartial(prog, module, call):
    """`f(x)` where the module binds `f = functools.partial(F, a, k=v)` read as the call `F(a, x, k=v)` it makes; None otherwise."""
    if not (isinstance(call, ast.Call) and isinstance(call.func, ast.Name)):
        return None
    b = module.assigns.get(call.func.id) if module is not None and hasattr(module, "assigns") else None
    if isinstance(b, ast.Call) and (_dotted(b.func) or "") in ("partial", "functools.partial") and b.args \
            and not any(isinstance(a, ast.Starred) for a in b.args) and all(k.arg for k in b.keywords):
        new = ast.Call(func=b.args[0], args=list(b.args[1:]) + list(call.args), keywords=list(b.keywords) + list(call.keywords))
        return ast.copy_location(new, call)
    return None
