"""Branch-bound single-use values are written at their use.

    if c: g = A                      if c: S(A)
    else: g = B          ->          else: S(B)
    S(g)                             (g not read afterwards, S reads it once)

`A`, `B` must be expressions whose evaluation can be moved next to the rest of S without changing what happens: generator
expressions and comprehensions (lazy / self-contained), names, attribute chains, constants, lambdas, and calls to nothing.  S is one
simple statement (return / assignment / expression statement).  elif chains are followed; every leaf arm must consist of exactly the
one binding.  The rewrite is what lets the `return next(gen, default)` and loop-fusion rules see a search whose generator was
picked by a branch first.
"""
from __future__ import annotations

import ast
import copy


def _movable(e):
    if isinstance(e, (ast.GeneratorExp, ast.ListComp, ast.SetComp, ast.DictComp, ast.Lambda, ast.Constant, ast.Name)):
        return True
    if isinstance(e, ast.Attribute):
        return _movable(e.value)
    return False


def _leaf_bindings(st):
    """(names, [arm blocks]) when every leaf arm of the if / elif / else consists of `name = <movable>` bindings of the same set of
    names (one or several, each bound once per arm); else None"""
    if not st.orelse:
        return None
    arms = []

    def leaf(block):
        if len(block) == 1 and isinstance(block[0], ast.If):
            return collect(block[0])
        if block and all(isinstance(b, ast.Assign) and len(b.targets) == 1 and isinstance(b.targets[0], ast.Name) and _movable(b.value) for b in block):
            names = [b.targets[0].id for b in block]
            if len(set(names)) == len(names) and not any(_loads(b.value, n) for b in block for n in names):
                arms.append(block)
                return True
        return False

    def collect(n):
        return bool(n.orelse) and leaf(n.body) and leaf(n.orelse)

    if not collect(st):
        return None
    sets = {frozenset(b.targets[0].id for b in block) for block in arms}
    return (sorted(next(iter(sets))), arms) if len(sets) == 1 else None


def _loads(node, name):
    return sum(1 for x in ast.walk(node) if isinstance(x, ast.Name) and x.id == name and isinstance(x.ctx, ast.Load))


def _stores(node, name):
    return sum(1 for x in ast.walk(node) if isinstance(x, ast.Name) and x.id == name and isinstance(x.ctx, (ast.Store, ast.Del)))


def sink_block(stmts, fnode):
    out = []
    i = 0
    stmts = list(stmts)
    while i < len(stmts):
        st = stmts[i]
        for fld in ("body", "orelse", "finalbody"):
            b = getattr(st, fld, None)
            if isinstance(b, list) and b and isinstance(b[0], ast.stmt) and not isinstance(st, (ast.FunctionDef, ast.AsyncFunctionDef, ast.ClassDef)):
                setattr(st, fld, sink_block(b, fnode))
        for h in getattr(st, "handlers", []) or []:
            h.body = sink_block(h.body, fnode)
        if isinstance(st, ast.If) and i + 1 < len(stmts):
            lb = _leaf_bindings(st)
            nxt = stmts[i + 1]
            if lb is not None and isinstance(nxt, (ast.Return, ast.Assign, ast.Expr, ast.AnnAssign)):
                names, arms = lb
                ok = True
                for name in names:
                    later = sum(_loads(s_, name) for s_ in stmts[i + 2:])
                    # the name lives only here: bound in the arms, read once by the next statement
                    if not (_loads(nxt, name) == 1 and later == 0 and _loads(fnode, name) == 1 and _stores(fnode, name) == len(arms)
                            and _stores(nxt, name) == 0):
                        ok = False
                    if any(isinstance(x, (ast.Lambda, ast.GeneratorExp, ast.ListComp, ast.SetComp, ast.DictComp)) and _loads(x, name)
                           and not _is_iter_position(nxt, x, name) for x in ast.walk(nxt)):
                        ok = False
                if ok:
                    for block in arms:
                        vals = {b.targets[0].id: b.value for b in block}

                        class S(ast.NodeTransformer):
                            def visit_Name(self, x):
                                return copy.deepcopy(vals[x.id]) if x.id in vals and isinstance(x.ctx, ast.Load) else x
                        new_st = ast.copy_location(S().visit(copy.deepcopy(nxt)), block[0])
                        ast.fix_missing_locations(new_st)
                        block[:] = [new_st]
                    out.append(st)
                    i += 2
                    continue
        out.append(st)
        i += 1
    return out


def _is_iter_position(root, comp, name):
    """`name` occurs in `comp` only as the outermost iterable (evaluated where the comprehension is written, not deferred)"""
    gens = getattr(comp, "generators", None)
    if not gens:
        return False
    first = gens[0].iter
    inside = _loads(comp, name)
    return inside == _loads(first, name)


def sink(fnode):
    """fnode rewritten in place (body blocks); returns it"""
    fnode.body = sink_block(fnode.body, fnode)
    return fnode
