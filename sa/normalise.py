"""Load-time normalisation of every module: surface variants that carry no meaning are brought to one form before any rule
looks at the tree, so that a rule calibrated on one spelling is not surprised by the other.  Each rewrite is semantics-preserving
and keeps the line number of the statement it came from.

  N1  `v = E` directly followed by `return v` (v not captured by a nested scope)              ->  `return E`
  N3  `return A if c else B` / `x = A if c else B`                                            ->  if c: ... else: ...   (then N2)
  N2  `if c: BODY else: REST` where BODY always leaves (return / raise / continue / break)   ->  `if c: BODY` ; REST

Disabled with VERIF_NO_NORMALISE=1 (used by the self-tests of this module only).
"""

from __future__ import annotations

import ast
import os


def _leaves(body):
    last = body[-1] if body else None
    if isinstance(last, (ast.Return, ast.Raise, ast.Continue, ast.Break)):
        return True
    if isinstance(last, ast.If) and last.orelse:
        return _leaves(last.body) and _leaves(last.orelse)
    return False


class _N(ast.NodeTransformer):
    def __init__(self):
        self.uses = [set()]

    def _split_ifexp(self, st):
        """N3: conditional expressions that select the returned / assigned value become statements"""
        if isinstance(st, ast.Return) and isinstance(st.value, ast.IfExp):
            v = st.value
            a = self._split_ifexp(ast.copy_location(ast.Return(value=v.body), st))
            b = self._split_ifexp(ast.copy_location(ast.Return(value=v.orelse), st))
            return ast.copy_location(ast.If(test=v.test, body=[a], orelse=[b]), st)
        if isinstance(st, ast.Assign) and len(st.targets) == 1 and isinstance(st.targets[0], ast.Name) and isinstance(st.value, ast.IfExp):
            v, t = st.value, st.targets[0]
            a = self._split_ifexp(ast.copy_location(ast.Assign(targets=[ast.Name(id=t.id, ctx=ast.Store())], value=v.body), st))
            b = self._split_ifexp(ast.copy_location(ast.Assign(targets=[ast.Name(id=t.id, ctx=ast.Store())], value=v.orelse), st))
            return ast.copy_location(ast.If(test=v.test, body=[a], orelse=[b]), st)
        return st

    def _block(self, stmts):
        vis = [self.visit(st) for st in stmts]
        # N1 first: `v = E; return v` -> `return E` (so that a conditional E is then split as a returned value)
        res = []
        i = 0
        while i < len(vis):
            st = vis[i]
            nxt = vis[i + 1] if i + 1 < len(vis) else None
            if isinstance(st, ast.Assign) and len(st.targets) == 1 and isinstance(st.targets[0], ast.Name) and isinstance(nxt, ast.Return) \
                    and isinstance(nxt.value, ast.Name) and nxt.value.id == st.targets[0].id and st.targets[0].id not in self.uses[-1]:
                res.append(ast.copy_location(ast.Return(value=st.value), nxt))
                i += 2
                continue
            res.append(st)
            i += 1
        out = []
        for st in res:
            st = self._split_ifexp(st)
            # N2
            if isinstance(st, ast.If) and st.orelse and _leaves(st.body):
                rest = st.orelse
                st.orelse = []
                out.append(st)
                out.extend(self._flatten(rest))
                continue
            out.append(st)
        return out

    def _flatten(self, stmts):
        # the statements of a dissolved else-arm may themselves start with a leaving if/else
        return self._block_no_visit(stmts)

    def _block_no_visit(self, stmts):
        out = []
        for st in stmts:
            if isinstance(st, ast.If) and st.orelse and _leaves(st.body):
                rest = st.orelse
                st.orelse = []
                out.append(st)
                out.extend(self._block_no_visit(rest))
            else:
                out.append(st)
        return out

    def generic_visit(self, node):
        for fld in ("body", "orelse", "finalbody"):
            b = getattr(node, fld, None)
            if isinstance(b, list) and b and isinstance(b[0], ast.stmt):
                setattr(node, fld, self._block(b))
        for h in getattr(node, "handlers", []) or []:
            h.body = self._block(h.body)
        return node

    def visit_FunctionDef(self, node):
        # names that must keep their binding: read from nested scopes (closures), global / nonlocal
        cnt = set()
        for x in ast.walk(node):
            if isinstance(x, (ast.FunctionDef, ast.AsyncFunctionDef, ast.Lambda)) and x is not node:
                # free names of the nested scope: read there but neither assigned nor a parameter there
                bound = {a.arg for a in x.args.args + x.args.posonlyargs + x.args.kwonlyargs}
                body_ = x.body if isinstance(x.body, list) else [x.body]
                for b_ in body_:
                    for y in ast.walk(b_):
                        if isinstance(y, ast.Name) and isinstance(y.ctx, (ast.Store, ast.Del)):
                            bound.add(y.id)
                for b_ in body_:
                    for y in ast.walk(b_):
                        if isinstance(y, ast.Name) and y.id not in bound:
                            cnt.add(y.id)
            elif isinstance(x, (ast.Global, ast.Nonlocal)):
                cnt.update(x.names)
        self.uses.append(cnt)
        node.body = self._block(node.body)
        self.uses.pop()
        return node

    visit_AsyncFunctionDef = visit_FunctionDef

    def visit_ClassDef(self, node):
        node.body = [self.visit(st) for st in node.body]
        return node

    def visit_Module(self, node):
        node.body = [self.visit(st) if isinstance(st, (ast.FunctionDef, ast.AsyncFunctionDef, ast.ClassDef)) else st for st in node.body]
        return node


def normalise(tree):
    if os.environ.get("VERIF_NO_NORMALISE"):
        return tree
    return _N().visit(tree)
