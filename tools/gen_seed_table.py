#!/venv/bin/python
"""Regenerate the seeded-change table of DESIGN.md (between the SEED-TABLE markers) from seeded/*/meta.json."""
import glob
import json
import os

HERE = os.path.dirname(os.path.dirname(os.path.abspath(__file__)))
BEGIN, END = "<!-- SEED-TABLE-BEGIN -->", "<!-- SEED-TABLE-END -->"


def main():
    rows = ["| seed | change | detected by |", "|---|---|---|"]
    n = 0
    for d in sorted(glob.glob(os.path.join(HERE, "seeded", "*"))):
        m = json.load(open(os.path.join(d, "meta.json")))
        n += 1
        ch = " ".join(m["change"].replace("|", "/").split())
        if len(ch) > 340:
            ch = ch[:337].rsplit(" ", 1)[0] + " ..."   # the full text is in seeded/<id>/meta.json
        rows.append("| %s | %s | %s |" % (m["id"], ch, " ".join(m["detected_by"].replace("|", "/").split())))
    p = os.path.join(HERE, "DESIGN.md")
    s = open(p).read()
    a, b = s.index(BEGIN) + len(BEGIN), s.index(END)
    s = s[:a] + "\n" + "\n".join(rows) + "\n" + s[b:]
    open(p, "w").write(s)
    print("seed table: %d rows" % n)


if __name__ == "__main__":
    main()
