"""C07 mutants."""

X = "src/pptx/chart/xmlwriter.py"

MUTANTS = [
    ("ser-child-order", "area chart series: c:val written before c:cat",
     [(X, '''                "{tx_xml}"
                "{cat_xml}"
                "{val_xml}"
                "        </c:ser>\\n"
            ).format(
                **{
                    "ser_idx": series.index,
                    "ser_order": series.index,
                    "tx_xml": xml_writer.tx_xml,
                    "cat_xml": xml_writer.cat_xml,
                    "val_xml": xml_writer.val_xml,
                }
            )
        return xml


class _BarChartXmlWriter''', '''                "{tx_xml}"
                "{val_xml}"
                "{cat_xml}"
                "        </c:ser>\\n"
            ).format(
                **{
                    "ser_idx": series.index,
                    "ser_order": series.index,
                    "tx_xml": xml_writer.tx_xml,
                    "cat_xml": xml_writer.cat_xml,
                    "val_xml": xml_writer.val_xml,
                }
            )
        return xml


class _BarChartXmlWriter''')],
     "R7.1 _AreaChartXmlWriter"),
    ("bar-grouping-token", "bar chart grouping token misspelt for one chart type",
     [(X, '            XL_CHART_TYPE.AREA_STACKED_100: "percentStacked",', '            XL_CHART_TYPE.AREA_STACKED_100: "percentStack",')],
     "R7.1 _AreaChartXmlWriter"),
    ("twin-drift", "val_xml twin loses the formatCode element",
     [(X, '''        return self._val_tmpl.format(
            **{
                "nsdecls": "",
                "values_ref": self._series.values_ref,
                "number_format": escape(self._series.number_format),''', '''        return self._val_tmpl.replace("                <c:formatCode>{number_format}</c:formatCode>\\n", "").format(
            **{
                "nsdecls": "",
                "values_ref": self._series.values_ref,
                "number_format": escape(self._series.number_format),''')],
     "ANALYSIS"),
    ("twin-different-source", "tx element twin takes the name from a different attribute than tx_xml",
     [(X, '''                "wksht_ref": self._series.name_ref,
                "series_name": self.name,
                "nsdecls": " %s" % nsdecls("c"),''', '''                "wksht_ref": self._series.values_ref,
                "series_name": self.name,
                "nsdecls": " %s" % nsdecls("c"),''')],
     "R7.2 _BaseSeriesXmlWriter.tx"),
    ("rewriter-unpaired", "XY rewriter removes yVal but does not re-insert it",
     [(X, "        ser._insert_yVal(xml_writer.yVal)\n        ser._insert_bubbleSize(xml_writer.bubbleSize)\n",
       "        ser._insert_bubbleSize(xml_writer.bubbleSize)\n")],
     "R7.3 _BubbleSeriesXmlRewriter"),
    ("rewriter-touches-format", "category rewriter also removes c:spPr",
     [(X, "        ser._remove_tx()\n        ser._remove_cat()\n        ser._remove_val()\n", "        ser._remove_tx()\n        ser._remove_cat()\n        ser._remove_val()\n        ser._remove_spPr()\n")],
     "R7.3 _CategorySeriesXmlRewriter"),
    ("order-from-constant", "line chart writes c:order from a constant",
     [(X, '''                    "ser_order": series.index,
                    "tx_xml": xml_writer.tx_xml,
                    "spPr_xml": self._spPr_xml,''', '''                    "ser_order": 0,
                    "tx_xml": xml_writer.tx_xml,
                    "spPr_xml": self._spPr_xml,''')],
     "R7.4 _XyChartXmlWriter"),
    ("next-idx-local", "next_idx looks only at the last plot",
     [("src/pptx/oxml/chart/chart.py", "        idx_vals = [s.idx.val for s in self.sers]", "        idx_vals = [s.idx.val for s in self.xCharts[-1].sers]")],
     "R7.4 CT_PlotArea.next_idx"),
    ("ptcount-off", "pt_xml announces one point more than it writes",
     [(X, ".format(pt_count=len(values))", ".format(pt_count=len(values) + 1)")],
     "R7.5"),
    ("ptcount-other-seq", "val ptCount counts the categories instead of the values",
     [(X, '''                "val_count": len(self._series),
                "val_pt_xml": self._val_pt_xml,
            }
        )
        return parse_xml(xml)''', '''                "val_count": len(self._series.categories),
                "val_pt_xml": self._val_pt_xml,
            }
        )
        return parse_xml(xml)''')],
     "R7.2 _CategorySeriesXmlWriter.val"),
    ("radar-extra-child", "radar chart gets a c:gapWidth child",
     [(X, '        <c:radarStyle val="{radar_style}"/>\\n', '        <c:radarStyle val="{radar_style}"/>\\n        <c:gapWidth val="1"/>\\n')],
     "R7.1 _RadarChartXmlWriter"),
]

MUTANTS += [
    ("next-order-from-last-series", "the next c:order value is the last series' order plus one",
     [("src/pptx/oxml/chart/chart.py", "        return max(order_vals) + 1", "        return self.last_ser.order.val + 1")],
     "R7.4 CT_PlotArea.next_order"),
]
