"""C20 mutants."""

MUTANTS = [
    ("token-typo", "PP_PARAGRAPH_ALIGNMENT.CENTER token misspelt",
     [("src/pptx/enum/text.py", 'CENTER = (2, "ctr", ', 'CENTER = (2, "center", ')],
     "R20.2 PP_PARAGRAPH_ALIGNMENT.CENTER"),
    ("token-duplicate", "MSO_VERTICAL_ANCHOR.MIDDLE given the token of TOP",
     [("src/pptx/enum/text.py", 'MIDDLE = (3, "ctr", ', 'MIDDLE = (3, "t", ')],
     "R20.1 MSO_VERTICAL_ANCHOR.TOP/MIDDLE:token"),
    ("value-duplicate-different-token", "XL_TICK_MARK.INSIDE given the integer of CROSS (becomes an alias, token lost)",
     [("src/pptx/enum/chart.py", 'INSIDE = (2, "in", ', 'INSIDE = (4, "in", ')],
     "R20.1 XL_TICK_MARK"),
    ("avlst-default-changed", "autoshape table: ARC adj2 default changed",
     [("src/pptx/spec.py", '"avLst": (("adj1", 16200000), ("adj2", 0))', '"avLst": (("adj1", 16200000), ("adj2", 1))')],
     "R20.3 row:ARC:avLst"),
    ("avlst-order-swapped", "autoshape table: FRAME / another shape guides swapped order",
     [("src/pptx/spec.py", '"avLst": (("adj1", 16667), ("adj2", 50000)),\n    },\n    MSO_SHAPE.U_TURN_ARROW', '"avLst": (("adj2", 50000), ("adj1", 16667)),\n    },\n    MSO_SHAPE.U_TURN_ARROW')],
     "R20.3 row:UP_RIBBON:avLst"),
    ("row-missing", "autoshape table: row for FUNNEL removed",
     [("src/pptx/spec.py", '    MSO_SHAPE.FUNNEL: {"basename": "Funnel", "avLst": ()},\n', "")],
     "R20.3 row:FUNNEL:missing"),
    ("shape-token-not-preset", "MSO_AUTO_SHAPE_TYPE.FUNNEL token is not a preset name",
     [("src/pptx/enum/shapes.py", '"funnel"', '"funel"')],
     "R20.2 MSO_AUTO_SHAPE_TYPE.FUNNEL"),
    ("string-enum-bad-token", "ST_BarDir.COL token not in schema enumeration",
     [("src/pptx/oxml/simpletypes.py", 'COL = "col"', 'COL = "column"')],
     "R20.2 ST_BarDir"),
    ("reader-by-name", "from_xml compares member name instead of xml_value",
     [("src/pptx/enum/base.py", "next((member for member in cls if member.xml_value == xml_value), None)",
       "next((member for member in cls if member.name == xml_value), None)")],
     "R20.1m BaseXmlEnum.from_xml"),
    ("prst-writer-wrong-enum", "AutoShapeType.prst written through the connector enumeration",
     [("src/pptx/shapes/autoshape.py", "        return MSO_AUTO_SHAPE_TYPE.to_xml(self._autoshape_type_id)",
       "        return MSO_CONNECTOR_TYPE.to_xml(self._autoshape_type_id)")],
     "R20.4 AutoShapeType.prst"),
    ("connector-token", "MSO_CONNECTOR_TYPE.ELBOW token not a schema shape type",
     [("src/pptx/enum/shapes.py", '"bentConnector3"', '"bentConnector"')],
     "R20.2 MSO_CONNECTOR_TYPE.ELBOW"),
]

PL = "src/pptx/chart/plot.py"
XW = "src/pptx/chart/xmlwriter.py"
MUTANTS += [
    ("inspector-line-swapped", "inspector maps line charts without markers to the marker types",
     [(PL, "                ST_Grouping.STANDARD: XL.LINE,\n", "                ST_Grouping.STANDARD: XL.LINE_MARKERS,\n")],
     "R20.5 chart-type LINE"),
    ("inspector-bar-dir", "inspector reads bar direction inverted",
     [(PL, "        if barChart.barDir.val == ST_BarDir.BAR:", "        if barChart.barDir.val == ST_BarDir.COL:"),
      (PL, "        if barChart.barDir.val == ST_BarDir.COL:\n            return {\n                ST_Grouping.CLUSTERED: XL.COLUMN_CLUSTERED", "        if barChart.barDir.val == ST_BarDir.BAR:\n            return {\n                ST_Grouping.CLUSTERED: XL.COLUMN_CLUSTERED")],
     "R20.5 chart-type BAR_CLUSTERED"),
    ("writer-radar-marker", "radar writer hides markers for RADAR_MARKERS instead of RADAR",
     [(XW, "        if self._chart_type == XL_CHART_TYPE.RADAR:\n            return (\n                \"          <c:marker>\\n\"", "        if self._chart_type == XL_CHART_TYPE.RADAR_MARKERS:\n            return (\n                \"          <c:marker>\\n\"")],
     "R20.5 chart-type RADAR"),
    ("inspector-bubble3d-default", "inspector treats a missing bubble3D as 3-D",
     [(PL, "        if bubble3D is None:\n            return XL.BUBBLE\n", "        if bubble3D is None:\n            return XL.BUBBLE_THREE_D_EFFECT\n"),
      (PL, "        if bubble3D.val:\n            return XL.BUBBLE_THREE_D_EFFECT\n        return XL.BUBBLE", "        if bubble3D.val:\n            return XL.BUBBLE\n        return XL.BUBBLE_THREE_D_EFFECT")],
     "R20.5 chart-type BUBBLE"),
    ("plotfactory-scatter", "scatter charts wrapped as line plots",
     [(PL, "            qn(\"c:scatterChart\"): XyPlot,", "            qn(\"c:scatterChart\"): LinePlot,")],
     "R20.5 chart-type XY_SCATTER"),
]

MUTANTS += [
    ("adjustments-only-adj-guides", "guides whose name does not contain 'adj' get no adjustment",
     [("src/pptx/shapes/autoshape.py", "        adjustments = [Adjustment(name, def_val) for name, def_val in davs]",
       "        adjustments = [Adjustment(name, def_val) for name, def_val in davs if \"adj\" in name]")],
     "R20.7 AdjustmentCollection._initialized_adjustments"),
]

MUTANTS += [
    ("from-xml-shared-memo", "from_xml answers from a module-level memo keyed by the token",
     [("src/pptx/enum/base.py", "        member = (\n            next((member for member in cls if member.xml_value == xml_value), None)\n            if xml_value\n            else None\n        )\n",
       "        member = _MEMO.get(xml_value) if xml_value else None\n        if member is None and xml_value:\n            member = next((member for member in cls if member.xml_value == xml_value), None)\n            if member is not None:\n                _MEMO[xml_value] = member\n"),
      ("src/pptx/enum/base.py", "class BaseEnum(", "_MEMO: dict = {}\n\n\nclass BaseEnum(")],
     "R20.1m BaseXmlEnum.from_xml"),
]
