"""C09 mutants."""

MUTANTS = [
    ("getter-other-attr", "_Paragraph.alignment getter reads lvl",
     [("src/pptx/text/text.py", "        return self._pPr.algn", "        return self._pPr.lvl")],
     "R9.1 _Paragraph.alignment"),
    ("setter-other-attr", "Font.italic setter writes @b",
     [("src/pptx/text/text.py", "        self._rPr.i = value", "        self._rPr.b = value")],
     "R9.1 Font.italic"),
    ("setter-other-child", "has_minor_gridlines setter toggles the major gridlines",
     [("src/pptx/chart/axis.py", "            self._element.get_or_add_minorGridlines()\n        else:\n            self._element._remove_minorGridlines()",
       "            self._element.get_or_add_majorGridlines()\n        else:\n            self._element._remove_majorGridlines()")],
     "R9.1 _BaseAxis.has_minor_gridlines"),
    ("scale-mismatch", "ST_Percentage read with factor 1/10000",
     [("src/pptx/oxml/simpletypes.py", "        return int(str_value) / 100000.0\n\n    @classmethod\n    def convert_to_xml(cls, value):\n        return str(int(round(value * 100000.0)))",
       "        return int(str_value) / 10000.0\n\n    @classmethod\n    def convert_to_xml(cls, value):\n        return str(int(round(value * 100000.0)))")],
     "R9.2 ST_Percentage"),
    ("angle-scale", "ST_Angle written in 1/6000 degree",
     [("src/pptx/oxml/simpletypes.py", "    DEGREE_INCREMENTS = 60000\n    THREE_SIXTY = 360 * DEGREE_INCREMENTS\n\n    @classmethod\n    def convert_from_xml(cls, str_value: str) -> float:\n        rot = int(str_value) % cls.THREE_SIXTY\n        return float(rot) / cls.DEGREE_INCREMENTS",
       "    DEGREE_INCREMENTS = 60000\n    THREE_SIXTY = 360 * DEGREE_INCREMENTS\n\n    @classmethod\n    def convert_from_xml(cls, str_value: str) -> float:\n        rot = int(str_value) % cls.THREE_SIXTY\n        return float(rot) / 6000")],
     "R9.2 ST_Angle"),
    ("adjustment-scale", "Adjustment denormalises with 10000",
     [("src/pptx/shapes/autoshape.py", "        return int(value * 100000.0)", "        return int(value * 10000.0)")],
     "R9.2 Adjustment"),
    ("default-differs", "CT_Transform2D.rot declared default 90.0",
     [("src/pptx/oxml/shapes/shared.py", '"rot", ST_Angle, default=0.0', '"rot", ST_Angle, default=90.0')],
     "R9.3 CT_Transform2D.rot"),
    ("bool-default-flipped", "c:overlay-like boolean default flipped: CT_Boolean default False while schema says true",
     [("src/pptx/oxml/chart/shared.py", '    val = OptionalAttribute("val", XsdBoolean, default=True)', '    val = OptionalAttribute("val", XsdBoolean, default=False)')],
     "R9.3 CT_Boolean.val"),
    ("wrong-exception", "ColorFormat.brightness refusal raises KeyError",
     [("src/pptx/dml/color.py", '            raise ValueError("brightness must be number in range -1.0 to 1.0")', '            raise KeyError("brightness must be number in range -1.0 to 1.0")')],
     "R9.4 ColorFormat.brightness"),
]

MUTANTS += [
    ("effective-value-truthiness", "inherited dimension chosen by truthiness",
     [("src/pptx/shapes/placeholder.py", "        if directly_applied_value is not None:\n            return directly_applied_value\n        return self._inherited_value(attr_name)",
       "        if directly_applied_value:\n            return directly_applied_value\n        return self._inherited_value(attr_name)")],
     "R9.5 _InheritsDimensions._effective_value"),
    ("rot-or-zero-element", "element chosen by truthiness",
     [("src/pptx/oxml/shapes/shared.py", "        prstDash = self.prstDash\n        if prstDash is None:\n            return None\n        return prstDash.val",
       "        prstDash = self.prstDash or self.custDash\n        if prstDash is None:\n            return None\n        return prstDash.val")],
     "R9.5 CT_LineProperties.prstDash_val"),
]

MUTANTS += [
    ("rel-reuse-case-folded", "an external relationship is reused for a target that differs in letter case",
     [("src/pptx/opc/package.py", "            if rel_target == target:\n                return rel.rId",
       "            if (rel_target.lower() == target.lower()) if rel.is_external else (rel_target == target):\n                return rel.rId")],
     "R9.6 _Relationships._get_matching"),
]

MUTANTS += [
    ("layout-mode-not-written", "the horizontal-offset setter only adds a missing c:xMode and never writes its value",
     [("src/pptx/oxml/chart/shared.py", "        self.get_or_add_xMode().val = ST_LayoutMode.FACTOR\n", "        if self.xMode is None:\n            self._add_xMode()\n")],
     "R9.7 Legend.horz_offset"),
]

MUTANTS += [
    ("underline-shorthand-by-table", "True / False are mapped to underline members through a table with pass-through default",
     [("src/pptx/text/text.py", "        if value is True:\n            value = MSO_UNDERLINE.SINGLE_LINE\n        elif value is False:\n            value = MSO_UNDERLINE.NONE\n        self._element.u = value",
       "        self._element.u = {True: MSO_UNDERLINE.SINGLE_LINE, False: MSO_UNDERLINE.NONE}.get(value, value)")],
     "R9.8 Font.underline:bool-shorthand"),
]
