"""Recognisers for small computations, written against the canonical form of a function (helpers inlined, locals substituted) so
that temporaries, list-vs-generator, extracted helpers and hoisted constants do not matter."""

from __future__ import annotations

import ast

from . import paths as P_
from .inline import expand
from .itersrc import source_of
from .pysrc import dotted
from .types import walk_own


def returned_exprs(prog, f, local_only=True, depth=2):
    """(canonical function, [returned expressions with single-assignment locals substituted])"""
    fx = expand(prog, f, depth=depth, local_only=local_only)
    val = P_.value_aliases(fx)
    val.pop("_", None)
    out = []
    for n in walk_own(fx):
        if isinstance(n, ast.Return) and n.value is not None:
            out.append(ast.parse(P_.full(n.value, val, depth=8), mode="eval").body)
    return fx, out


def join_reader(prog, f):
    """`SEP.join(<elt> for v in <source>)` (list or generator, directly or through a local): returns
    {"sep", "elt" (source of the element expression with the loop variable written `_`), "terminal", "filtered", "lossy"} or None."""
    fx, rets = returned_exprs(prog, f)
    if len(rets) != 1:
        return None
    v = rets[0]
    if not (isinstance(v, ast.Call) and isinstance(v.func, ast.Attribute) and v.func.attr == "join" and len(v.args) == 1):
        return None
    sep = prog.const(v.func.value, f.module, None, f.cls)
    g = v.args[0]
    if isinstance(g, ast.Call) and dotted(g.func) in ("list", "tuple") and g.args:
        g = g.args[0]
    if not (isinstance(g, (ast.ListComp, ast.GeneratorExp)) and len(g.generators) == 1 and isinstance(g.generators[0].target, ast.Name)):
        return None
    tv = g.generators[0].target.id

    class R(ast.NodeTransformer):
        def visit_Name(self, n):
            return ast.Name(id="_", ctx=n.ctx) if n.id == tv else n
    import copy

    elt = ast.unparse(R().visit(copy.deepcopy(g.elt)))
    src = source_of(fx, g.generators[0].iter, prog, f)
    return {"sep": sep, "elt": elt, "terminal": src["terminal"], "filtered": src["filtered"] + [ast.unparse(c) for c in g.generators[0].ifs],
            "lossy": src["lossy"]}
