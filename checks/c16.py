"""C16 — recoverable irregular packages open; non-packages are refused cleanly (decidable clauses).

Rules
  R16.1  tolerance guards dominate the dereferences they protect: in the loader every keyed read of the physical
         package (`reader[name]`) is dominated by `name in reader`; a relationship's target part is looked up only for
         relationships that passed the dangling-target filter (the only caller of _Relationship.from_xml is that filter,
         with the same key expression); a part without a relationship item gets an empty relationship set; parts are
         loaded only for names that were reached, so `xml_rels[partname]` cannot miss
  R16.2  refusals have the stated types: for a str path every way through _PhysPkgReader.factory ends in a reader or
         PackageNotFoundError, and the zip reader is only chosen after is_zipfile; a stream goes to the zip reader
         (BadZipFile from zipfile); both physical readers turn a missing member into KeyError; api.Presentation raises
         ValueError for a main part that is not a presentation, before anything else is done with it
  R16.3  unknown content types load as generic parts (registry fall-back); content-type lookup is case-insensitive
         on both tables (C01 R1.1 decides the dictionary itself)
  R16.4  missing core properties: the accessor falls back to a default part and relates it
  R16.5  slide parts are renamed in presentation order, 1..n, from the id list
  R16.6  internal "cannot happen" exits (bare Exception) on these paths are unreachable: the candidate scan before them
         cannot be exhausted (pigeonhole on the loop bounds, shared with C06 R6.2)
  (which exception escapes third-party code for arbitrary corrupt bytes: not decided)
"""

from __future__ import annotations

import ast

from sa.guards import aliases, derefs, norm
from sa.pysrc import ClassInfo, dotted
from sa.report import AnalysisError
from sa.types import walk_own


def rename_rule(ctx, prog, rid):
    """PresentationPart.rename_slide_parts names the part of the i-th relationship id slide<i+1> (shared by C16 R16.5 and C06 R6.3)."""
    pp = prog.cls("pptx.parts.presentation", "PresentationPart")
    rn = pp.methods.get("rename_slide_parts")
    if rn is None:
        raise AnalysisError("anchor vanished: PresentationPart.rename_slide_parts")
    from sa import paths as P_
    from sa.inline import expand as _expand
    from sa.poly import Poly, of_expr
    from sa.strtpl import holes, shape, template_of

    rx = _expand(prog, rn, local_only=True)
    val = P_.value_aliases(rx)
    rparam = rn.node.args.args[1].arg
    good, recognised = False, False
    for n in ast.walk(rx):
        if not isinstance(n, ast.For):
            continue
        # position of the element: `enumerate(rIds[, start])` gives idx = i + start; `range(len(rIds))` gives idx = i
        it, env, rv = n.iter, None, None
        part_var = None
        if isinstance(it, ast.Call) and dotted(it.func) == "enumerate" and it.args and isinstance(it.args[0], ast.Name) \
                and isinstance(val.get(it.args[0].id), (ast.ListComp, ast.GeneratorExp)):
            # the parts collected first: `parts = [self.related_part(rId) for rId in rIds]; for i, part in enumerate(parts)`
            import copy as _copy

            it = _copy.copy(it)
            it.args = [val[it.args[0].id]] + list(it.args[1:])
        if isinstance(it, ast.Call) and dotted(it.func) == "enumerate" and it.args and isinstance(it.args[0], (ast.GeneratorExp, ast.ListComp)) \
                and len(it.args[0].generators) == 1 and not it.args[0].generators[0].ifs and dotted(it.args[0].generators[0].iter) == rparam \
                and isinstance(it.args[0].generators[0].target, ast.Name) and isinstance(it.args[0].elt, ast.Call) \
                and dotted(it.args[0].elt.func) == "self.related_part" and [dotted(a_) for a_ in it.args[0].elt.args] == [it.args[0].generators[0].target.id] \
                and isinstance(n.target, ast.Tuple) and len(n.target.elts) == 2 and all(isinstance(e, ast.Name) for e in n.target.elts):
            # enumerate(map(self.related_part, rIds)): the second loop variable is the part of the i-th relationship id
            it = ast.Call(func=it.func, args=[ast.Name(id=rparam, ctx=ast.Load())] + it.args[1:], keywords=it.keywords)
            part_var = n.target.elts[1].id
        if isinstance(it, ast.Call) and dotted(it.func) == "enumerate" and it.args and dotted(it.args[0]) == rparam \
                and isinstance(n.target, ast.Tuple) and len(n.target.elts) == 2 and all(isinstance(e, ast.Name) for e in n.target.elts):
            start = it.args[1] if len(it.args) > 1 else next((k.value for k in it.keywords if k.arg == "start"), ast.Constant(value=0))
            sv = prog.const(start, rn.module)
            if isinstance(sv, int):
                env = {n.target.elts[0].id: Poly.sym("i") + Poly.const(sv)}
                rv = n.target.elts[1].id
        if env is None:
            continue
        recognised = True
        name_ok = part_ok = False
        for m in ast.walk(n):
            if isinstance(m, ast.Assign) and isinstance(m.targets[0], ast.Attribute) and m.targets[0].attr == "partname":
                who = P_.full(m.targets[0].value, val)
                part_ok = who == "self.related_part(%s)" % rv or (part_var is not None and who == part_var)
                v = m.value
                if isinstance(v, ast.Name) and v.id in val:
                    v = val[v.id]
                if isinstance(v, ast.Call) and dotted(v.func) == "PackURI" and v.args:
                    t = template_of(v.args[0], lambda nm: val.get(nm.id), lambda e: prog.const(e, rn.module))
                    if t is not None and shape(t) == "/ppt/slides/slide{}.xml":
                        name_ok = of_expr(holes(t)[0].expr, env) == Poly.sym("i") + Poly.const(1)
        cond = any(isinstance(x, (ast.If, ast.Continue, ast.Break, ast.IfExp)) for x in ast.walk(n))
        good = name_ok and part_ok and not cond
    if not recognised:
        ctx.error("PresentationPart.rename_slide_parts", "the loop over the relationship ids with their positions is not recognised")
        return
    # the renaming must not be skipped: an early return in front of the loop needs a condition that establishes the *positional* names;
    # a condition built from order-insensitive aggregates only (sets, sorted(), len, sum ...) cannot - a permutation of the parts
    # satisfies it too, so a deck whose slide parts are contiguous but out of presentation order is left as it is
    for st in rx.body:
        if isinstance(st, ast.For):
            break
        if isinstance(st, ast.If) and any(isinstance(x, ast.Return) for x in ast.walk(st)):
            t = st.test
            if (isinstance(t, ast.UnaryOp) and isinstance(t.op, ast.Not) and dotted(t.operand) == rparam) or ast.unparse(t) in (
                    "len(%s) == 0" % rparam, "%s == []" % rparam):
                continue      # nothing to rename
            positional = any(isinstance(x, ast.Call) and dotted(x.func) in ("enumerate", "zip") for x in ast.walk(t)) or any(
                isinstance(x, ast.Subscript) for x in ast.walk(t))
            insensitive = any(isinstance(x, ast.SetComp) or (isinstance(x, ast.Call) and dotted(x.func) in ("set", "frozenset", "sorted", "len", "sum", "Counter"))
                              for x in ast.walk(t))
            if insensitive and not positional:
                ctx.violation(rid, "PresentationPart.rename_slide_parts", "the renaming is skipped when `%s` holds, a condition that does not depend on "
                              "the order of the parts: slide parts that carry the numbers 1..n in another order than the presentation's keep "
                              "their names, and slide<k>.xml is not the k-th slide" % ast.unparse(t)[:90], file=pp.file, line=st.lineno)
            else:
                ctx.error("PresentationPart.rename_slide_parts", "the renaming is skipped under `%s`; whether that establishes the positional names "
                          "is not decided" % ast.unparse(t)[:80])
            return
    if good:
        ctx.ok(rid, "PresentationPart.rename_slide_parts", sample={"name": "/ppt/slides/slide<i+1>.xml for the i-th rId, unconditionally"})
    else:
        ctx.violation(rid, "PresentationPart.rename_slide_parts", "slide parts are not named slide<i+1> for the i-th relationship id",
                      file=pp.file, line=rn.line if rn else pp.line)


def slides_rename_facts(prog):
    """How Presentation.slides renames before handing the slides out: {"arg_ok": the rename receives the rId of every p:sldId in
    document order, "same_list": Slides(...) is built over the same id list, "before": on every path the rename precedes it}."""
    from sa import paths as P_
    from sa.desugar import desugar as _ds

    prs = prog.cls("pptx.presentation", "Presentation")
    sl = prs.methods.get("slides") if prs else None
    if sl is None:
        raise AnalysisError("anchor vanished: Presentation.slides")
    from sa.inline import expand as _expand

    sx = _expand(prog, sl, local_only=True)
    val = P_.value_aliases(sx)
    out = {"arg_ok": False, "same_list": False, "before": False, "func": sl, "recognised": False}
    ren = [c for c in ast.walk(sx) if isinstance(c, ast.Call) and isinstance(c.func, ast.Attribute) and c.func.attr == "rename_slide_parts" and c.args]
    ctor = [c for c in ast.walk(sx) if isinstance(c, ast.Call) and dotted(c.func) == "Slides" and c.args]
    if len(ren) > 1 or len(ctor) != 1:
        return out
    out["recognised"] = True
    if not ren:
        return out  # the slides are handed out and nothing on the way renames the parts
    a = ren[0].args[0]
    if isinstance(a, ast.Name) and a.id in val:
        a = val[a.id]
    while isinstance(a, ast.Call) and dotted(a.func) in ("list", "tuple") and len(a.args) == 1:
        a = a.args[0]   # same elements, same order
    if isinstance(a, ast.Attribute) and not isinstance(a, (ast.ListComp, ast.GeneratorExp)):
        # `<list>.rIds`: a property of the (typed) id list that returns the comprehension over itself
        from sa import inline as _inl
        from sa.types import FCtx as _FCtx

        T_ = _inl.TYPES
        if T_ is None:
            from checks.c10 import load as _load
            from sa.types import Types as _Types

            T_ = _Types(prog, _load(prog.repo)[2])
        recv = a.value
        recv_v = val.get(recv.id, recv) if isinstance(recv, ast.Name) else recv
        ts = T_.expr(recv_v if not isinstance(recv, ast.Name) else recv, _FCtx(sl)) if T_ is not None else ()
        for t_ in ts:
            if t_[0] == "inst":
                pr = prog.lookup(t_[1], a.attr)
                if pr is not None and pr.kind in ("property", "lazyproperty"):
                    rets_ = [r_.value for r_ in ast.walk(pr.node) if isinstance(r_, ast.Return) and r_.value is not None]
                    if len(rets_) == 1 and isinstance(rets_[0], (ast.ListComp, ast.GeneratorExp)):
                        import copy as _copy

                        class _S(ast.NodeTransformer):
                            def visit_Name(self_, x):
                                return _copy.deepcopy(recv) if x.id == "self" else x
                        a = _S().visit(_copy.deepcopy(rets_[0]))
    if isinstance(a, ast.Call) and not isinstance(a, (ast.ListComp, ast.GeneratorExp)):
        # `<helper>(<list>)`: a helper of the repository that returns the comprehension over its parameter
        from sa.inline import resolve_callee as _rc

        try:
            rc_ = _rc(prog, sl, a, {})
        except Exception:  # noqa: BLE001
            rc_ = None
        if rc_ is not None and hasattr(rc_[0], "node"):
            hn = rc_[0].node
            hps = [x.arg for x in hn.args.args][(1 if rc_[1] else 0):]
            rets_ = [r_.value for r_ in ast.walk(hn) if isinstance(r_, ast.Return) and r_.value is not None]
            if len(rets_) == 1 and isinstance(rets_[0], (ast.ListComp, ast.GeneratorExp)) and len(hps) == len(a.args) and not a.keywords:
                import copy as _copy

                m_ = dict(zip(hps, a.args))

                class _S2(ast.NodeTransformer):
                    def visit_Name(self_, x):
                        return _copy.deepcopy(m_[x.id]) if x.id in m_ else x
                a = _S2().visit(_copy.deepcopy(rets_[0]))
    lst = None
    if isinstance(a, (ast.ListComp, ast.GeneratorExp)) and len(a.generators) == 1 and not a.generators[0].ifs \
            and isinstance(a.generators[0].target, ast.Name):
        e = a.elt
        if isinstance(e, ast.Attribute) and e.attr == "rId":
            e = e.value
            while isinstance(e, ast.Call) and dotted(e.func) == "cast" and len(e.args) == 2:
                e = e.args[1]
            if isinstance(e, ast.Name) and e.id == a.generators[0].target.id:
                lst = P_.full(a.generators[0].iter, val)
    if lst is not None and lst.endswith(".sldId_lst"):
        lst = lst[:-len(".sldId_lst")]
    out["arg_ok"] = lst is not None and lst.endswith("get_or_add_sldIdLst()")
    out["same_list"] = lst is not None and P_.full(ctor[0].args[0], val) == lst
    before = True
    for pth in P_.enum_paths(sx.body):
        i, j = pth.index_of(ren[0]), pth.index_of(ctor[0])
        if j is not None and (i is None or i >= j):
            before = False
    out["before"] = before
    return out


def core_properties_default_rule(ctx, prog, rid):
    """A package without core properties gains a related default part on first access (shared by C16 R16.4 and C18 R18.5)."""
    pkg = prog.cls("pptx.package", "Package")
    cp = pkg.methods.get("core_properties")
    if cp is None:
        raise AnalysisError("anchor vanished: Package.core_properties")
    from sa import paths as P_
    from sa.inline import expand as _expand

    cx = _expand(prog, cp, local_only=True)
    rows = [r for r in P_.outcomes(cx.body, P_.aliases(cx)) if r.end == "return"]
    def env_of(r):
        val = {}
        for st in r.path.stmts():
            if isinstance(st, ast.Assign) and len(st.targets) == 1 and isinstance(st.targets[0], ast.Name):
                val[st.targets[0].id] = st.value
        return val

    def origin(r, name, val):
        """the name a returned local was first given on this path (copies `a = b` are followed)"""
        seen = set()
        while name in val and isinstance(val[name], ast.Name) and name not in seen:
            seen.add(name)
            name = val[name].id
        return name

    def returned_text(r):
        val = env_of(r)
        o = origin(r, r.value, val) if r.value else r.value
        return ast.unparse(val[o]) if o in val else r.value

    found = [r for r in rows if not r.handlers and returned_text(r) == "self.part_related_by(RT.CORE_PROPERTIES)"]
    good, seen_absent = bool(found), False
    for r in rows:
        if "KeyError" not in r.handlers:
            continue
        seen_absent = True
        val = env_of(r)
        made = [k for k, v in val.items() if isinstance(v, ast.Call) and dotted(v.func) == "CorePropertiesPart.default"]
        related = [c for st in r.path.stmts() for c in ast.walk(st) if isinstance(c, ast.Call) and dotted(c.func) == "self.relate_to"
                   and len(c.args) >= 2 and dotted(c.args[0]) in made and dotted(c.args[1]) == "RT.CORE_PROPERTIES"]
        if not (made and related and r.value and origin(r, r.value, val) in made):
            good = False
    if not seen_absent:
        good = False
    if good:
        ctx.ok(rid, "Package.core_properties", sample={"absent": "CorePropertiesPart.default(self) related with RT.CORE_PROPERTIES and returned"})
    else:
        ctx.violation(rid, "Package.core_properties", "missing core properties are not replaced by a related default part",
                      file=pkg.file, line=cp.line if cp else pkg.line)



def run(ctx):
    from checks.c10 import load

    prog, S, M = load(ctx.repo)
    ctx.level = "other"
    ctx.trusted = ["CPython ast", "zipfile.is_zipfile / ZipFile raise BadZipFile for non-zip streams", "dict and os.path semantics"]
    ctx.explanation = (
        "Each documented tolerance is one guard on one code path and each documented refusal one raise site. The check finds every "
        "keyed dereference of the loader's maps and decides, with a small dominance analysis over the repository's guard idioms "
        "(conditional expression, comprehension filter, early continue, enclosing test), that the membership test for the same "
        "key and map dominates it; the interprocedural case (the relationship target lookup) is closed by a who-may-call rule. "
        "Refusal sites are checked for their exception types and for being reached before any use.")
    ctx.not_decided = ["exceptions escaping lxml / zipfile for arbitrary corrupt bytes", "pairs of irregularities at run time"]

    ser = prog.modules.get("pptx.opc.serialized")
    pk = prog.modules.get("pptx.opc.package")
    if not (ser and pk):
        raise AnalysisError("anchor vanished: pptx.opc.serialized / pptx.opc.package")

    # -- R16.1 -------------------------------------------------------------------------------------------
    ctx.rule("R16.1", "membership guards dominate the keyed dereferences of the loader")
    ldr = pk.classes.get("_PackageLoader")
    rdr = ser.classes.get("PackageReader")
    if not (ldr and rdr):
        raise AnalysisError("anchor vanished: _PackageLoader / PackageReader")
    n_deref = 0

    def check_fn(f, map_pred, label, must=1, guard_pred=None, why=None):
        nonlocal n_deref
        from sa.inline import expand as _exp
        from sa.itersrc import source_of as _so

        fx_ = _exp(prog, f, local_only=True)   # a `_load_part(name, ...)` style helper holding the read is inlined

        def iter_facts(gen):
            """membership facts a filtering generator helper establishes for the elements it yields"""
            out_ = []
            if isinstance(gen.target, ast.Name):
                so_ = _so(fx_, gen.iter, prog, f)
                for var, a_ in so_.get("gen_facts", []):
                    if a_[0] == "in" and a_[3] is True and a_[1] == var:
                        out_.append((gen.target.id, a_[2]))
                # filters of the (identity) generator expressions the elements pass through on their way here
                from sa import paths as _Pc

                al_ = _Pc.aliases(fx_)
                for var, cond in so_.get("conds", []):
                    for a_ in _Pc.atoms(cond, True, al_):
                        if a_[0] == "in" and a_[3] is True and a_[1] == var:
                            out_.append((gen.target.id, a_[2]))
            return out_

        ds = derefs(fx_, map_pred, iter_facts, guard_pred)
        if len(ds) < must:
            ctx.error("%s.%s" % (f.cls.name if f.cls else "", f.name), "expected a keyed read of %s" % label)
            return
        for node, k, m, guarded, how in ds:
            n_deref += 1
            key = "%s:%s[%s]" % (f.qualname, m, k)
            if guarded:
                ctx.ok("R16.1", key, sample={"deref": "%s[%s]" % (m, k), "guard": "%s in %s" % (k, m), "site": "%s:%d" % (f.file, node.lineno)})
            elif why is not None:
                ctx.violation("R16.1", key, why % {"m": m, "k": k}, file=f.file, line=node.lineno)
            else:
                ctx.violation("R16.1", key, "`%s[%s]` is read without a dominating `%s in %s`: a package lacking that member fails "
                              "with KeyError instead of being tolerated" % (m, k, k, m), file=f.file, line=node.lineno)

    pf = ldr.methods.get("_parts")
    if pf is None:
        raise AnalysisError("anchor vanished: _PackageLoader._parts")
    check_fn(pf, lambda m: m.endswith("_package_reader"), "the package reader")
    # the content type of a relationship target is looked up only once the target is known to be a member of the package: the
    # content-types item need not describe a name that is not there (a dangling target without extension has no Default)
    check_fn(pf, lambda m: m.endswith("_content_types"), "the content-type map", guard_pred=lambda m: m.endswith("_package_reader"),
             why="`%(m)s[%(k)s]` is evaluated before `%(k)s` is known to be a member of the package: a dangling relationship target "
                 "whose type is not declared fails with KeyError instead of being skipped")
    rx = rdr.methods.get("rels_xml_for")
    if rx is None:
        raise AnalysisError("anchor vanished: PackageReader.rels_xml_for")
    check_fn(rx, lambda m: m.endswith("_blob_reader"), "the blob reader")
    from sa import paths as P_
    from sa.inline import expand as _expand

    rxx = _expand(prog, rx)
    rows = [r for r in P_.outcomes(rxx.body, P_.aliases(rxx)) if r.end == "return"]

    def absent(fs):
        return P_.implied(fs, lambda a: a[0] == "in" and a[2].endswith("_blob_reader") and a[3] is False)

    none_rows = [r for r in rows if r.value == "None" and (absent(r.facts) or "KeyError" in r.handlers)]
    wrong = [r for r in rows if r.value != "None" and absent(r.facts)]
    if none_rows and not wrong:
        ctx.ok("R16.1", "PackageReader.rels_xml_for:absent", sample={"absent_item": "returns None"})
    elif wrong or (rows and not any(r.value == "None" for r in rows) and not any(
            isinstance(c, ast.Call) and isinstance(c.func, ast.Attribute) and c.func.attr == "get" for c in ast.walk(rxx))):
        ctx.violation("R16.1", "PackageReader.rels_xml_for:absent", "a part without a relationship item does not yield None",
                      file=rx.file, line=rx.line)
    else:
        ctx.error("PackageReader.rels_xml_for", "the outcome for an absent relationship item is not recognised")
    xrf = ldr.methods.get("_xml_rels_for")
    if xrf is None:
        raise AnalysisError("anchor vanished: _PackageLoader._xml_rels_for")
    xx = _expand(prog, xrf)
    val = P_.value_aliases(xx)
    srcs = {k for k, v in val.items() if isinstance(v, ast.Call) and isinstance(v.func, ast.Attribute) and v.func.attr == "rels_xml_for"}
    rows = [r for r in P_.outcomes(xx.body, P_.aliases(xx)) if r.end == "return"]

    def is_none(fs, flag):
        return P_.implied(fs, lambda a: (a[0] == "none" and a[1] in srcs and a[2] is flag) or (a[0] == "truthy" and a[1] in srcs and a[2] is (not flag)))

    def mentions(r):
        return r.value is not None and any(isinstance(x, ast.Name) and x.id in srcs for x in ast.walk(ast.parse(r.value, mode="eval")))

    # the empty set is whatever is built without the (absent) relationship bytes; the parsed set is built from them
    empties = [r for r in rows if is_none(r.facts, True) and not mentions(r) and r.value != "None"]
    parsed_none = [r for r in rows if mentions(r) and not is_none(r.facts, False)]
    if srcs and empties and not parsed_none:
        ctx.ok("R16.1", "_PackageLoader._xml_rels_for", sample={"no_rels_item": "empty CT_Relationships", "built_as": empties[0].value[:80]})
    elif srcs and parsed_none:
        ctx.violation("R16.1", "_PackageLoader._xml_rels_for", "a missing relationship item is parsed instead of replaced by an empty set",
                      file=pk.relpath, line=xrf.line)
    else:
        ctx.error("_PackageLoader._xml_rels_for", "the handling of a missing relationship item is not recognised")
    # parts ⊆ reached names: the part dict is built by iterating self._xml_rels
    al = aliases(pf.node)
    from checks.c01 import part_construction
    from sa.itersrc import source_of

    pc = part_construction(pf, prog)
    src_ok = False
    if pc is not None:
        src = source_of(pc[3], pc[2], prog, pf)   # (the canonical node the construction was found in)
        src_ok = norm(ast.parse(src["terminal"], mode="eval").body, al) == "self._xml_rels" if src["terminal"] else False
    ld = ldr.methods.get("_load")
    use_ok = False
    if ld is not None:
        al2 = aliases(ld.node)
        for n in walk_own(ld.node):
            if isinstance(n, ast.For) and isinstance(n.iter, ast.Call) and norm(n.iter.func, al2) == "self._parts.items":
                kv = n.target.elts[0].id if isinstance(n.target, ast.Tuple) else None
                for c in ast.walk(n):
                    if isinstance(c, ast.Subscript) and norm(c.value, al2) == "self._xml_rels" and dotted(c.slice) == kv:
                        use_ok = True
    if src_ok and use_ok:
        ctx.ok("R16.1", "_PackageLoader._load:xml_rels[partname]", sample={"keys": "parts are built from the names in _xml_rels, so the lookup cannot miss"})
    else:
        ctx.violation("R16.1", "_PackageLoader._load:xml_rels[partname]", "parts are not drawn from the reached names (built from _xml_rels: %s; "
                      "looked up by the same key: %s)" % (src_ok, use_ok), file=pk.relpath, line=ld.line if ld else 1)
    # traversal: external skipped, visited skipped
    xr = ldr.methods.get("_xml_rels")
    if xr is None:
        raise AnalysisError("anchor vanished: _PackageLoader._xml_rels")
    from sa.desugar import desugar as _desugar

    # the walker is the recursive function reachable from _xml_rels: a nested def or a method called on self
    cands = [(n, n.name, False) for n in ast.walk(xr.node) if isinstance(n, ast.FunctionDef) and n is not xr.node]
    for c in ast.walk(xr.node):
        if isinstance(c, ast.Call) and isinstance(c.func, ast.Attribute) and dotted(c.func.value) == "self" and c.func.attr in ldr.methods:
            cands.append((ldr.methods[c.func.attr].node, c.func.attr, True))

    def self_calls(node, name, is_m):
        return [c for c in ast.walk(node) if isinstance(c, ast.Call) and (
            (is_m and isinstance(c.func, ast.Attribute) and c.func.attr == name and dotted(c.func.value) == "self")
            or (not is_m and isinstance(c.func, ast.Name) and c.func.id == name))]

    walkers = [(n, nm, im) for n, nm, im in cands if self_calls(n, nm, im)]

    def not_external(fs):
        return P_.implied(fs, lambda a: a[0] == "cmp" and (
            (a[3] == "RTM.EXTERNAL" and a[4] is (a[1] == "NotEq")) or (a[3] == "RTM.INTERNAL" and a[4] is (a[1] == "Eq"))) and a[2].endswith(".targetMode"))

    def worklist_walk():
        """The same traversal written with an explicit stack: `while W: for X in W[-1]: if X not in M: W.append(<targets of X>); break`.
        Returns (problems, visited map, n pushes) or None when there is no such loop."""
        from sa.inline import resolve_callee as _rcw

        xx = _expand(prog, xr, depth=3, local_only=True)
        wal_ = P_.aliases(xx)
        whiles = [n for n in ast.walk(xx) if isinstance(n, ast.While) and isinstance(n.test, ast.Name)]
        out, n_push, marks = [], 0, set()
        for wl in whiles:
            W = wl.test.id
            for lp in [n for n in ast.walk(wl) if isinstance(n, ast.For) and isinstance(n.target, ast.Name)]:
                X = lp.target.id
                for pth in P_.enum_paths(lp.body):
                    for i, ev in enumerate(pth.events):
                        if ev[0] != "stmt":
                            continue
                        for c in ast.walk(ev[1]):
                            if isinstance(c, ast.Call) and isinstance(c.func, ast.Attribute) and c.func.attr in ("append", "extend", "insert") \
                                    and dotted(c.func.value) == W:
                                n_push += 1
                                fs = P_.facts(pth, i, wal_)
                                before = [e[1] for e in pth.events[:i] if e[0] == "stmt"]
                                marked = {dotted(t_.value) for st_ in before for x in ast.walk(st_) if isinstance(x, ast.Assign) for t_ in x.targets
                                          if isinstance(t_, ast.Subscript) and P_.norm(t_.slice, wal_) == X}
                                marked |= {dotted(x.func.value) for st_ in before for x in ast.walk(st_) if isinstance(x, ast.Call)
                                           and isinstance(x.func, ast.Attribute) and x.func.attr == "add" and x.args and P_.norm(x.args[0], wal_) == X}
                                marks |= marked
                                if not P_.implied(fs, lambda a: a[0] == "in" and a[1] == X and a[3] is False and a[2] in marked):
                                    out.append("a target is pushed for expansion without having established that it is not yet visited (a set/dict "
                                               "marked with it on the same path): a reference cycle does not terminate")
        if not n_push:
            return None
        # the targets come from generators that skip External relationships
        gens = []
        for c in ast.walk(xx):
            if isinstance(c, ast.Call):
                rc_ = _rcw(prog, xr, c, {})
                if rc_ is not None and hasattr(rc_[0], "node") and any(isinstance(y, ast.Yield) for y in ast.walk(rc_[0].node)):
                    gens.append(rc_[0])
        ext_ok = bool(gens)
        for g_ in gens:
            gd_ = _desugar(g_.node)
            gal_ = P_.aliases(gd_)
            for lp in [n for n in ast.walk(gd_) if isinstance(n, ast.For)]:
                for pth in P_.enum_paths(lp.body):
                    for i, ev in enumerate(pth.events):
                        if ev[0] == "stmt" and any(isinstance(y, ast.Yield) for y in ast.walk(ev[1])):
                            if not not_external(P_.facts(pth, i, gal_)):
                                ext_ok = False
        if not ext_ok:
            out.append("the walk expands a target without having established that the relationship is not External")
        return out, marks, n_push

    wl_ = worklist_walk() if len(walkers) != 1 else None
    if len(walkers) != 1 and wl_ is not None:
        probs_, marks_, n_push_ = wl_
        if probs_:
            ctx.violation("R16.1", "_PackageLoader._xml_rels:walk", "; ".join(sorted(set(probs_))), file=pk.relpath, line=xr.line)
        else:
            ctx.ok("R16.1", "_PackageLoader._xml_rels:walk", sample={"walker": "explicit stack", "skips": "external targets and names already visited (cycles terminate)",
                                                                 "visited": sorted(marks_)})
    elif len(walkers) != 1:
        ctx.error("_PackageLoader._xml_rels", "the recursive relationship walk is not recognised (%d candidates)" % len(walkers))
    else:
        wn, wname, wm = walkers[0]
        wd = _desugar(wn)
        wal, wval = P_.aliases(wd), P_.value_aliases(wd)
        params = [a.arg for a in wd.args.args if a.arg != "self"]
        rec = self_calls(wd, wname, wm)
        probs, n_paths = [], 0
        loops = [n for n in ast.walk(wd) if isinstance(n, ast.For) and any(c in list(ast.walk(n)) for c in rec)]
        marks_self = set()
        for st in wd.body:
            for x in ast.walk(st) if not isinstance(st, (ast.For, ast.While, ast.If)) else []:
                if isinstance(x, ast.Call) and isinstance(x.func, ast.Attribute) and x.func.attr == "add" and x.args and dotted(x.args[0]) == (params[0] if params else None):
                    marks_self.add(dotted(x.func.value))
                if isinstance(x, ast.Assign):
                    for t_ in x.targets:   # `rels = xml_rels[source] = ...` marks as well
                        if isinstance(t_, ast.Subscript) and dotted(t_.slice) == (params[0] if params else None):
                            marks_self.add(dotted(t_.value))
        for lp in loops:
            for pth in P_.enum_paths(lp.body):
                calls = [c for c in rec if pth.index_of(c) is not None]
                for c in calls:
                    n_paths += 1
                    fs = P_.facts(pth, pth.index_of(c), wal)
                    tgt = c.args[0] if c.args else None
                    tsrc = P_.norm(tgt, wal) if tgt is not None else None
                    tval = ast.unparse(wval[tsrc]) if tsrc in wval else None
                    not_ext = P_.implied(fs, lambda a: a[0] == "cmp" and (
                        (a[3] == "RTM.EXTERNAL" and a[4] is (a[1] == "NotEq")) or (a[3] == "RTM.INTERNAL" and a[4] is (a[1] == "Eq"))) and a[2].endswith(".targetMode"))
                    marked_here = {dotted(x.func.value) for e in pth.events[:pth.index_of(c)] if e[0] == "stmt" for x in ast.walk(e[1])
                                   if isinstance(x, ast.Call) and isinstance(x.func, ast.Attribute) and x.func.attr == "add" and x.args
                                   and P_.norm(x.args[0], wal) == tsrc}
                    unvisited = P_.implied(fs, lambda a: a[0] == "in" and a[1] in (tsrc, tval) and a[3] is False and a[2] in (marks_self | marked_here))
                    if not not_ext:
                        probs.append("the walk recurses into a target without having established that the relationship is not External")
                    if not unvisited:
                        probs.append("the walk recurses into a target without having established that it is not yet visited "
                                     "(a set/dict the walker marks with each source): a reference cycle does not terminate")
        if not n_paths:
            ctx.error("_PackageLoader._xml_rels", "no recursive call inside a loop over relationships")
        elif probs:
            ctx.violation("R16.1", "_PackageLoader._xml_rels:walk", "; ".join(sorted(set(probs))), file=pk.relpath, line=xr.line)
        else:
            ctx.ok("R16.1", "_PackageLoader._xml_rels:walk", sample={"walker": wname, "skips": "external targets and names already visited (cycles terminate)",
                                                                 "visited": sorted(marks_self)})
    # interprocedural: target lookup only behind the dangling-target filter
    rel = pk.classes.get("_Relationship")
    rels = pk.classes.get("_Relationships")
    fx = rel.methods.get("from_xml") if rel else None
    lf = rels.methods.get("load_from_xml") if rels else None
    if not (fx and lf):
        raise AnalysisError("anchor vanished: _Relationship.from_xml / _Relationships.load_from_xml")
    # (1) inside from_xml every parts[K] is on paths where the relationship is not External; (2) at every call site the caller has
    # established, on every path, that the relationship is not Internal or that K (renamed through the arguments) is in parts
    fxx = _expand(prog, fx, local_only=True)
    fparams = [a.arg for a in fx.node.args.args][1:]
    carrier_mode = len(fparams) < 3
    if carrier_mode:
        # base URI and part map travel in one parameter object: its members are read in place (sa/carrier.py)
        from sa import inline as _inl161
        from sa.carrier import open_carriers as _open161
        from sa.types import Types as _Types161

        from checks.c10 import load as _load161

        _M161 = _load161(prog.repo)[2]
        _inl161.use_types(_Types161(prog, _M161))
        try:
            fxx = _expand(prog, fx, depth=3, local_only=True)
        finally:
            _inl161.use_types(None)
        fxx = _open161(prog, fx, fxx)[0]
        fparams = [a.arg for a in fxx.args.args][1:]
    fal, fval = P_.aliases(fxx), P_.value_aliases(fxx)
    # the part map is the parameter that is indexed
    parts_p = next((p_ for p_ in fparams if any(isinstance(x, ast.Subscript) and dotted(x.value) == p_ for x in ast.walk(fxx))),
                   fparams[2] if len(fparams) > 2 else None)
    dd = [n for n in ast.walk(fxx) if isinstance(n, ast.Subscript) and isinstance(n.ctx, ast.Load) and dotted(n.value) == parts_p]

    def mode_fact(a, internal):
        """atom says targetMode is Internal (internal=True) / is External (internal=False)"""
        if a[0] != "cmp" or not a[2].endswith("targetMode"):
            return False
        if a[3] == "RTM.INTERNAL":
            return a[4] is ((a[1] == "Eq") == internal)
        if a[3] == "RTM.EXTERNAL":
            return a[4] is ((a[1] == "Eq") != internal)
        return False

    from checks.c01 import canon_target_key as _ctk

    def full(src, val, depth=4):
        return _ctk(prog, _full(src, val, depth))

    def _full(src, val, depth=4):
        """substitute value aliases (calls included) in a source expression"""
        class Sub(ast.NodeTransformer):
            def visit_Name(self, n):
                return copy.deepcopy(val[n.id]) if n.id in val else n
        import copy
        t = ast.parse(src, mode="eval").body
        for _ in range(depth):
            t = Sub().visit(t)
        return ast.unparse(t)

    def proves_present(fs, key, pmap, val, assume_internal):
        """facts |- key in pmap, using that a relationship is Internal or External and nothing else (checked below)"""
        internal = {True for a in fs if mode_fact(a, True)} | {False for a in fs if mode_fact(a, False)}
        if assume_internal:
            if False in internal:
                return True  # the relationship is External on this path: the callee does not look the target up
            internal.add(True)

        def sat(a):
            return a[0] == "in" and a[3] is True and full(a[1], val) == key and full(a[2], val) == pmap

        def dead(alt):
            return any((mode_fact(a, True) and False in internal) or (mode_fact(a, False) and True in internal) for a in alt)

        for a in fs:
            if a[0] == "or":
                if a[1] and all(dead(alt) or any(sat(x) for x in alt) for alt in a[1]):
                    return True
            elif sat(a):
                return True
        return False

    def innermost(root, node):
        owner = root
        for fn in ast.walk(root):
            if isinstance(fn, (ast.FunctionDef, ast.For)) and fn is not root and any(x is node for x in ast.walk(fn)):
                owner = fn
        return owner

    import copy

    # derefs inside from_xml itself
    inner_ok, keys, self_guarded = bool(dd), [], True
    for d in dd:
        hit = False
        k = full(P_.norm(d.slice, fal), fval)
        for pth in P_.enum_paths(fxx.body):
            i = pth.index_of(d)
            if i is None:
                continue
            hit = True
            fs = P_.facts(pth, i, fal)
            if not proves_present(fs, k, parts_p, fval, False):
                self_guarded = False
                if not P_.implied(fs, lambda a: mode_fact(a, True)):
                    inner_ok = False
        if not hit:
            inner_ok = False
        keys.append(k)
    callers = []
    for g in prog.all_functions():
        for c in ast.walk(g.node):
            if isinstance(c, ast.Call) and ((dotted(c.func) or "").endswith("_Relationship.from_xml")
                                            or (g.cls is rel and dotted(c.func) in ("cls.from_xml", "self.from_xml"))):
                callers.append(g)
    good = bool(callers) and inner_ok and len(set(keys)) == 1
    guard_ok = good
    seen_sites = 0
    for g in ({id(x): x for x in callers}.values() if good else []):
        from sa.desugar import lift_generators as _lift

        gx = _lift(_expand(prog, g, local_only=True))
        if carrier_mode:
            _inl161.use_types(_Types161(prog, _M161))
            try:
                gx = _expand(prog, g, depth=3, local_only=True)
            finally:
                _inl161.use_types(None)
            gx = _lift(_open161(prog, g, gx)[0])
        gal, gval = P_.aliases(gx), P_.value_aliases(gx)
        # call sites that remain calls
        sites = [c for c in ast.walk(gx) if isinstance(c, ast.Call) and (dotted(c.func) or "").endswith("from_xml") and len(c.args) == 3]
        for c in sites:
            seen_sites += 1
            ren = dict(zip(fparams, c.args))

            class R(ast.NodeTransformer):
                def visit_Name(self, n):
                    return copy.deepcopy(ren[n.id]) if n.id in ren else n

            want = full(ast.unparse(R().visit(ast.parse(keys[0], mode="eval").body)), gval)
            pmap = full(P_.norm(c.args[2], gal), gval)
            owner = innermost(gx, c)
            found = False
            for pth in P_.enum_paths(owner.body):
                i = pth.index_of(c)
                if i is None:
                    continue
                found = True
                if not self_guarded and not proves_present(P_.facts(pth, i, gal), want, pmap, gval, True):
                    guard_ok = False
            if not found:
                guard_ok = False
        # call sites that were inlined: the lookup itself is now in the caller
        for d in [n for n in ast.walk(gx) if isinstance(n, ast.Subscript) and isinstance(n.ctx, ast.Load) and isinstance(n.value, ast.Name)
                  and "from_rel_ref(" in full(P_.norm(n.slice, gal), gval)]:
            seen_sites += 1
            owner = innermost(gx, d)
            k, pm = full(P_.norm(d.slice, gal), gval), full(P_.norm(d.value, gal), gval)
            found = False
            for pth in P_.enum_paths(owner.body):
                i = pth.index_of(d)
                if i is None:
                    continue
                found = True
                if not proves_present(P_.facts(pth, i, gal), k, pm, gval, False):
                    guard_ok = False
            if not found:
                guard_ok = False
    if good and not seen_sites:
        guard_ok = False
    tm = prog.cls("pptx.oxml.simpletypes", "ST_TargetMode")
    two_valued = False
    v = tm.methods.get("validate") if tm else None
    for n in ast.walk(v.node) if v else []:
        if isinstance(n, ast.Compare) and isinstance(n.ops[0], ast.NotIn):
            vals = prog.const(n.comparators[0], v.module)
            two_valued = isinstance(vals, tuple) and set(vals) == {"External", "Internal"}
    if good and guard_ok and two_valued:
        ctx.ok("R16.1", "_Relationship.from_xml:parts[target]", sample={
            "deref": "parts[PackURI.from_rel_ref(base_uri, rel.target_ref)] for non-External relationships",
            "only_caller": "iter_valid_rels, after `if partname not in parts: continue` on the same key for Internal relationships",
            "target_modes": ["External", "Internal"]})
    elif not dd:
        # the lookup `parts[<name>]` is not in from_xml in a form this rule reads (e.g. behind an object that carries the part
        # map): nothing is established either way
        ctx.error("_Relationship.from_xml:parts[target]", "the target-part lookup `parts[...]` was not located in from_xml (parameters %s)" % fparams)
    else:
        ctx.violation("R16.1", "_Relationship.from_xml:parts[target]", "the target-part lookup is not confined behind the dangling-target filter "
                      "(single caller in load_from_xml: %s; same-key guard before the call: %s; two target modes: %s)" % (good, guard_ok, two_valued),
                      file=fx.file, line=fx.line)
    ctx.count("guarded_derefs", n_deref)

    # -- R16.2 -------------------------------------------------------------------------------------------
    ctx.rule("R16.2", "refusals have the stated exception types and come before any use")
    ppr = ser.classes.get("_PhysPkgReader")
    fac = ppr.methods.get("factory") if ppr else None
    if fac is None:
        raise AnalysisError("anchor vanished: _PhysPkgReader.factory")
    facx = _expand(prog, fac, local_only=True)
    _fps = [a_.arg for a_ in fac.node.args.args if a_.arg not in ("self", "cls")]
    if not _fps:
        raise AnalysisError("_PhysPkgReader.factory: the package-file parameter is not recognised")
    pparam = _fps[0]
    rows = P_.outcomes(facx.body, P_.aliases(facx))

    def tv(fs, src):
        """truth value of the test `src` on the path: True / False / None (not tested)"""
        for flag in (True, False):
            if P_.implied(fs, lambda a: a[0] == "truthy" and a[1] == src and a[2] is flag):
                return flag
        return None

    def path_binding(r, name):
        """what the path last bound a plain local to (None when it did not)"""
        v_ = None
        for st_ in r.path.stmts():
            if isinstance(st_, ast.Assign) and len(st_.targets) == 1 and isinstance(st_.targets[0], ast.Name) and st_.targets[0].id == name:
                v_ = st_.value
        return v_

    def infeasible(r):
        """the path tests `<local> is None` against what it has itself just bound the local to: a class of the repository is not None,
        the constant None is"""
        for a in r.facts:
            if a[0] == "none" and isinstance(a[1], str) and a[1].isidentifier():
                b_ = path_binding(r, a[1])
                if b_ is None:
                    continue
                is_none = isinstance(b_, ast.Constant) and b_.value is None
                is_cls = isinstance(b_, ast.Name) and isinstance(prog.resolve(fac.module, b_.id), ClassInfo)
                if (is_none and a[2] is False) or (is_cls and a[2] is True):
                    return True
        return False

    probs, table = [], []
    for r in rows:
        if infeasible(r):
            continue
        # the reader class may be picked first and called at the end: `reader_cls(...)` reads as the class the path bound
        if r.end == "return" and r.value and "(" in r.value:
            hb = path_binding(r, r.value.split("(")[0])
            if isinstance(hb, ast.Name):
                r.value = hb.id + r.value[r.value.index("("):]
        is_str = tv(r.facts, "isinstance(%s, str)" % pparam)
        is_dir = tv(r.facts, "os.path.isdir(%s)" % pparam)
        is_zip = tv(r.facts, "zipfile.is_zipfile(%s)" % pparam)
        what = r.exc if r.end == "raise" else (r.value.split("(")[0] if r.end == "return" and r.value else r.end)
        table.append({"str": is_str, "dir": is_dir, "zip": is_zip, "outcome": what})
        if what == "_ZipPkgReader":
            if is_str is not False and is_zip is not True:
                probs.append("the zip reader is chosen for a path that zipfile.is_zipfile has not accepted: an existing file that is not a "
                             "zip raises BadZipFile instead of PackageNotFoundError")
        elif what == "_DirPkgReader":
            if is_dir is not True:
                probs.append("the directory reader is chosen for something os.path.isdir has not accepted")
        elif what == "PackageNotFoundError":
            if is_zip is not False or is_dir is not False:
                probs.append("PackageNotFoundError is raised on a path that has not ruled out a directory and a zip file")
        elif not (r.end == "raise" and is_dir is False and is_zip is False):
            probs.append("unrecognised outcome %s" % what)
        if is_str is not False and is_dir is False and is_zip is False and what != "PackageNotFoundError":
            probs.append("a path that is neither a directory nor a zip file ends in %s, not PackageNotFoundError" % what)
    if not any(t["outcome"] == "PackageNotFoundError" for t in table):
        probs.append("no path ends in PackageNotFoundError")
    if not probs and {t["outcome"] for t in table} == {"_ZipPkgReader", "_DirPkgReader", "PackageNotFoundError"}:
        ctx.ok("R16.2", "_PhysPkgReader.factory", sample={"paths": table})
    elif any(p.startswith("unrecognised") for p in probs):
        ctx.error("_PhysPkgReader.factory", "; ".join(sorted(set(probs))))
    else:
        ctx.violation("R16.2", "_PhysPkgReader.factory", "for a path that is neither a directory nor a zip file the factory does not end in "
                      "PackageNotFoundError (%s)" % "; ".join(sorted(set(probs))), file=fac.file, line=fac.line)
    exc = prog.modules.get("pptx.exc")
    pnf = exc.classes.get("PackageNotFoundError") if exc else None
    if pnf is not None and any(getattr(k, "name", None) == "PythonPptxError" for k in prog.mro(pnf)):
        ctx.ok("R16.2", "PackageNotFoundError", nontrivial=False)
    else:
        ctx.violation("R16.2", "PackageNotFoundError", "PackageNotFoundError is not a PythonPptxError", file=exc.relpath if exc else "src/pptx/exc.py", line=1)
    for cname in ("_ZipPkgReader", "_DirPkgReader"):
        c = ser.classes.get(cname)
        gi = c.methods.get("__getitem__") if c else None
        if gi is None:
            raise AnalysisError("anchor vanished: %s.__getitem__" % cname)
        raises = [dotted(n.exc.func) if isinstance(n.exc, ast.Call) else dotted(n.exc) for n in ast.walk(gi.node) if isinstance(n, ast.Raise) and n.exc]
        key = "%s.__getitem__" % cname
        if cname == "_ZipPkgReader":
            ds = derefs(gi.node, lambda m: m.endswith("_blobs"))
            okk = raises == ["KeyError"] and ds and all(d[3] for d in ds)
        else:
            tr = [n for n in ast.walk(gi.node) if isinstance(n, ast.Try)]
            okk = raises == ["KeyError"] and tr and any(dotted(h.type) in ("IOError", "OSError", "FileNotFoundError") for h in tr[0].handlers) \
                and any(isinstance(x, ast.Call) and dotted(x.func) == "open" for x in ast.walk(tr[0]))
        if okk:
            ctx.ok("R16.2", key, sample={"missing_member": "KeyError"})
        else:
            ctx.violation("R16.2", key, "a missing member is not reported as KeyError (raises %s)" % raises, file=gi.file, line=gi.line)
    api = prog.modules.get("pptx.api")
    pres = api.functions.get("Presentation") if api and hasattr(api, "functions") else None
    if pres is None and api is not None:
        pres = next((f for f in prog.all_functions() if f.module is api and f.name == "Presentation"), None)
    if pres is None:
        raise AnalysisError("anchor vanished: pptx.api.Presentation")
    from sa import paths as P_
    from sa.desugar import desugar

    from sa.inline import expand as _expand_api
    from sa.pysrc import Unknown as _Unk

    # canonical form: the predicate (`_is_pptx_package`) and any open-and-validate helper are read in place, so the decision is the
    # membership test of the main part's content type in the presentation main types, wherever it is written
    dpres = _expand_api(prog, pres, depth=3)
    al_p, val_p = P_.aliases(dpres), P_.value_aliases(dpres)
    env_p = P_.local_env(prog, pres)
    pths = [p for p in P_.enum_paths(dpres.body)]
    probs = []
    decided = 0
    types_ok = None

    def decision(fs):
        """(part source, accepted?) from a fact `<part>.content_type in <types>`"""
        for a in fs:
            alts = [a] if a[0] != "or" else [x for alt in a[1] for x in alt]
            for x in alts:
                if x[0] == "in" and P_.full(x[1], val_p).endswith(".content_type"):
                    return P_.full(x[1], val_p)[:-len(".content_type")], x[3], x[2]
        return None

    for pth in pths:
        fs = P_.facts(pth, None, al_p)
        dc = decision(fs)
        if dc is None:
            if pth.end in ("return",):
                probs.append("a path returns without testing the main part's content type (line %d)" % getattr(pth.end_node, "lineno", 0))
            continue
        decided += 1
        part_src, accepted, types_src = dc
        tv = prog.const(ast.parse(P_.full(types_src, val_p), mode="eval").body, api, env_p)
        if not isinstance(tv, _Unk):
            ok_t = isinstance(tv, (tuple, list, frozenset, set)) and len(tv) >= 1 and all(
                isinstance(x, str) and "presentation" in x and x.endswith("main+xml") for x in tv)
            types_ok = ok_t if types_ok is None else (types_ok and ok_t)
        if accepted is False:
            exc = None
            if pth.end == "raise" and pth.end_node.exc is not None:
                e = pth.end_node.exc
                exc = dotted(e.func) if isinstance(e, ast.Call) else dotted(e)
            if exc != "ValueError":
                probs.append("a main part that is not a presentation ends in %s, not ValueError" % (exc or pth.end))
            else:
                # the package argument may be a path or a stream: on the refusing path it may only be formatted into the message
                # (%, format, f-string, str, repr, type); a path function applied to it raises TypeError for a stream and replaces
                # the documented ValueError
                arg0 = pres.params[0] if pres.params else None
                nodes_ = [ev[1] for ev in pth.events if ev[0] in ("stmt",)] + [pth.end_node]
                for nd in nodes_:
                    for x in ast.walk(nd) if (nd is not None and arg0) else []:
                        if isinstance(x, ast.Call) and any(isinstance(a_, ast.Name) and a_.id == arg0 for a_ in x.args):
                            fd = dotted(x.func) or ""
                            if fd in ("str", "repr", "type", "format", "Package.open", "OpcPackage.open") or fd.endswith((".open", ".format")):
                                continue
                            if fd.startswith(("os.path.", "posixpath.", "ntpath.")) or fd in ("os.fspath", "os.fsdecode", "os.fsencode", "Path", "pathlib.Path",
                                                                                         "PurePath", "pathlib.PurePath", "len"):
                                probs.append("the refusal applies %s() to the package argument, which may be a stream: %s raises TypeError for a "
                                             "file-like object, so a stream that is not a presentation ends in TypeError instead of the documented "
                                             "ValueError" % (fd, fd))
                        elif isinstance(x, ast.Call) and isinstance(x.func, ast.Attribute) and isinstance(x.func.value, ast.Name) \
                                and x.func.value.id == arg0 and x.func.attr in ("lower", "upper", "endswith", "startswith", "split", "rsplit", "strip",
                                                                               "rpartition", "partition", "replace", "encode"):
                            probs.append("the refusal calls the str method .%s() on the package argument, which may be a stream (AttributeError "
                                         "instead of the documented ValueError)" % x.func.attr)
            for ev in pth.events:
                node = ev[1] if ev[0] in ("stmt",) else None
                if node is not None:
                    for x in ast.walk(node):
                        if isinstance(x, ast.Attribute) and P_.full(x.value, val_p) == part_src and x.attr not in ("content_type",):
                            probs.append("the part is used (.%s) although it is not a presentation" % x.attr)
        else:
            if pth.end != "return":
                probs.append("a presentation main part does not lead to a return")
    # the test must come before any use of the part on every path
    for pth in pths:
        seen_check = False
        for ev in pth.events:
            node = ev[1] if ev[0] in ("stmt", "cond") else None
            if node is None:
                continue
            if ev[0] == "cond" and decision(P_.atoms(ev[1], True, al_p)) is not None:
                seen_check = True
                continue
            if not seen_check and any(isinstance(x, ast.Attribute) and x.attr in ("presentation",) for x in ast.walk(node)):
                probs.append("the part is used before its content type is tested")
        if not seen_check and pth.end == "return" and pth.end_node.value is not None and any(
                isinstance(x, ast.Attribute) and x.attr == "presentation" for x in ast.walk(pth.end_node.value)):
            probs.append("the part is used before its content type is tested")
    if not decided:
        ctx.error("pptx.api.Presentation", "no path tests the content type of the main part")
    elif probs or types_ok is not True:
        ctx.violation("R16.2", "api.Presentation", "; ".join(sorted(set(probs))) or "the accepted main content types are not the presentation main types",
                      file=pres.file, line=pres.line)
    else:
        ctx.ok("R16.2", "api.Presentation", sample={"refusal": "ValueError when the main part's content type is not a presentation main type",
                                                    "before": "any use of the part", "paths": decided})

    # -- R16.3 -------------------------------------------------------------------------------------------
    ctx.rule("R16.3", "unknown content types load as generic parts; content-type lookup ignores case")
    pfc = pk.classes.get("PartFactory")
    pcf = pfc.methods.get("_part_cls_for") if pfc else None
    good = False
    if pcf is not None:
        ds = derefs(pcf.node, lambda m: m.endswith("part_type_for"))
        last = pcf.node.body[-1]
        good = bool(ds) and all(d[3] for d in ds) and isinstance(last, ast.Return) and dotted(last.value) == "Part"
    if good:
        ctx.ok("R16.3", "PartFactory._part_cls_for", sample={"unregistered_type": "Part (generic, bytes preserved)"})
    else:
        ctx.violation("R16.3", "PartFactory._part_cls_for", "a content type without a registered class does not fall back to Part",
                      file=pk.relpath, line=pcf.line if pcf else 1)
    from checks.c01 import content_type_rules

    content_type_rules(ctx, prog, ser, pk, prog.modules["pptx.opc.spec"], prog.modules["pptx.opc.oxml"], "R16.3")
    ctm = pk.classes.get("_ContentTypeMap")
    fxm = ctm.methods.get("from_xml") if ctm else None
    both = 0
    from sa.inline import expand as _exp16

    for n in walk_own(_exp16(prog, fxm, local_only=True)) if fxm else []:   # canonical: a local table-building helper is read in place
        if isinstance(n, ast.Assign) and isinstance(n.value, ast.Call) and dotted(n.value.func) == "CaseInsensitiveDict":
            both += 1
    gi = ctm.methods.get("__getitem__") if ctm else None
    ds = derefs(_exp16(prog, gi, local_only=True), lambda m: m in ("self._overrides", "self._defaults")) if gi else []
    if both == 2 and len(ds) == 2 and all(d[3] for d in ds):
        ctx.ok("R16.3", "_ContentTypeMap", sample={"tables": "Override and Default both case-insensitive", "lookups": "each behind its membership test"})
    else:
        ctx.violation("R16.3", "_ContentTypeMap", "content-type lookup is case-sensitive or unguarded (case-insensitive tables: %d, guarded lookups: %s)"
                      % (both, [d[3] for d in ds]), file=pk.relpath, line=ctm.line if ctm else 1)

    # -- R16.4 -------------------------------------------------------------------------------------------
    ctx.rule("R16.4", "a package without core properties gains a default part on first access")
    core_properties_default_rule(ctx, prog, "R16.4")

    # -- R16.5 -------------------------------------------------------------------------------------------
    ctx.rule("R16.5", "slide parts are renamed slide1..n in presentation order")
    rename_rule(ctx, prog, "R16.5")
    sf = slides_rename_facts(prog)
    if not sf["recognised"]:
        ctx.error("Presentation.slides", "the rename_slide_parts / Slides(...) pair is not recognised")
    elif sf["arg_ok"] and sf["before"]:
        ctx.ok("R16.5", "Presentation.slides", sample={"order": "rIds of every p:sldId in document order"})
    else:
        ctx.violation("R16.5", "Presentation.slides", "rename_slide_parts is not given the rIds of all p:sldId in document order",
                      file=sf["func"].file, line=sf["func"].line)

    # -- R16.6 -------------------------------------------------------------------------------------------
    ctx.rule("R16.6", "'cannot happen' exits (bare Exception) on the open / first-access paths are unreachable")
    from checks.c06 import scan_exhaustion_problem

    nimp = 0
    for g in prog.all_functions():
        if not g.module.name.startswith(("pptx.opc.", "pptx.package", "pptx.api", "pptx.parts.presentation", "pptx.parts.coreprops")):
            continue
        bare = [n for n in ast.walk(g.node) if isinstance(n, ast.Raise) and isinstance(n.exc, ast.Call) and dotted(n.exc.func) == "Exception"]
        if not bare:
            continue
        nimp += 1
        key = "%s:raise Exception" % g.qualname
        # recognised justification: the raise follows a candidate scan that cannot be exhausted (pigeonhole, decided on the loop bounds)
        gd = _desugar(g.node)
        loops = [n for n in ast.walk(gd) if isinstance(n, ast.For) and any(
            isinstance(c, ast.Compare) and isinstance(c.ops[0], ast.NotIn) for c in ast.walk(n))]
        scans_ = []
        prob = scan_exhaustion_problem(g.node, scans_)
        last_is_raise = bool(gd.body) and isinstance(gd.body[-1], ast.Raise) and isinstance(gd.body[-1].exc, ast.Call) and dotted(gd.body[-1].exc.func) == "Exception"
        # the scan may live in a helper that returns None when it is exhausted: `if (x := scan(...)) is None: raise Exception`
        via_helper = None
        if not loops:
            gal_ = P_.value_aliases(gd)
            for pth in P_.enum_paths(gd.body):
                if pth.end != "raise" or not any(pth.end_node is b or ast.dump(pth.end_node) == ast.dump(b) for b in [n_ for n_ in ast.walk(gd) if isinstance(n_, ast.Raise)]):
                    continue
                for a_ in P_.facts(pth):
                    if a_[0] == "none" and a_[2] is True and a_[1] in gal_ and isinstance(gal_[a_[1]], ast.Call):
                        from sa.inline import resolve_callee as _rc

                        rc_ = _rc(prog, g, gal_[a_[1]], {})
                        if rc_ is not None and hasattr(rc_[0], "node"):
                            hd = _desugar(rc_[0].node)
                            hloops = [n_ for n_ in ast.walk(hd) if isinstance(n_, ast.For) and any(
                                isinstance(c, ast.Compare) and isinstance(c.ops[0], ast.NotIn) for c in ast.walk(n_))]
                            tail_none = bool(hd.body) and isinstance(hd.body[-1], ast.Return) and (
                                hd.body[-1].value is None or (isinstance(hd.body[-1].value, ast.Constant) and hd.body[-1].value.value is None))
                            if hloops and tail_none:
                                via_helper = (rc_[0], scan_exhaustion_problem(rc_[0].node))
        if via_helper is not None and via_helper[1] is None:
            ctx.ok("R16.6", key, sample={"function": g.fq, "unreachable_because": "%s returns None only after trying |population|+1 distinct candidates"
                                         % via_helper[0].qualname})
        elif via_helper is not None:
            ctx.violation("R16.6", key, "an internal error (bare Exception) is reachable: %s" % via_helper[1], file=g.file, line=bare[0].lineno)
        elif not loops and scans_ and prob is None and all(
                pth.end != "raise" or pth.end_node not in [b_ for b_ in ast.walk(gd) if isinstance(b_, ast.Raise)] or any(
                    a_[0] == "none" and a_[2] is True for a_ in P_.facts(pth)) for pth in P_.enum_paths(gd.body)):
            # the scan is a search expression (`next(<candidates not in P>, None)`); the exit is taken only when it found nothing
            ctx.ok("R16.6", key, sample={"function": g.fq, "unreachable_because": "the search before it tries at least |population|+1 distinct candidates"})
        elif loops and last_is_raise and prob is None:
            ctx.ok("R16.6", key, sample={"function": g.fq, "unreachable_because": "the scan before it tries at least |population|+1 distinct candidates"})
        elif prob is not None:
            ctx.violation("R16.6", key, "an internal error (bare Exception) is reachable: %s" % prob, file=g.file, line=bare[0].lineno)
        else:
            ctx.error(key, "bare `raise Exception` whose unreachability this analysis cannot show")
    ctx.count("impossible_exits", nimp)
