#!/venv/bin/python
"""Mechanical behaviour-preserving rewrites of the WHOLE library, as a brittleness probe for the checks:

  rename     every local variable of every function gets a suffix (parameters, globals, nonlocals and names used in nested
             scopes are left alone)
  invert     `if c: A else: B`  ->  `if not c: B else: A`   (where both arms exist)
  temp       `return E`  ->  `_ret = E; return _ret`   (non-trivial E, outside generators' bare returns)
  ifexp      `x = A if c else B` / `return A if c else B`  ->  if/else statements
  guard      `if c: <body ending in return/raise/continue>` + rest  ->  `if c: ... else: rest`

usage: tools/fuzz_refactor.py <transform> [check ids...]     (scratch copy under /var/tmp, removed afterwards)
Every claimed check must exit 0 on the rewritten tree (the property still holds: the rewrite preserves behaviour).
"""
import ast
import json
import os
import shutil
import subprocess
import sys
import symtable
import tempfile

HERE = os.path.dirname(os.path.dirname(os.path.abspath(__file__)))
REPO = os.environ.get("VERIF_REPO", "/repo")


class Rename(ast.NodeTransformer):
    def visit_FunctionDef(self, node):
        # locals of this function that are safe to rename: assigned here, not parameters, not global/nonlocal, not referenced
        # from nested scopes, and the function has no nested class / exec-like constructs
        params = {a.arg for a in node.args.args + node.args.posonlyargs + node.args.kwonlyargs}
        if node.args.vararg:
            params.add(node.args.vararg.arg)
        if node.args.kwarg:
            params.add(node.args.kwarg.arg)
        assigned, banned = set(), set(params)
        nested_used = set()

        def own(n, top=True):
            for c in ast.iter_child_nodes(n):
                if isinstance(c, (ast.FunctionDef, ast.AsyncFunctionDef, ast.Lambda, ast.ClassDef)):
                    for x in ast.walk(c):
                        if isinstance(x, ast.Name):
                            nested_used.add(x.id)
                        if isinstance(x, ast.arg):
                            nested_used.add(x.arg)
                    if isinstance(c, (ast.FunctionDef, ast.AsyncFunctionDef, ast.ClassDef)):
                        banned.add(c.name)
                    continue
                if isinstance(c, (ast.GeneratorExp, ast.ListComp, ast.SetComp, ast.DictComp)):
                    # comprehension scopes: their targets are their own; names used inside refer to the enclosing scope
                    for x in ast.walk(c):
                        if isinstance(x, ast.Name):
                            nested_used.add(x.id)
                    continue
                if isinstance(c, (ast.Global, ast.Nonlocal)):
                    banned.update(c.names)
                if isinstance(c, ast.Name) and isinstance(c.ctx, (ast.Store, ast.Del)):
                    assigned.add(c.id)
                if isinstance(c, ast.ExceptHandler) and c.name:
                    banned.add(c.name)
                if isinstance(c, (ast.Import, ast.ImportFrom)):
                    for a in c.names:
                        banned.add((a.asname or a.name).split(".")[0])
                own(c, False)
        own(node)
        ren = {n: n + "_v" for n in assigned - banned - nested_used if not n.startswith("__")}

        class R(ast.NodeTransformer):
            def visit_Name(self_, n):
                if n.id in ren:
                    return ast.copy_location(ast.Name(id=ren[n.id], ctx=n.ctx), n)
                return n

            def visit_FunctionDef(self_, n):
                return n

            visit_AsyncFunctionDef = visit_Lambda = visit_ClassDef = visit_FunctionDef
            visit_GeneratorExp = visit_ListComp = visit_SetComp = visit_DictComp = visit_FunctionDef
        node.body = [R().visit(st) for st in node.body]
        # nested functions are processed on their own
        self.generic_visit(node)
        return node


class Invert(ast.NodeTransformer):
    def visit_If(self, node):
        self.generic_visit(node)
        if node.orelse and not (len(node.orelse) == 1 and isinstance(node.orelse[0], ast.If)):
            t = node.test
            nt = t.operand if isinstance(t, ast.UnaryOp) and isinstance(t.op, ast.Not) else ast.UnaryOp(op=ast.Not(), operand=t)
            return ast.copy_location(ast.If(test=nt, body=node.orelse, orelse=node.body), node)
        return node


class Temp(ast.NodeTransformer):
    def _block(self, stmts):
        out = []
        for st in stmts:
            st = self.visit(st)
            if isinstance(st, ast.Return) and st.value is not None and not isinstance(st.value, (ast.Name, ast.Constant)):
                out.append(ast.copy_location(ast.Assign(targets=[ast.Name(id="_ret", ctx=ast.Store())], value=st.value), st))
                out.append(ast.copy_location(ast.Return(value=ast.Name(id="_ret", ctx=ast.Load())), st))
            else:
                out.append(st)
        return out

    def generic_visit(self, node):
        for fld in ("body", "orelse", "finalbody"):
            b = getattr(node, fld, None)
            if isinstance(b, list) and b and isinstance(b[0], ast.stmt):
                setattr(node, fld, self._block(b))
        for h in getattr(node, "handlers", []) or []:
            h.body = self._block(h.body)
        return node

    def visit_Lambda(self, node):
        return node


class IfExpStmt(Temp):
    def _block(self, stmts):
        out = []
        for st in stmts:
            st = self.visit(st)
            if isinstance(st, ast.Return) and isinstance(st.value, ast.IfExp):
                v = st.value
                out.append(ast.copy_location(ast.If(test=v.test, body=[ast.Return(value=v.body)], orelse=[ast.Return(value=v.orelse)]), st))
            elif isinstance(st, ast.Assign) and len(st.targets) == 1 and isinstance(st.targets[0], ast.Name) and isinstance(st.value, ast.IfExp):
                v, t = st.value, st.targets[0]
                out.append(ast.copy_location(ast.If(test=v.test, body=[ast.Assign(targets=[t], value=v.body)],
                                                    orelse=[ast.Assign(targets=[ast.Name(id=t.id, ctx=ast.Store())], value=v.orelse)]), st))
            else:
                out.append(st)
        return out


class Guard(Temp):
    def _block(self, stmts):
        out = []
        for i, st in enumerate(stmts):
            st = self.visit(st)
            if isinstance(st, ast.If) and not st.orelse and isinstance(st.body[-1], (ast.Return, ast.Raise, ast.Continue)) and i < len(stmts) - 1:
                rest = self._block(stmts[i + 1:])
                out.append(ast.copy_location(ast.If(test=st.test, body=st.body, orelse=rest), st))
                return out
            out.append(st)
        return out


T = {"rename": Rename, "invert": Invert, "temp": Temp, "ifexp": IfExpStmt, "guard": Guard}


def main():
    name = sys.argv[1]
    ids = sys.argv[2:]
    m = json.load(open(os.path.join(HERE, "MANIFEST.json")))
    claimed = sorted(c["property_id"] for c in m["checks"])
    ids = ids or claimed
    d = tempfile.mkdtemp(prefix="verif-scratch-fuzz-", dir=os.environ.get("TMPDIR") or "/var/tmp")
    try:
        os.makedirs(os.path.join(d, "src"))
        shutil.copytree(os.path.join(REPO, "src", "pptx"), os.path.join(d, "src", "pptx"), ignore=shutil.ignore_patterns("__pycache__"))
        os.symlink(os.path.join(REPO, "spec"), os.path.join(d, "spec"))
        n = 0
        for root, _dirs, files in os.walk(os.path.join(d, "src", "pptx")):
            for fn in files:
                if not fn.endswith(".py"):
                    continue
                p = os.path.join(root, fn)
                src = open(p).read()
                tree = ast.parse(src)
                new = T[name]().visit(tree)
                ast.fix_missing_locations(new)
                out = ast.unparse(new)
                compile(out, p, "exec")
                if out != ast.unparse(ast.parse(src)):
                    n += 1
                open(p, "w").write(out + "\n")
        print("transform %s: %d files changed" % (name, n))
        if os.environ.get("FUZZ_TESTS"):
            r = subprocess.run(["/venv/bin/python", "-m", "pytest", "-q", "-p", "no:cacheprovider", "-x", "--timeout=900", "--continue-on-collection-errors",
                                os.path.join(REPO, "tests")], cwd="/tmp", env=dict(os.environ, PYTHONPATH=os.path.join(d, "src")), capture_output=True, text=True)
            print("tests:", (r.stdout.strip().splitlines() or ["?"])[-1])
        bad = 0
        from concurrent.futures import ThreadPoolExecutor

        def run(pid):
            r = subprocess.run(["/venv/bin/python", "check", pid, "--tier", "quick", "--repo", d], cwd=HERE, capture_output=True, text=True,
                               env=dict(os.environ, VERIF_NOWRITE="1"))
            return pid, r.returncode, [l for l in (r.stdout + r.stderr).splitlines() if not l.startswith("KNOWN-FINDING")]
        with ThreadPoolExecutor(8) as ex:
            for pid, code, lines in ex.map(run, ids):
                if code != 0:
                    bad += 1
                    print("ALARM %s exit %d" % (pid, code))
                    for l in lines[:int(os.environ.get("FUZZ_LINES", "8"))]:
                        print("     " + l.strip()[:260])
        print("%s: %d of %d checks silent" % (name, len(ids) - bad, len(ids)))
        return 1 if bad else 0
    finally:
        if not os.environ.get("FUZZ_KEEP"):
            shutil.rmtree(d, ignore_errors=True)
        else:
            print("kept", d)


if __name__ == "__main__":
    sys.exit(main())
