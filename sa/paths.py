"""Path enumeration over a statement list, and the facts known along a path.

A *path* is the sequence of events one execution of the block can produce:
    ("cond", test-node, outcome)    a branch decision (if / while test / conditional expression are not split; only `if`)
    ("stmt", node)                  a simple statement that executed (Assign, AugAssign, AnnAssign, Expr, Pass, Delete ...)
    ("loop", node)                  a for/while statement (opaque: analyse its body separately)
    ("with", node) / ("def", node)  opaque
and an *end*: "fall" (ran off the end), "return", "raise", "continue", "break" (with the ending node).

Both `if c: continue` followed by code and `if not c: <code>` give the same facts at <code>, which is what makes rules written
against paths insensitive to guard style.  try/except contributes the body path and, as alternatives, each handler entered
from the start of the try (a deliberately coarse model; rules that care about exceptions inspect the Try node themselves).

Facts: `facts(path, upto)` turns the branch decisions before event index `upto` into normalised atoms
    ("in", key-src, map-src, True|False)      key in map / key not in map
    ("none", src, True|False)                 src is None / src is not None
    ("truthy", src, True|False)               bool(src)
    ("cmp", op, left-src, right-src, True|False)   other comparisons, kept verbatim
    ("or", (alt1-atoms, alt2-atoms, ...))          at least one alternative's atoms hold
with `not`, `and` (when taken) and `or` (when not taken) decomposed.  Sources are normalised with single-assignment local
aliases substituted (`a, b = self._x, y.z`).
"""

from __future__ import annotations

import ast
import copy


class Path:
    __slots__ = ("events", "end", "end_node")

    def __init__(self, events, end, end_node=None):
        self.events, self.end, self.end_node = events, end, end_node

    def stmts(self):
        return [e[1] for e in self.events if e[0] == "stmt"]

    def index_of(self, node):
        """index of the event whose statement contains `node`"""
        for i, e in enumerate(self.events):
            if e[0] in ("stmt", "loop", "with") and any(x is node for x in ast.walk(e[1])):
                return i
            if e[0] == "cond" and any(x is node for x in ast.walk(e[1])):
                return i
        if self.end_node is not None and any(x is node for x in ast.walk(self.end_node)):
            return len(self.events)
        return None


def enum_paths(stmts, limit=512):
    """All paths through a statement list (loops and nested definitions opaque)."""
    out = []

    def go(rest, events):
        if len(out) > limit:
            raise OverflowError("too many paths")
        if not rest:
            out.append(Path(events, "fall"))
            return
        st, tail = rest[0], rest[1:]
        if isinstance(st, ast.If):
            go(list(st.body) + tail, events + [("cond", st.test, True)])
            go(list(st.orelse) + tail, events + [("cond", st.test, False)])
        elif isinstance(st, ast.Return):
            out.append(Path(events, "return", st))
        elif isinstance(st, ast.Raise):
            out.append(Path(events, "raise", st))
        elif isinstance(st, ast.Continue):
            out.append(Path(events, "continue", st))
        elif isinstance(st, ast.Break):
            out.append(Path(events, "break", st))
        elif isinstance(st, (ast.For, ast.While, ast.AsyncFor)):
            go(tail, events + [("loop", st)])
        elif isinstance(st, (ast.With, ast.AsyncWith)):
            go(list(st.body) + tail, events + [("with", st)])
        elif isinstance(st, ast.Try):
            go(list(st.body) + list(st.orelse) + list(st.finalbody) + tail, events)
            for h in st.handlers:
                go(list(h.body) + list(st.finalbody) + tail, events + [("handler", h)])
        elif isinstance(st, (ast.FunctionDef, ast.AsyncFunctionDef, ast.ClassDef)):
            go(tail, events + [("def", st)])
        elif isinstance(st, ast.Expr) and isinstance(st.value, ast.Constant) and isinstance(st.value.value, str):
            go(tail, events)  # docstring
        else:
            go(tail, events + [("stmt", st)])

    go(list(stmts), [])
    return out


# -- aliases / normalisation ----------------------------------------------------------------------------------
def aliases(fnode):
    cnt, val = {}, {}
    for n in ast.walk(fnode):
        if isinstance(n, ast.Assign) and len(n.targets) == 1:
            t = n.targets[0]
            if isinstance(t, ast.Name):
                cnt[t.id] = cnt.get(t.id, 0) + 1
                val[t.id] = n.value
            elif isinstance(t, ast.Tuple) and isinstance(n.value, ast.Tuple) and len(t.elts) == len(n.value.elts):
                for a, b in zip(t.elts, n.value.elts):
                    if isinstance(a, ast.Name):
                        cnt[a.id] = cnt.get(a.id, 0) + 1
                        val[a.id] = b
        elif isinstance(n, (ast.For, ast.comprehension)):
            for x in ast.walk(n.target):
                if isinstance(x, ast.Name):
                    cnt[x.id] = cnt.get(x.id, 0) + 2  # loop variables are not aliases
        elif isinstance(n, (ast.AugAssign, ast.AnnAssign)) and isinstance(n.target, ast.Name):
            cnt[n.target.id] = cnt.get(n.target.id, 0) + 2
    return {k: v for k, v in val.items() if cnt[k] == 1 and isinstance(v, (ast.Attribute, ast.Name))}


def norm(node, al=None):
    al = al or {}

    class Sub(ast.NodeTransformer):
        def visit_Name(self, n):
            if n.id in al:
                return self.visit(copy.deepcopy(al[n.id]))
            return n

    return ast.unparse(Sub().visit(copy.deepcopy(node)))


def atoms(test, outcome, al=None):
    """Normalised facts established by `test` evaluating to `outcome`."""
    out = []
    if isinstance(test, ast.UnaryOp) and isinstance(test.op, ast.Not):
        return atoms(test.operand, not outcome, al)
    if isinstance(test, ast.BoolOp):
        if isinstance(test.op, ast.And) and outcome:
            for v in test.values:
                out += atoms(v, True, al)
        elif isinstance(test.op, ast.Or) and not outcome:
            for v in test.values:
                out += atoms(v, False, al)
        else:
            # a disjunction of alternatives: (A or B) taken / (A and B) not taken
            out.append(("or", tuple(tuple(atoms(v, outcome, al)) for v in test.values)))
        return out
    if isinstance(test, ast.Compare) and len(test.ops) == 1:
        op, l, r = test.ops[0], test.left, test.comparators[0]
        if isinstance(op, (ast.In, ast.NotIn)):
            pos = isinstance(op, ast.In)
            return [("in", norm(l, al), norm(r, al), pos == outcome)]
        if isinstance(op, (ast.Is, ast.IsNot)) and isinstance(r, ast.Constant) and r.value is None:
            pos = isinstance(op, ast.Is)
            return [("none", norm(l, al), pos == outcome)]
        return [("cmp", type(op).__name__, norm(l, al), norm(r, al), outcome)]
    if isinstance(test, (ast.Name, ast.Attribute, ast.Call, ast.Subscript)):
        return [("truthy", norm(test, al), outcome)]
    return out


def facts(path, upto=None, al=None):
    out = []
    ev = path.events if upto is None else path.events[:upto]
    for e in ev:
        if e[0] == "cond":
            out += atoms(e[1], e[2], al)
    return out


def calls_in(node, pred):
    return [n for n in ast.walk(node) if isinstance(n, ast.Call) and pred(n)]


def local_env(prog, f):
    """name -> folded value for the locals of f that are assigned exactly once from a foldable expression."""
    from .pysrc import Unknown

    cnt, env = {}, {}
    for n in ast.walk(f.node):
        if isinstance(n, ast.Assign) and len(n.targets) == 1 and isinstance(n.targets[0], ast.Name):
            cnt[n.targets[0].id] = cnt.get(n.targets[0].id, 0) + 1
    for n in ast.walk(f.node):
        if isinstance(n, ast.Assign) and len(n.targets) == 1 and isinstance(n.targets[0], ast.Name) and cnt[n.targets[0].id] == 1:
            v = prog.const(n.value, f.module, env, f.cls)
            if not isinstance(v, Unknown):
                env[n.targets[0].id] = v
    return env


def tables_by_use(prog, f):
    """[(dict value, Subscript node)] for every `T[key]` in f whose T folds to a dict - wherever T is defined (inline literal, local,
    class attribute, module constant)."""
    env = local_env(prog, f)
    out = []
    for n in ast.walk(f.node):
        if isinstance(n, ast.Subscript) and isinstance(n.ctx, ast.Load):
            v = prog.const(n.value, f.module, env, f.cls)
            if isinstance(v, dict) and v:
                out.append((v, n))
        # T.get(key[, default]) is a lookup as well (reported as the equivalent subscript)
        if isinstance(n, ast.Call) and isinstance(n.func, ast.Attribute) and n.func.attr == "get" and 1 <= len(n.args) <= 2 and not n.keywords:
            v = prog.const(n.func.value, f.module, env, f.cls)
            if isinstance(v, dict) and v:
                out.append((v, ast.copy_location(ast.Subscript(value=n.func.value, slice=n.args[0], ctx=ast.Load()), n)))
    return out


# -- reasoning over facts ----------------------------------------------------------------------------------------
def implied(fs, pred):
    """True when the conjunction of facts `fs` establishes a fact satisfying pred: some atom does, or some disjunction does in
    every alternative."""
    for a in fs:
        if a[0] == "or":
            if a[1] and all(implied(alt, pred) for alt in a[1]):
                return True
        elif pred(a):
            return True
    return False


def value_aliases(fnode):
    """Like aliases() but also for names assigned once from any call-free-of-side-effect-looking expression (calls included):
    used to compare *keys* (`partname = PackURI.from_rel_ref(...)` then `partname in parts`)."""
    cnt, val = {}, {}
    for n in ast.walk(fnode):
        if isinstance(n, ast.Assign) and len(n.targets) == 1 and isinstance(n.targets[0], ast.Name):
            cnt[n.targets[0].id] = cnt.get(n.targets[0].id, 0) + 1
            val[n.targets[0].id] = n.value
        elif isinstance(n, ast.AnnAssign) and isinstance(n.target, ast.Name) and n.value is not None:
            cnt[n.target.id] = cnt.get(n.target.id, 0) + 1
            val[n.target.id] = n.value
        elif isinstance(n, ast.Assign) and len(n.targets) == 1 and isinstance(n.targets[0], ast.Tuple) \
                and isinstance(n.value, ast.Tuple) and len(n.targets[0].elts) == len(n.value.elts):
            for a, b in zip(n.targets[0].elts, n.value.elts):
                if isinstance(a, ast.Name):
                    cnt[a.id] = cnt.get(a.id, 0) + 1
                    val[a.id] = b
        elif isinstance(n, ast.Assign) and len(n.targets) == 1 and isinstance(n.targets[0], ast.Tuple) \
                and isinstance(n.value, (ast.Attribute, ast.Name, ast.Call, ast.Subscript)) and not any(isinstance(e, ast.Starred) for e in n.targets[0].elts):
            # unpacking of a stored tuple: the i-th name is value[i]
            for i, a in enumerate(n.targets[0].elts):
                if isinstance(a, ast.Name):
                    cnt[a.id] = cnt.get(a.id, 0) + 1
                    val[a.id] = ast.Subscript(value=copy.deepcopy(n.value), slice=ast.Constant(value=i), ctx=ast.Load())
        elif isinstance(n, ast.For):
            for x in ast.walk(n.target):
                if isinstance(x, ast.Name):
                    cnt[x.id] = cnt.get(x.id, 0) + 2
        elif isinstance(n, ast.comprehension):
            pass   # a comprehension's variable lives in the comprehension's own scope (substitution respects that: see full())
        elif isinstance(n, ast.AugAssign) and isinstance(n.target, ast.Name):
            cnt[n.target.id] = cnt.get(n.target.id, 0) + 2
        elif isinstance(n, (ast.FunctionDef, ast.Lambda)) and n is not fnode:
            for a in n.args.args:
                cnt[a.arg] = cnt.get(a.arg, 0) + 2
    return {k: v for k, v in val.items() if cnt[k] == 1}


class Row:
    """One outcome of a block: the facts established on the path and how it ends."""
    __slots__ = ("facts", "end", "value", "exc", "handlers", "path")

    def __repr__(self):
        return "Row(%s %s %s %s)" % (self.end, self.value, self.exc, self.facts)


def feasible(path):
    """False when a branch decision on the path contradicts a constant assigned to the tested name earlier on the same path
    (`x = None` ... `if x is None:` not taken)."""
    env = {}
    decided = {}   # plain local name -> truth value a test on this path has given it (forgotten when the name is re-bound)
    for e in path.events:
        if e[0] == "stmt":
            st = e[1]
            for x in ast.walk(st):
                if isinstance(x, ast.Name) and isinstance(x.ctx, (ast.Store, ast.Del)):
                    decided.pop(x.id, None)
            tgts = []
            if isinstance(st, ast.Assign):
                tgts = [t for t in st.targets]
                v = st.value
            elif isinstance(st, (ast.AnnAssign, ast.AugAssign)):
                tgts, v = [st.target], None
            for t in tgts:
                for x in ast.walk(t):
                    if isinstance(x, ast.Name):
                        if isinstance(t, ast.Name) and isinstance(st, ast.Assign) and isinstance(v, ast.Constant):
                            env[x.id] = v.value
                        else:
                            env.pop(x.id, None)
        elif e[0] == "cond":
            for a in atoms(e[1], e[2]):
                if a[0] == "none" and a[1] in env and (env[a[1]] is None) != a[2]:
                    return False
                if a[0] == "truthy" and a[1] in env and bool(env[a[1]]) != a[2]:
                    return False
                # the same unchanged local tested twice with opposite results
                if a[0] == "truthy" and isinstance(a[1], str) and a[1].isidentifier():
                    if a[1] in decided and decided[a[1]] != a[2]:
                        return False
                    decided[a[1]] = a[2]
        elif e[0] in ("loop", "with", "handler", "def"):
            env.clear()
            decided.clear()
    return True


def outcomes(stmts, al=None):
    rows = []
    for p in enum_paths(stmts):
        if not feasible(p):
            continue
        r = Row()
        r.path, r.end = p, p.end
        r.facts = facts(p, None, al)
        r.value = norm(p.end_node.value, al) if p.end == "return" and p.end_node.value is not None else (None if p.end != "return" else "None")
        r.exc = None
        if p.end == "raise" and p.end_node.exc is not None:
            e = p.end_node.exc
            r.exc = ast.unparse(e.func) if isinstance(e, ast.Call) else ast.unparse(e)
        r.handlers = [ast.unparse(e[1].type) if e[1].type is not None else "BaseException" for e in p.events if e[0] == "handler"]
        rows.append(r)
    return rows


def full(e, val, depth=4):
    """source of expression `e` (node or source text) with value_aliases substituted (calls and subscripts included)"""
    class Sub(ast.NodeTransformer):
        shadow = ()

        def visit_Name(self, n):
            return copy.deepcopy(val[n.id]) if n.id in val and n.id not in self.shadow else n

        def _comp(self, n):
            # names bound by the comprehension's own clauses are not the function's locals of the same name
            own = {x.id for g in n.generators for x in ast.walk(g.target) if isinstance(x, ast.Name)}
            first = n.generators[0]
            first.iter = self.visit(first.iter)   # the outermost iterable is evaluated in the enclosing scope
            old = self.shadow
            self.shadow = tuple(set(old) | own)
            try:
                for i, g in enumerate(n.generators):
                    if i:
                        g.iter = self.visit(g.iter)
                    g.ifs = [self.visit(c) for c in g.ifs]
                if isinstance(n, ast.DictComp):
                    n.key, n.value = self.visit(n.key), self.visit(n.value)
                else:
                    n.elt = self.visit(n.elt)
            finally:
                self.shadow = old
            return n

        visit_ListComp = visit_SetComp = visit_GeneratorExp = visit_DictComp = _comp

    t = ast.parse(e, mode="eval").body if isinstance(e, str) else copy.deepcopy(e)
    for _ in range(depth):
        t = Sub().visit(t)
    return ast.unparse(t)


def return_rows_deep(stmts, al=None, _pre=()):
    """[(facts, return node)] for every `return` reachable in the block, loops included: the facts of a return inside a loop body
    are those on the way to the loop plus those inside the body (loops nested in loops likewise)."""
    out = []
    for p in enum_paths(stmts):
        if not feasible(p):
            continue
        for i, e in enumerate(p.events):
            if e[0] == "loop" and isinstance(e[1], (ast.For, ast.While)):
                out += return_rows_deep(e[1].body, al, tuple(_pre) + tuple(facts(p, i, al)))
        if p.end == "return":
            out.append((list(_pre) + facts(p, None, al), p.end_node))
    # one entry per return node and fact set
    seen, uniq = set(), []
    for fs, n in out:
        k = (id(n), repr(fs))
        if k not in seen:
            seen.add(k)
            uniq.append((fs, n))
    return uniq
