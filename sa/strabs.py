"""Engine D (part 1) — abstract evaluation of the string-building subset the repo uses.

Abstract value  S ::= Lit(str) | Hole | Cat([S]) | Alt([S]) | Star(S)
A Hole is an expression whose value is not a statically known string; it keeps the expression
node, the function context it was evaluated in, the format spec it was rendered with and the
sanitiser applied to it (escape -> "text", escape with a quote map / quoteattr -> "attr").
"""

from __future__ import annotations

import ast
import re

from .pysrc import ClassInfo, EnumMember, FuncInfo, Unknown, dotted
from .report import AnalysisError
from .types import FCtx, walk_own


class S:
    pass


class Lit(S):
    __slots__ = ("s",)

    def __init__(self, s):
        self.s = s

    def __repr__(self):
        return "Lit(%r)" % (self.s if len(self.s) < 40 else self.s[:37] + "...")


class Hole(S):
    __slots__ = ("expr", "fc", "spec", "san", "numeric", "why", "values")

    def __init__(self, expr, fc, spec=None, san=None, numeric=False, why="", values=None):
        self.expr = expr
        self.fc = fc
        self.spec = spec
        self.san = san
        self.numeric = numeric
        self.why = why
        self.values = values

    @property
    def src(self):
        try:
            return ast.unparse(self.expr)
        except Exception:  # noqa: BLE001
            return "?"

    @property
    def where(self):
        f = self.fc.fn if self.fc is not None else None
        return "%s:%s" % (f.file if f else "?", getattr(self.expr, "lineno", "?"))

    def __repr__(self):
        return "Hole(%s%s%s)" % (self.src, ":" + self.spec if self.spec else "", "|" + self.san if self.san else "")


class Cat(S):
    __slots__ = ("items",)

    def __init__(self, items):
        self.items = items

    def __repr__(self):
        return "Cat(%r)" % (self.items,)


class Alt(S):
    __slots__ = ("items",)

    def __init__(self, items):
        self.items = items

    def __repr__(self):
        return "Alt(%r)" % (self.items,)


class Star(S):
    __slots__ = ("item",)

    def __init__(self, item):
        self.item = item

    def __repr__(self):
        return "Star(%r)" % (self.item,)


class Obj:
    """A local object of a repo class (e.g. `w = _CategorySeriesXmlWriter(series)`)."""

    def __init__(self, cls, args, kwargs, fc, node):
        self.cls = cls
        self.args = args
        self.kwargs = kwargs
        self.fc = fc
        self.node = node


EPS = Lit("")


def cat(items):
    out = []
    for i in items:
        if isinstance(i, Cat):
            out.extend(i.items)
        elif isinstance(i, Lit) and i.s == "":
            continue
        else:
            out.append(i)
    merged = []
    for i in out:
        if merged and isinstance(i, Lit) and isinstance(merged[-1], Lit):
            merged[-1] = Lit(merged[-1].s + i.s)
        else:
            merged.append(i)
    if not merged:
        return EPS
    if len(merged) == 1:
        return merged[0]
    return Cat(merged)


def alt(items):
    out = []
    seen = set()
    for i in items:
        if isinstance(i, Alt):
            sub = i.items
        else:
            sub = [i]
        for x in sub:
            k = skey(x)
            if k not in seen:
                seen.add(k)
                out.append(x)
    if len(out) == 1:
        return out[0]
    return Alt(out)


def skey(s):
    if isinstance(s, Lit):
        return ("L", s.s)
    if isinstance(s, Hole):
        return ("H", id(s.expr), s.spec, s.san, id(s.fc.fn) if s.fc and s.fc.fn else None)
    if isinstance(s, Cat):
        return ("C",) + tuple(skey(i) for i in s.items)
    if isinstance(s, Alt):
        return ("A",) + tuple(skey(i) for i in s.items)
    if isinstance(s, Star):
        return ("S", skey(s.item))
    return ("?", id(s))


def is_str_like(v):
    return isinstance(v, S)


def holes(s):
    if isinstance(s, Hole):
        yield s
    elif isinstance(s, (Cat, Alt)):
        for i in s.items:
            yield from holes(i)
    elif isinstance(s, Star):
        yield from holes(s.item)


_PCT = re.compile(r"%(?:\((\w+)\))?([-#0 +]*)(\*|\d+)?(?:\.(\*|\d+))?([diouxXeEfFgGcrsa%])")
_FMT = re.compile(r"\{\{|\}\}|\{([^{}!:]*)(?:!([rsa]))?(?::([^{}]*))?\}")


class _Return(Exception):
    pass


class StrEval:
    _split_depth = 0

    """Evaluator.  `bindings` maps dotted expression text (e.g. 'self._chart_type') to a constant
    used to fold conditions and dict lookups (chart-type specialisation)."""

    MAX_DEPTH = 14

    def __init__(self, prog, types, bindings=None):
        self.prog = prog
        self.T = types
        self.bindings = bindings or {}
        self.unknown = []  # constructs the evaluator could not interpret (fail closed by callers)
        self.parsed = []  # (call node, FCtx, value, inlining stack) for every parse_xml(...) evaluated
        self._stack = []

    # -- public ----------------------------------------------------------------------------------
    def function_value(self, f, selfcls=None, args=None, kwargs=None, callnode=None, callfc=None):
        """Abstract value returned by f (Alt over return statements), parameters bound to `args`."""
        key = (f, selfcls)
        if key in self._stack or len(self._stack) > self.MAX_DEPTH:
            return Hole(callnode if callnode is not None else f.node, callfc or FCtx(f, selfcls), why="recursion")
        self._stack.append(key)
        try:
            fc = FCtx(f, selfcls)
            env = {}
            params = list(f.params)
            a = f.node.args
            if f.cls is not None and f.kind != "staticmethod" and params:
                env[params[0]] = ("self", selfcls or f.cls)
                params = params[1:]
            args = list(args or [])
            kwargs = dict(kwargs or {})
            defaults = dict(zip([x.arg for x in (a.posonlyargs + a.args)][::-1], a.defaults[::-1]))
            for i, p in enumerate(params):
                if i < len(args):
                    env[p] = args[i]
                elif p in kwargs:
                    env[p] = kwargs[p]
                elif p in defaults:
                    env[p] = self.eval(defaults[p], fc, {})
                # else: unbound -> Hole on demand
            for ko in a.kwonlyargs:
                if ko.arg in kwargs:
                    env[ko.arg] = kwargs[ko.arg]
            rets = []
            self._block(f.node.body, fc, env, rets)
            if not rets:
                return None
            vals = [r for r in rets if r is not None]
            if not vals:
                return None
            if all(isinstance(v, S) for v in vals):
                return alt(vals)
            if all(isinstance(v, tuple) and v and v[0] == "parsed" and isinstance(v[1], S) for v in vals):
                return ("parsed", alt([v[1] for v in vals]), vals[0][2])
            # mixed / non-string returns
            strs = [v for v in vals if isinstance(v, S)]
            if strs:
                return alt(strs)
            return vals[0]
        finally:
            self._stack.pop()

    # -- statements ------------------------------------------------------------------------------
    def _block(self, stmts, fc, env, rets):
        """Execute statements abstractly; returns False if the block always terminates (return/raise)."""
        for i, st in enumerate(stmts):
            if isinstance(st, ast.If) and i + 1 < len(stmts) and self._split_depth < 4 and _binding_only(st) \
                    and self._fold(st.test, fc, env) not in (True, False):
                # arms that bind the same name to different non-string values (a template *and* the function that supplies its
                # fields, chosen together): the rest of the block is evaluated once per arm, so the pairing is kept
                both = _bound_names(st.body) & _bound_names(st.orelse)
                mark = (len(self.unknown), len(self.parsed))
                e1, e2 = dict(env), dict(env)
                c1 = self._block(st.body, fc, e1, [])
                c2 = self._block(st.orelse, fc, e2, [])
                conflict = c1 and c2 and any(
                    not (isinstance(e1.get(k), S) and isinstance(e2.get(k), S)) and not (
                        e1.get(k) is not None and e2.get(k) is not None and (e1[k] is e2[k] or _same(e1[k], e2[k]))) for k in both)
                if conflict:
                    del self.unknown[mark[0]:]
                    del self.parsed[mark[1]:]
                    e1, e2 = dict(env), dict(env)
                    self._split_depth += 1
                    try:
                        d1 = self._block(list(st.body) + list(stmts[i + 1:]), fc, e1, rets)
                        d2 = self._block(list(st.orelse) + list(stmts[i + 1:]), fc, e2, rets)
                    finally:
                        self._split_depth -= 1
                    if d1 and d2:
                        self._merge(env, e1, e2)
                    elif d1 or d2:
                        env.clear()
                        env.update(e1 if d1 else e2)
                    return d1 or d2
                del self.unknown[mark[0]:]
                del self.parsed[mark[1]:]
            if not self._stmt(st, fc, env, rets):
                return False
        return True

    def _stmt(self, st, fc, env, rets):
        if isinstance(st, ast.Return):
            rets.append(self.eval(st.value, fc, env) if st.value is not None else None)
            return False
        if isinstance(st, ast.Raise):
            return False
        if isinstance(st, ast.Expr):
            return True
        if isinstance(st, ast.Assign):
            v = self.eval(st.value, fc, env)
            for t in st.targets:
                self._assign(t, v, st.value, fc, env)
            return True
        if isinstance(st, ast.AnnAssign):
            if st.value is not None and isinstance(st.target, ast.Name):
                env[st.target.id] = self.eval(st.value, fc, env)
            return True
        if isinstance(st, ast.AugAssign):
            if isinstance(st.target, ast.Name) and isinstance(st.op, ast.Add):
                cur = env.get(st.target.id)
                v = self.eval(st.value, fc, env)
                if isinstance(cur, S) and isinstance(v, S):
                    env[st.target.id] = cat([cur, v])
                elif isinstance(cur, S):
                    env[st.target.id] = cat([cur, self._as_hole(st.value, fc, v)])
                else:
                    env.pop(st.target.id, None)
            elif isinstance(st.target, ast.Name):
                env.pop(st.target.id, None)
            return True
        if isinstance(st, ast.If):
            t = self._fold(st.test, fc, env)
            if t is True:
                return self._block(st.body, fc, env, rets)
            if t is False:
                return self._block(st.orelse, fc, env, rets)
            e1, e2 = dict(env), dict(env)
            c1 = self._block(st.body, fc, e1, rets)
            c2 = self._block(st.orelse, fc, e2, rets)
            if c1 and c2:
                self._merge(env, e1, e2)
            elif c1:
                env.clear()
                env.update(e1)
            elif c2:
                env.clear()
                env.update(e2)
            else:
                return False
            return True
        if isinstance(st, (ast.For, ast.While)):
            return self._loop(st, fc, env, rets)
        if isinstance(st, ast.Try):
            e1 = dict(env)
            c = self._block(st.body, fc, e1, rets)
            outs = [e1] if c else []
            for h in st.handlers:
                eh = dict(env)
                if self._block(h.body, fc, eh, rets):
                    outs.append(eh)
            if not outs:
                return False
            base = outs[0]
            for o in outs[1:]:
                m = dict(env)
                self._merge(m, base, o)
                base = m
            env.clear()
            env.update(base)
            if st.finalbody:
                return self._block(st.finalbody, fc, env, rets)
            return True
        if isinstance(st, ast.With):
            return self._block(st.body, fc, env, rets)
        if isinstance(st, (ast.FunctionDef, ast.AsyncFunctionDef)):
            env[st.name] = ("localfn", st, fc, env)
            return True
        if isinstance(st, (ast.Pass, ast.Import, ast.ImportFrom, ast.Assert, ast.Delete, ast.Global, ast.ClassDef)):
            return True
        if isinstance(st, (ast.Continue, ast.Break)):
            return False  # this path contributes nothing more to the iteration (Star covers skipping)
        return True

    def _assign(self, t, v, vexpr, fc, env):
        if isinstance(t, ast.Name):
            env[t.id] = v
        elif isinstance(t, (ast.Tuple, ast.List)):
            if isinstance(v, tuple) and v and v[0] == "tuple" and len(v[1]) == len(t.elts):
                for e, x in zip(t.elts, v[1]):
                    self._assign(e, x, vexpr, fc, env)
            else:
                for e in t.elts:
                    if isinstance(e, ast.Name):
                        env.pop(e.id, None)
                        env[e.id] = ("opaque", ast.Subscript(value=vexpr, slice=ast.Constant(t.elts.index(e)), ctx=ast.Load()))
        # attribute / subscript stores: ignored (not string building)

    def _merge(self, env, e1, e2):
        env.clear()
        for k in set(e1) | set(e2):
            a, b = e1.get(k), e2.get(k)
            if a is b:
                env[k] = a
            elif isinstance(a, S) and isinstance(b, S):
                env[k] = alt([a, b])
            elif a is None or b is None:
                v = a if a is not None else b
                if isinstance(v, S):
                    continue  # defined on one path only: leave unbound (Hole on use)
                env[k] = v
            elif _same(a, b):
                env[k] = a
            # else: conflicting non-strings: unbound

    def _loop(self, st, fc, env, rets):
        # loop variables become opaque
        body_env = dict(env)
        if isinstance(st, ast.For):
            for n in ast.walk(st.target):
                if isinstance(n, ast.Name):
                    body_env[n.id] = ("loopvar", n, st)
        # find accumulated string variables: x += ... in the body
        acc = set()
        for n in ast.walk(st):
            if isinstance(n, ast.AugAssign) and isinstance(n.target, ast.Name) and isinstance(n.op, ast.Add):
                if isinstance(env.get(n.target.id), S):
                    acc.add(n.target.id)
        markers = {}
        for v in acc:
            m = Hole(ast.Name(id=v, ctx=ast.Load()), fc, why="loop-marker")
            markers[v] = m
            body_env[v] = m
        inner_rets = []
        try:
            self._block(st.body, fc, body_env, inner_rets)
        except _LoopExit:
            pass
        rets.extend(inner_rets)
        for v in acc:
            res = body_env.get(v)
            delta = _strip_prefix(res, markers[v])
            if delta is None:
                self.unknown.append(("loop accumulation of %s not of the form x += ..." % v, fc.fn, st.lineno))
                env.pop(v, None)
            else:
                env[v] = cat([env[v], Star(delta)])
        # other variables assigned in the loop become unbound afterwards
        for n in ast.walk(st):
            if isinstance(n, ast.Assign):
                for t in n.targets:
                    for x in ast.walk(t):
                        if isinstance(x, ast.Name) and x.id not in acc:
                            env.pop(x.id, None)
        if isinstance(st, ast.For):
            for n in ast.walk(st.target):
                if isinstance(n, ast.Name):
                    env.pop(n.id, None)
        if getattr(st, "orelse", None):
            return self._block(st.orelse, fc, env, rets)
        return True

    # -- condition folding -----------------------------------------------------------------------
    def _fold(self, test, fc, env):
        v = self._const(test, fc, env)
        if isinstance(v, bool):
            return v
        return None

    def _const(self, e, fc, env):
        """Constant value of expression using bindings + env constants; Unknown otherwise."""
        d = dotted(e)
        if d is not None and d in self.bindings:
            return self.bindings[d]
        if isinstance(e, ast.Name) and e.id in env:
            v = env[e.id]
            if isinstance(v, tuple) and v and v[0] == "const":
                return v[1]
            if isinstance(v, Lit):
                return v.s
            if isinstance(v, tuple) and v and v[0] == "tuple":
                items = []
                for x in v[1]:
                    if isinstance(x, tuple) and x and x[0] == "const":
                        items.append(x[1])
                    elif isinstance(x, Lit):
                        items.append(x.s)
                    else:
                        return Unknown("env tuple")
                return tuple(items)
            return Unknown("env")
        if isinstance(e, ast.Attribute) and isinstance(e.value, ast.Name) and e.value.id in env:
            base = env[e.value.id]
            if isinstance(base, tuple) and base[0] == "const" and hasattr(base[1], "cls"):
                # ClassRef alias (XL = XL_CHART_TYPE)
                for m in self.prog._enum_members_mro(base[1].cls):
                    if m.name == e.attr:
                        return m
            return Unknown("env attr")
        if isinstance(e, ast.Compare) and len(e.ops) == 1:
            l = self._const(e.left, fc, env)
            r = self._const(e.comparators[0], fc, env)
            if isinstance(l, Unknown) or isinstance(r, Unknown):
                return Unknown("cmp")
            op = e.ops[0]
            try:
                if isinstance(op, ast.In):
                    return l in r
                if isinstance(op, ast.NotIn):
                    return l not in r
                if isinstance(op, (ast.Eq, ast.Is)):
                    return l == r
                if isinstance(op, (ast.NotEq, ast.IsNot)):
                    return l != r
            except TypeError:
                return Unknown("cmp")
            return Unknown("cmp")
        if isinstance(e, ast.BoolOp):
            vals = [self._const(v, fc, env) for v in e.values]
            if isinstance(e.op, ast.And):
                if any(v is False for v in vals):
                    return False
                if all(v is True for v in vals):
                    return True
            else:
                if any(v is True for v in vals):
                    return True
                if all(v is False for v in vals):
                    return False
            return Unknown("bool")
        if isinstance(e, ast.UnaryOp) and isinstance(e.op, ast.Not):
            v = self._const(e.operand, fc, env)
            return (not v) if isinstance(v, bool) else Unknown("not")
        if isinstance(e, (ast.Tuple, ast.List, ast.Set)):
            vs = [self._const(x, fc, env) for x in e.elts]
            if any(isinstance(v, Unknown) for v in vs):
                return Unknown("seq")
            return tuple(vs)
        if fc is not None and fc.module is not None:
            sub_env = {k: v[1] for k, v in env.items() if isinstance(v, tuple) and v and v[0] == "const"}
            return self.prog.const(e, fc.module, sub_env or None, None)
        return Unknown("?")

    # -- expressions -----------------------------------------------------------------------------
    def _as_hole(self, node, fc, v=None, **kw):
        if isinstance(v, S):
            return v
        return Hole(node, fc, **kw)

    def eval(self, e, fc, env):
        """Value of expression: S (string-like), ("const", v), Obj, ("self", cls), or ("opaque", node)."""
        if e is None:
            return ("const", None)
        if isinstance(e, ast.Constant):
            if isinstance(e.value, str):
                return Lit(e.value)
            return ("const", e.value)
        if isinstance(e, ast.JoinedStr):
            parts = []
            for p in e.values:
                if isinstance(p, ast.Constant):
                    parts.append(Lit(str(p.value)))
                else:
                    spec = None
                    if p.format_spec is not None:
                        sv = self.eval(p.format_spec, fc, env)
                        spec = sv.s if isinstance(sv, Lit) else "?"
                    parts.append(self._render(p.value, fc, env, spec))
            return cat(parts)
        if isinstance(e, ast.Name):
            if e.id in env:
                return env[e.id]
            d = e.id
            if d in self.bindings:
                return ("const", self.bindings[d])
            if fc is not None and fc.module is not None:
                r = self.prog.resolve(fc.module, e.id)
                if isinstance(r, ClassInfo):
                    from .pysrc import ClassRef

                    return ("const", ClassRef(r))
                if isinstance(r, FuncInfo):
                    return ("func", r)
                if isinstance(r, tuple) and r[0] == "expr":
                    v = self.prog.const(r[2], r[1])
                    if isinstance(v, str):
                        return Lit(v)
                    from .pysrc import CallValue as _CallValue

                    if not isinstance(v, (Unknown, _CallValue)):
                        return ("const", v)
                    # a module-level template built by a string function of constants (`textwrap.dedent("""...""")`, a join of
                    # constant lines): evaluated where it is defined
                    if isinstance(r[2], ast.Call) and getattr(self, "_modlevel_depth", 0) < 3:
                        from .types import FCtx as _FCtx

                        self._modlevel_depth = getattr(self, "_modlevel_depth", 0) + 1
                        try:
                            mfc = _FCtx(fc.fn, fc.selfcls) if fc.module is r[1] else None
                            if mfc is None:
                                import copy as _copy

                                mfc = _copy.copy(fc)
                                mfc.module = r[1]
                            mv = self.eval(r[2], mfc, {})
                        finally:
                            self._modlevel_depth -= 1
                        if isinstance(mv, S):
                            return mv
                    if not isinstance(v, Unknown):
                        return ("const", v)
            return ("opaque", e)
        if isinstance(e, ast.Attribute):
            d = dotted(e)
            if d is not None and d in self.bindings:
                return ("const", self.bindings[d])
            base = self.eval(e.value, fc, env)
            return self._attr(base, e, fc, env)
        if isinstance(e, ast.BinOp):
            if isinstance(e.op, ast.Add):
                l, r = self.eval(e.left, fc, env), self.eval(e.right, fc, env)
                if isinstance(l, S) or isinstance(r, S):
                    return cat([self._as_hole(e.left, fc, l), self._as_hole(e.right, fc, r)])
                if _is_const(l) and _is_const(r):
                    try:
                        return ("const", l[1] + r[1])
                    except Exception:  # noqa: BLE001
                        pass
                return ("opaque", e)
            if isinstance(e.op, ast.Mod):
                l = self.eval(e.left, fc, env)
                if isinstance(l, S):
                    return self._percent(l, e.right, fc, env, e)
                return ("opaque", e)
            l, r = self.eval(e.left, fc, env), self.eval(e.right, fc, env)
            if _is_const(l) and _is_const(r):
                v = self.prog.const(e, fc.module) if fc and fc.module else Unknown("")
                if not isinstance(v, Unknown):
                    return ("const", v)
            return ("opaque", e)
        if isinstance(e, ast.Call):
            return self._call(e, fc, env)
        if isinstance(e, ast.IfExp):
            t = self._fold(e.test, fc, env)
            if t is True:
                return self.eval(e.body, fc, env)
            if t is False:
                return self.eval(e.orelse, fc, env)
            a, b = self.eval(e.body, fc, env), self.eval(e.orelse, fc, env)
            if isinstance(a, S) or isinstance(b, S):
                return alt([self._as_hole(e.body, fc, a), self._as_hole(e.orelse, fc, b)])
            return ("opaque", e)
        if isinstance(e, ast.Subscript):
            return self._subscript(e, fc, env)
        if isinstance(e, ast.Tuple):
            return ("tuple", [self.eval(x, fc, env) for x in e.elts])
        if isinstance(e, ast.Dict):
            keys = []
            for k in e.keys:
                kv = self._const(k, fc, env) if k is not None else Unknown("splat")
                keys.append(kv)
            return ("dict", keys, [self.eval(v, fc, env) for v in e.values], e, fc)
        if isinstance(e, (ast.List,)):
            return ("list", [self.eval(x, fc, env) for x in e.elts])
        if isinstance(e, ast.BoolOp) and isinstance(e.op, ast.Or):
            vals = [self.eval(v, fc, env) for v in e.values]
            if any(isinstance(v, S) for v in vals):
                return alt([self._as_hole(n, fc, v) for n, v in zip(e.values, vals)])
            return ("opaque", e)
        return ("opaque", e)

    def _render(self, node, fc, env, spec=None, conv=None):
        """Render the value of expression `node` into a string position."""
        v = self.eval(node, fc, env)
        return self._render_value(v, node, fc, spec)

    def _render_value(self, v, node, fc, spec=None):
        if isinstance(v, S):
            if spec and spec[-1:] in "dxXofeEgGn" and isinstance(v, Hole):
                return Hole(v.expr, v.fc, spec=spec, san=v.san, numeric=True)
            return v
        if _is_const(v):
            c = v[1]
            if isinstance(c, (int, float)) and not isinstance(c, bool):
                return Lit(format(c, spec) if spec and spec != "?" else str(c))
            if isinstance(c, str):
                return Lit(c)
            if isinstance(c, EnumMember):
                return Hole(node, fc, spec=spec, why="enum member", values=None)
            if c is None:
                return Lit("None")
            return Hole(node, fc, spec=spec)
        if isinstance(v, tuple) and v and v[0] == "opaque":
            numeric = bool(spec) and spec[-1:] in "dxXofeEgGn"
            # an argument bound at a call site keeps the context it was written in
            hfc = v[2] if len(v) > 2 and v[2] is not None else fc
            return Hole(v[1] if v[1] is not None else node, hfc, spec=spec, numeric=numeric)
        if isinstance(v, tuple) and v and v[0] == "loopvar":
            numeric = bool(spec) and spec[-1:] in "dxXofeEgGn"
            return Hole(node, fc, spec=spec, numeric=numeric)
        numeric = bool(spec) and spec[-1:] in "dxXofeEgGn"
        return Hole(node, fc, spec=spec, numeric=numeric)

    def _tuple_items(self, e, fc, env, depth=0):
        """[(abstract value, node)] of a tuple-valued expression: a literal, a concatenation of tuples, or a local bound once to one"""
        if depth > 6:
            return None
        if isinstance(e, ast.Tuple) and not any(isinstance(x, ast.Starred) for x in e.elts):
            return [(self.eval(x, fc, env), x) for x in e.elts]
        if isinstance(e, ast.BinOp) and isinstance(e.op, ast.Add):
            l, r = self._tuple_items(e.left, fc, env, depth + 1), self._tuple_items(e.right, fc, env, depth + 1)
            return l + r if l is not None and r is not None else None
        if isinstance(e, ast.Name):
            defs = [n.value for n in ast.walk(fc.fn.node) if isinstance(n, ast.Assign) and len(n.targets) == 1
                    and isinstance(n.targets[0], ast.Name) and n.targets[0].id == e.id]
            if len(defs) == 1:
                return self._tuple_items(defs[0], fc, env, depth + 1)
        return None

    def _percent(self, tmpl, right, fc, env, node):
        items = self._tuple_items(right, fc, env) if isinstance(right, (ast.BinOp, ast.Name)) else None
        rv = ("tuple", [v for v, _n in items]) if items is not None else self.eval(right, fc, env)
        if items is not None:
            args = list(items)
        elif isinstance(rv, tuple) and rv and rv[0] == "tuple":
            args = list(zip(rv[1], right.elts))
        elif isinstance(rv, tuple) and rv and rv[0] == "dict":
            return self._percent_map(tmpl, rv, fc, node)
        else:
            args = [(rv, right)]
        args = list(args)
        ok = [True]

        def sub_lit(s):
            out = []
            pos = 0
            for m in _PCT.finditer(s):
                out.append(Lit(s[pos:m.start()]))
                pos = m.end()
                if m.group(5) == "%":
                    out.append(Lit("%"))
                    continue
                if m.group(1):
                    ok[0] = False
                    continue
                if not args:
                    ok[0] = False
                    continue
                v, n = args.pop(0)
                conv = m.group(5)
                spec = conv if conv in "dioxXeEfFgG" else None
                out.append(self._render_value(v, n, fc, spec))
            out.append(Lit(s[pos:]))
            return cat(out)

        res = _map_lits(tmpl, sub_lit)
        if not ok[0] or args:
            self.unknown.append(("%-format arity/keys not understood", fc.fn, getattr(node, "lineno", 0)))
            return Hole(node, fc, why="percent")
        return res

    def _percent_map(self, tmpl, dv, fc, node):
        keys, vals = dv[1], dv[2]
        mp = {k: (v, n) for k, v, n in zip(keys, vals, dv[3].values) if isinstance(k, str)}
        bad = [False]

        def sub_lit(s):
            out = []
            pos = 0
            for m in _PCT.finditer(s):
                out.append(Lit(s[pos:m.start()]))
                pos = m.end()
                if m.group(5) == "%":
                    out.append(Lit("%"))
                    continue
                k = m.group(1)
                if k is None or k not in mp:
                    bad[0] = True
                    continue
                v, n = mp[k]
                conv = m.group(5)
                out.append(self._render_value(v, n, fc, conv if conv in "dioxXeEfFgG" else None))
            out.append(Lit(s[pos:]))
            return cat(out)

        res = _map_lits(tmpl, sub_lit)
        if bad[0]:
            self.unknown.append(("%-format with mapping not understood", fc.fn, getattr(node, "lineno", 0)))
            return Hole(node, fc, why="percent-map")
        return res

    def _format(self, tmpl, call, fc, env):
        pos = [self.eval(a, fc, env) for a in call.args if not isinstance(a, ast.Starred)]
        posn = [a for a in call.args if not isinstance(a, ast.Starred)]
        kw = {}
        for k in call.keywords:
            if k.arg is not None:
                kw[k.arg] = (self.eval(k.value, fc, env), k.value)
            else:
                dv = self.eval(k.value, fc, env)
                if isinstance(dv, tuple) and dv and dv[0] == "dict":
                    for kk, vv, nn in zip(dv[1], dv[2], dv[3].values):
                        if isinstance(kk, str):
                            kw[kk] = (vv, nn, dv[4] if len(dv) > 4 else fc)   # rendered where the mapping was written
                        else:
                            self.unknown.append(("format(**{non-literal key})", fc.fn, call.lineno))
                else:
                    self.unknown.append(("format(**expr) with non-literal mapping", fc.fn, call.lineno))
                    return Hole(call, fc, why="format-splat")
        auto = [0]
        bad = [False]

        def sub_lit(s):
            out = []
            p = 0
            for m in _FMT.finditer(s):
                out.append(Lit(s[p:m.start()]))
                p = m.end()
                if m.group(0) == "{{":
                    out.append(Lit("{"))
                    continue
                if m.group(0) == "}}":
                    out.append(Lit("}"))
                    continue
                name, conv, spec = m.group(1), m.group(2), m.group(3)
                if name == "" or name is None:
                    idx = auto[0]
                    auto[0] += 1
                    if idx < len(pos):
                        out.append(self._render_value(pos[idx], posn[idx], fc, spec))
                    else:
                        bad[0] = True
                elif name.isdigit():
                    idx = int(name)
                    if idx < len(pos):
                        out.append(self._render_value(pos[idx], posn[idx], fc, spec))
                    else:
                        bad[0] = True
                elif name in kw:
                    v, n = kw[name][0], kw[name][1]
                    out.append(self._render_value(v, n, kw[name][2] if len(kw[name]) > 2 else fc, spec))
                else:
                    bad[0] = True
            out.append(Lit(s[p:]))
            return cat(out)

        res = _map_lits(tmpl, sub_lit)
        if bad[0]:
            self.unknown.append(("str.format field not bound", fc.fn, call.lineno))
            return Hole(call, fc, why="format")
        return res

    def _subscript(self, e, fc, env):
        base = self.eval(e.value, fc, env)
        if isinstance(base, tuple) and base and base[0] == "dict":
            k = self._const(e.slice, fc, env)
            keys, vals = base[1], base[2]
            if not isinstance(k, Unknown):
                for kk, vv in zip(keys, vals):
                    if not isinstance(kk, Unknown) and kk == k:
                        return vv
                return ("opaque", e)  # KeyError path
            if all(isinstance(v, S) for v in vals):
                return alt(vals)
            if vals and all(_is_const(v) for v in vals):
                if all(isinstance(v[1], str) for v in vals):
                    return alt([Lit(v[1]) for v in vals])
                return ("oneof", [v[1] for v in vals], e)
            return ("oneof_vals", vals, e)
        if _is_const(base):
            k = self._const(e.slice, fc, env)
            if not isinstance(k, Unknown):
                try:
                    v = base[1][k]
                    return Lit(v) if isinstance(v, str) else ("const", v)
                except Exception:  # noqa: BLE001
                    pass
        if isinstance(base, tuple) and base and base[0] == "tuple":
            k = self._const(e.slice, fc, env)
            if isinstance(k, int) and -len(base[1]) <= k < len(base[1]):
                return base[1][k]
        return ("opaque", e)

    def _attr(self, base, e, fc, env):
        name = e.attr
        if isinstance(base, tuple) and base and base[0] == "self":
            cls = base[1]
            return self._member(cls, name, e, fc, base)
        if isinstance(base, Obj):
            return self._member(base.cls, name, e, fc, base)
        if _is_const(base):
            from .pysrc import ClassRef

            c = base[1]
            if isinstance(c, ClassRef):
                if self.prog.is_enum(c.cls):
                    for m in self.prog._enum_members_mro(c.cls):
                        if m.name == name:
                            return ("const", m)
                f = self.prog.lookup(c.cls, name)
                if f is not None:
                    if f.kind in ("property", "lazyproperty"):
                        return ("opaque", e)
                    return ("boundfn", f, c.cls, None)
                a = self.prog.lookup_attr(c.cls, name)
                if a is not None:
                    v = self.prog.const(a[1], a[0].module, None, a[0])
                    if isinstance(v, str):
                        return Lit(v)
                    if not isinstance(v, Unknown):
                        return ("const", v)
            if isinstance(c, EnumMember) and name == "xml_value":
                return Lit(c.xml) if isinstance(c.xml, str) else ("const", c.xml)
            if isinstance(c, EnumMember) and name == "value":
                return ("const", c.value)
        if isinstance(base, tuple) and base and base[0] == "module":
            pass
        return ("opaque", e)

    def _member(self, cls, name, e, fc, recv):
        f = self.prog.lookup(cls, name)
        if f is not None:
            if f.kind in ("property", "lazyproperty"):
                # only inline string-building properties: decide by trying
                v = self.function_value(f, cls, callnode=e, callfc=fc)
                if isinstance(v, S):
                    return v
                if v is not None and not (isinstance(v, tuple) and v and v[0] == "opaque"):
                    return v
                return ("opaque", e)
            return ("boundfn", f, cls, recv)
        a = self.prog.lookup_attr(cls, name)
        if a is not None:
            v = self.prog.const(a[1], a[0].module, None, a[0])
            if isinstance(v, str):
                return Lit(v)
            if not isinstance(v, Unknown):
                return ("const", v)
        return ("opaque", e)

    def _call(self, e, fc, env):
        from .pysrc import unpartial as _unp

        up_ = _unp(self.prog, fc.module, e) if not (isinstance(e.func, ast.Name) and e.func.id in env) else None
        if up_ is not None:
            ast.fix_missing_locations(up_)
            e = up_   # a module-level partial application, called
        fn = dotted(e.func)
        # -- str methods on abstract strings -----------------------------------------------------
        if isinstance(e.func, ast.Attribute):
            meth = e.func.attr
            if meth == "format":
                base = self.eval(e.func.value, fc, env)
                if isinstance(base, S):
                    return self._format(base, e, fc, env)
            if meth == "join":
                sep = self.eval(e.func.value, fc, env)
                if isinstance(sep, Lit) and e.args:
                    a = e.args[0]
                    if isinstance(a, (ast.ListComp, ast.GeneratorExp)) and len(a.generators) == 1 and sep.s == "" \
                            and isinstance(a.generators[0].iter, (ast.Tuple, ast.List)) and 0 < len(a.generators[0].iter.elts) <= 16:
                        # a comprehension over a literal table: one (optional) piece per row, in order
                        g_ = a.generators[0]
                        pieces, okp = [], True
                        for row in g_.iter.elts:
                            renv = dict(env)
                            if isinstance(g_.target, ast.Name):
                                renv[g_.target.id] = self.eval(row, fc, env)
                            elif isinstance(g_.target, ast.Tuple) and isinstance(row, (ast.Tuple, ast.List)) and len(row.elts) == len(g_.target.elts) \
                                    and all(isinstance(t_, ast.Name) for t_ in g_.target.elts):
                                for t_, r_ in zip(g_.target.elts, row.elts):
                                    renv[t_.id] = self.eval(r_, fc, env)
                            else:
                                okp = False
                                break
                            item = self.eval(a.elt, fc, renv)
                            item = self._as_hole(a.elt, fc, item if isinstance(item, S) else None)
                            keep = True
                            for c_ in g_.ifs:
                                t_ = self._fold(c_, fc, renv)
                                if t_ is False:
                                    keep = False
                                elif t_ is not True:
                                    item = alt([EPS, item])
                            if keep:
                                pieces.append(item)
                        if okp:
                            return cat(pieces)
                    if isinstance(a, (ast.ListComp, ast.GeneratorExp)):
                        benv = dict(env)
                        for g in a.generators:
                            for n in ast.walk(g.target):
                                if isinstance(n, ast.Name):
                                    benv[n.id] = ("loopvar", n, g)
                        item = self.eval(a.elt, fc, benv)
                        item = self._as_hole(a.elt, fc, item if isinstance(item, S) else None)
                        if sep.s == "":
                            return Star(item)
                        return alt([EPS, cat([item, Star(cat([sep, item]))])])
                    lv = self.eval(a, fc, env)
                    if not (isinstance(lv, tuple) and lv and lv[0] in ("list", "tuple")) and isinstance(a, (ast.Name, ast.Attribute)):
                        # a module- or class-level table of constant lines
                        cv = self.prog.const(a, fc.module, None, fc.selfcls) if fc.module is not None else None
                        if isinstance(cv, (tuple, list)) and cv and all(isinstance(x, str) for x in cv):
                            return Lit(sep.s.join(cv))
                    if isinstance(lv, tuple) and lv and lv[0] in ("list", "tuple") and all(isinstance(x, S) for x in lv[1]):
                        out = []
                        for i, x in enumerate(lv[1]):
                            if i:
                                out.append(sep)
                            out.append(x)
                        return cat(out)
                    return Hole(e, fc, why="join")
            if meth in ("strip", "lstrip", "rstrip", "lower", "upper") and not e.args:
                base = self.eval(e.func.value, fc, env)
                if isinstance(base, Lit):
                    return Lit(getattr(base.s, meth)())
                if isinstance(base, S):
                    return base  # over-approximation: whitespace/case only
            if meth == "encode":
                base = self.eval(e.func.value, fc, env)
                if isinstance(base, S):
                    return base
            if meth == "get" and e.args:
                base = self.eval(e.func.value, fc, env)
                if isinstance(base, tuple) and base and base[0] == "dict":
                    k = self._const(e.args[0], fc, env)
                    dflt = self.eval(e.args[1], fc, env) if len(e.args) > 1 else ("const", None)
                    if not isinstance(k, Unknown):
                        for kk, vv in zip(base[1], base[2]):
                            if not isinstance(kk, Unknown) and kk == k:
                                return vv
                        return dflt
                    vals = list(base[2]) + [dflt]
                    if all(isinstance(v, S) for v in vals):
                        return alt(vals)
                    return ("oneof_vals", vals, e)
        # -- known helpers ----------------------------------------------------------------------------
        if fn == "nsdecls":
            v = self.prog.const(e, fc.module)
            if isinstance(v, str):
                return Lit(v)
        if fn in ("textwrap.dedent", "dedent", "inspect.cleandoc") and len(e.args) == 1 and not e.keywords:
            inner = self.eval(e.args[0], fc, env)
            if isinstance(inner, Lit):
                import inspect as _insp
                import textwrap as _tw

                return Lit(_tw.dedent(inner.s) if fn.endswith("dedent") else _insp.cleandoc(inner.s))
        if fn in ("escape", "saxutils.escape", "xml.sax.saxutils.escape") and e.args:
            inner = self._render(e.args[0], fc, env)
            kind = "text"
            if len(e.args) > 1 or e.keywords:
                ent = e.args[1] if len(e.args) > 1 else e.keywords[0].value
                dv = self.prog.const(ent, fc.module)
                if isinstance(dv, dict) and '"' in dv and dv['"'] in ("&quot;", "&#34;", "&#x22;"):
                    kind = "attr"
            return _sanitise(inner, kind)
        if fn in ("quoteattr", "saxutils.quoteattr"):
            return Hole(e, fc, san="quoteattr")
        if fn in ("str", "unicode", "repr") and len(e.args) == 1:
            return self._render(e.args[0], fc, env)
        if fn in ("int", "len", "round", "abs", "float", "Emu", "sum", "min", "max", "ord"):
            return Hole(e, fc, numeric=True)
        if fn == "cast" and len(e.args) == 2:
            return self.eval(e.args[1], fc, env)
        if fn in ("parse_xml",) and e.args:
            v = self.eval(e.args[0], fc, env)
            self.parsed.append((e, fc, v, list(self._stack)))
            return ("parsed", v, e)
        # -- repo callables ---------------------------------------------------------------------------
        fv = self.eval(e.func, fc, env)
        # a hand-written escaper: a chain of str.replace over one parameter (written out, or as a loop over a constant table)
        fch = fv[1] if isinstance(fv, tuple) and fv and fv[0] in ("boundfn", "func") else None
        if fch is not None and len(e.args) == 1 and not e.keywords:
            ch_ = replace_chain(self.prog, fch)
            if ch_ is not None:
                inner = self._render(e.args[0], fc, env)
                searches = [a_ for a_, _ in ch_]
                bad = next(((a_, b_, c_) for i_, (a_, b_) in enumerate(ch_) for c_, _ in ch_[i_ + 1:] if c_ and c_ in b_), None)
                if bad is not None:
                    return _sanitise(inner, "broken:%r is replaced after %r has produced %r" % (bad[2], bad[0], bad[1]))
                want = {"&": "&amp;", "<": "&lt;", ">": "&gt;"}
                got = dict(ch_)
                if all(got.get(k_) in (v_,) for k_, v_ in want.items()):
                    return _sanitise(inner, "attr" if got.get('"') in ("&quot;", "&#34;", "&#x22;") else "text")
        args = [self._argval(a, fc, env) for a in e.args if not isinstance(a, ast.Starred)]
        kwargs = {k.arg: self._argval(k.value, fc, env) for k in e.keywords if k.arg}
        if isinstance(fv, tuple) and fv:
            if fv[0] == "boundfn":
                f, cls, recv = fv[1], fv[2], fv[3]
                v = self.function_value(f, cls, args, kwargs, callnode=e, callfc=fc)
                return v if v is not None else ("opaque", e)
            if fv[0] == "func":
                v = self.function_value(fv[1], None, args, kwargs, callnode=e, callfc=fc)
                return v if v is not None else ("opaque", e)
            if fv[0] == "localfn":
                node, dfc, denv = fv[1], fv[2], fv[3]
                return self._call_local(node, dfc, denv, args, e)
            if fv[0] == "const":
                from .pysrc import ClassRef

                if isinstance(fv[1], ClassRef):
                    return Obj(fv[1].cls, args, kwargs, fc, e)
        return ("opaque", e)

    def _argval(self, a, fc, env):
        v = self.eval(a, fc, env)
        if isinstance(v, tuple) and v and v[0] == "opaque":
            return ("opaque", v[1], fc)
        return v

    def _call_local(self, node, dfc, denv, args, callnode):
        env = dict(denv)
        params = [x.arg for x in node.args.args]
        for p, a in zip(params, args):
            env[p] = a
        rets = []
        self._block(node.body, dfc, env, rets)
        vals = [r for r in rets if isinstance(r, S)]
        if vals:
            return alt(vals)
        return ("opaque", callnode)


def replace_chain(prog, f):
    """[(search, replacement), ...] in application order when `f` does nothing but apply str.replace with constant arguments to its
    one string parameter and return the result (`return s.replace(a, b).replace(c, d)`, statements `s = s.replace(a, b)`, or
    `for a, b in TABLE: s = s.replace(a, b)` over a constant table); None otherwise."""
    node = f.node
    ps = [x.arg for x in node.args.args if x.arg not in ("self", "cls")]
    if len(ps) != 1:
        return None
    p = ps[0]
    body = [s_ for s_ in node.body if not (isinstance(s_, ast.Expr) and isinstance(s_.value, ast.Constant))]
    chain = []

    def const_str(x, env=None):
        v = prog.const(x, f.module, env, f.cls)
        return v if isinstance(v, str) else None

    def unchain(x):
        """pairs of a `.replace(..).replace(..)` expression rooted in the parameter"""
        out = []
        while isinstance(x, ast.Call) and isinstance(x.func, ast.Attribute) and x.func.attr == "replace" and len(x.args) == 2 and not x.keywords:
            a_, b_ = const_str(x.args[0]), const_str(x.args[1])
            if a_ is None or b_ is None:
                return None
            out.append((a_, b_))
            x = x.func.value
        if not (isinstance(x, ast.Name) and x.id == p):
            return None
        return out[::-1]

    for st in body:
        if isinstance(st, ast.Assign) and len(st.targets) == 1 and isinstance(st.targets[0], ast.Name) and st.targets[0].id == p:
            u = unchain(st.value)
            if not u:
                return None
            chain += u
        elif isinstance(st, ast.For) and not st.orelse and len(st.body) == 1 and isinstance(st.target, ast.Tuple) and len(st.target.elts) == 2 \
                and all(isinstance(t_, ast.Name) for t_ in st.target.elts):
            tbl = prog.const(st.iter.func.value if isinstance(st.iter, ast.Call) and isinstance(st.iter.func, ast.Attribute)
                             and st.iter.func.attr == "items" and not st.iter.args else st.iter, f.module, None, f.cls)
            if isinstance(tbl, dict):
                tbl = list(tbl.items())
            b0 = st.body[0]
            a_n, b_n = st.target.elts[0].id, st.target.elts[1].id
            ok_ = isinstance(b0, ast.Assign) and len(b0.targets) == 1 and isinstance(b0.targets[0], ast.Name) and b0.targets[0].id == p \
                and isinstance(b0.value, ast.Call) and isinstance(b0.value.func, ast.Attribute) and b0.value.func.attr == "replace" \
                and isinstance(b0.value.func.value, ast.Name) and b0.value.func.value.id == p and len(b0.value.args) == 2 \
                and [getattr(x, "id", None) for x in b0.value.args] == [a_n, b_n]
            if not ok_ or not isinstance(tbl, (list, tuple)) or not all(
                    isinstance(r_, tuple) and len(r_) == 2 and all(isinstance(y, str) for y in r_) for r_ in tbl):
                return None
            chain += [tuple(r_) for r_ in tbl]
        elif isinstance(st, ast.Return) and st is body[-1]:
            if isinstance(st.value, ast.Name) and st.value.id == p:
                pass
            else:
                u = unchain(st.value)
                if not u:
                    return None
                chain += u
        else:
            return None
    return chain or None


def _binding_only(st):
    """an if / elif / else whose arms only bind local names"""
    def ok(b):
        return all((isinstance(x, ast.Assign) and all(isinstance(t, (ast.Name, ast.Tuple)) for t in x.targets)) or isinstance(x, ast.Pass)
                   or (isinstance(x, ast.If) and _binding_only(x)) for x in b)
    return bool(st.orelse) and ok(st.body) and ok(st.orelse)


def _bound_names(stmts):
    return {n.id for x in stmts for n in ast.walk(x) if isinstance(n, ast.Name) and isinstance(n.ctx, ast.Store)}


class _LoopExit(Exception):
    pass


def _is_const(v):
    return isinstance(v, tuple) and len(v) == 2 and v[0] == "const"


def _same(a, b):
    try:
        return a == b
    except Exception:  # noqa: BLE001
        return False


def _map_lits(s, fn):
    if isinstance(s, Lit):
        return fn(s.s)
    if isinstance(s, Cat):
        return cat([_map_lits(i, fn) for i in s.items])
    if isinstance(s, Alt):
        return alt([_map_lits(i, fn) for i in s.items])
    if isinstance(s, Star):
        return Star(_map_lits(s.item, fn))
    return s


def _sanitise(s, kind):
    if isinstance(s, Hole):
        return Hole(s.expr, s.fc, spec=s.spec, san=kind, numeric=s.numeric, why=s.why)
    if isinstance(s, Cat):
        return cat([_sanitise(i, kind) for i in s.items])
    if isinstance(s, Alt):
        return alt([_sanitise(i, kind) for i in s.items])
    if isinstance(s, Star):
        return Star(_sanitise(s.item, kind))
    if isinstance(s, Lit):
        from xml.sax.saxutils import escape

        return Lit(escape(s.s, {'"': "&quot;"} if kind == "attr" else {}))
    return s


def _strip_prefix(res, marker):
    """res == Cat([marker, delta...]) -> delta ; res is marker -> EPS ; Alt of such -> Alt."""
    if res is marker:
        return EPS
    if isinstance(res, Cat) and res.items and res.items[0] is marker:
        rest = res.items[1:]
        if any(marker is h for r in rest for h in holes(r)):
            return None
        return cat(rest)
    if isinstance(res, Alt):
        ds = [_strip_prefix(i, marker) for i in res.items]
        if any(d is None for d in ds):
            return None
        return alt(ds)
    return None
