"""Schema validation of XML skeletons (engine D output) and of concrete shipped XML.

validate(S, node, tq) yields problems (kind, path, message); the child-sequence test is language
inclusion (all alternations / iterations of a template at once), the attribute test covers names,
required attributes and literal values (enumerations, booleans, integer ranges).
"""

from __future__ import annotations

import re
from fractions import Fraction

from .xmlskel import Node, child_regex, included
from .xsd import INTEGER_PRIMS, XS

XMLNS = "{http://www.w3.org/2000/xmlns/}"
XSI = "{http://www.w3.org/2001/XMLSchema-instance}"
MC = "{http://schemas.openxmlformats.org/markup-compatibility/2006}"
from .xmlskel import _MARK  # noqa: E402


def from_etree(el):
    """Concrete ElementTree element -> Node tree (mc:AlternateContent replaced by its Fallback)."""
    n = Node(el.tag, dict(el.attrib), "elem")
    if el.text and el.text.strip():
        n.text.append(el.text)
    for c in el:
        if not isinstance(c.tag, str):
            continue
        if c.tag == MC + "AlternateContent":
            fb = c.find(MC + "Fallback")
            if fb is not None:
                for g in fb:
                    k = from_etree(g)
                    k.parent = n
                    n.children.append(k)
            continue
        k = from_etree(c)
        k.parent = n
        n.children.append(k)
        if c.tail and c.tail.strip():
            n.text.append(c.tail)
    return n


def check_value(S, sq, value, markers=None):
    """None if literal `value` is a valid lexeme of simple type sq (as far as decided), else reason.
    Values containing template markers are checked through the marker's finite value set if any."""
    if sq is None:
        return None
    m = _MARK.fullmatch(value) if markers is not None else None
    if m:
        mk = markers[int(m.group(1))]
        if mk.values is not None:
            for v in mk.values:
                r = check_value(S, sq, v)
                if r:
                    return r
            return None
        h = mk.hole
        if h is not None:
            prim = S.st_primitive(sq)
            enums = S.st_enums(sq)
            if enums is not None and not h.numeric:
                return None  # decided by the producer of the value (enum to_xml: C20) — not a literal
            return None
        return None
    if markers is not None and _MARK.search(value):
        return None  # literal text mixed with holes
    return _literal_ok(S, sq, value)


def _literal_ok(S, sq, value, depth=0):
    if depth > 6:
        return None
    if sq[0] == XS:
        p = sq[1]
        if p in INTEGER_PRIMS:
            if not re.fullmatch(r"[+-]?\d+", value.strip()):
                return "%r is not an integer (xsd:%s)" % (value, p)
            lo, _, hi, _ = S.st_bounds(sq)
            v = int(value)
            if (lo is not None and v < lo) or (hi is not None and v > hi):
                return "%r outside xsd:%s" % (value, p)
            return None
        if p == "boolean":
            return None if value in ("0", "1", "true", "false") else "%r is not an xsd:boolean lexeme" % value
        if p in ("double", "float", "decimal"):
            if not re.fullmatch(r"[+-]?(\d+(\.\d*)?|\.\d+)([eE][+-]?\d+)?|INF|-INF|NaN", value.strip()):
                return "%r is not an xsd:%s lexeme" % (value, p)
            return None
        if p == "hexBinary":
            return None if re.fullmatch(r"([0-9a-fA-F]{2})*", value) else "%r is not hexBinary" % value
        return None
    st = S.stypes.get(sq)
    if st is None:
        return None
    if st.union is not None:
        reasons = []
        for mt in st.union:
            r = _literal_ok(S, mt, value, depth + 1)
            if r is None:
                return None
            reasons.append(r)
        return "%r matches no member of %s" % (value, S.tname(sq))
    enums = S.st_enums(sq)
    if enums is not None:
        return None if value in enums else "%r is not in the enumeration %s" % (value, S.tname(sq))
    prim = S.st_primitive(sq)
    if prim in INTEGER_PRIMS or prim in ("double", "float", "decimal"):
        if prim in INTEGER_PRIMS and not re.fullmatch(r"[+-]?\d+", value.strip()):
            return "%r is not an integer (%s)" % (value, S.tname(sq))
        try:
            v = Fraction(value.strip())
        except (ValueError, ZeroDivisionError):
            return "%r is not numeric (%s)" % (value, S.tname(sq))
        lo, lo_open, hi, hi_open = S.st_bounds(sq)
        if lo is not None and (v < lo or (v == lo and lo_open)):
            return "%r below the minimum of %s" % (value, S.tname(sq))
        if hi is not None and (v > hi or (v == hi and hi_open)):
            return "%r above the maximum of %s" % (value, S.tname(sq))
        return None
    pats = st.facets.get("pattern")
    if pats:
        for p in pats:
            try:
                if re.fullmatch(p, value):
                    return None
            except re.error:
                return None
        return "%r does not match the pattern of %s" % (value, S.tname(sq))
    if prim == "hexBinary":
        ln = st.facets.get("length")
        if not re.fullmatch(r"([0-9a-fA-F]{2})*", value):
            return "%r is not hexBinary" % value
        if ln is not None and len(value) != 2 * int(ln):
            return "%r has wrong length for %s" % (value, S.tname(sq))
        return None
    return None


def validate(S, node, tq, markers=None, path="", stats=None, depth=0):
    """Yield (kind, path, message, node) problems for element `node` against complex type tq."""
    here = "%s/%s" % (path, S.pfx(node.tag))
    if stats is not None:
        stats["elements"] = stats.get("elements", 0) + 1
    ct = S.ctypes.get(tq)
    if ct is None:
        # simple-typed element: no element children
        if list(_elem_children(node)):
            yield ("children", here, "element of simple type %s has child elements" % S.tname(tq), node)
        return
    # -- children -----------------------------------------------------------------------------------
    model = S.model(tq)
    seq = child_regex(node)
    if S.has_any(tq) and not S.alphabet(tq):
        return  # xsd:any content: unconstrained
    if model is None:
        if seq:
            yield ("children", here, "type %s allows no child elements" % S.tname(tq), node)
    else:
        A = S.automaton(tq)
        ok, cex = included(seq, A)
        if not ok:
            yield ("children", here, "child sequence not allowed by %s: %s" % (
                S.tname(tq), " ".join(S.pfx(x) if x.startswith("{") else x for x in cex)), node)
    # -- text ---------------------------------------------------------------------------------------
    if node.text and not ct.mixed and ct.simple_base is None and (model is not None or not node.children):
        if model is not None:
            yield ("text", here, "character data / scalar hole inside element-only content of %s" % S.tname(tq), node)
    # -- attributes ---------------------------------------------------------------------------------
    attrs = S.attrs_of(tq)
    for an, av in node.attrs.items():
        if an.startswith(XMLNS) or an.startswith(XSI) or an.startswith(MC) or an.startswith("{http://www.w3.org/XML/1998/namespace}"):
            continue
        a = attrs.get(an)
        if a is None:
            if ct.any_attr:
                continue
            yield ("attr-unknown", here + "/@" + S.pfx(an), "attribute not declared on %s" % S.tname(tq), node)
            continue
        r = check_value(S, a.type, av, markers)
        if r:
            yield ("attr-value", here + "/@" + S.pfx(an), r, node)
    for an, a in attrs.items():
        if a.use == "required" and an not in node.attrs:
            yield ("attr-required", here + "/@" + S.pfx(an), "required attribute missing (%s)" % S.tname(tq), node)
    # -- recurse ------------------------------------------------------------------------------------
    for ch in _elem_children(node):
        ctq = S.child_type(tq, ch.tag)
        if ctq is None:
            continue  # already reported by the children check
        yield from validate(S, ch, ctq, markers, here, stats, depth + 1)


def _elem_children(node):
    for c in node.children:
        if c.kind == "elem":
            yield c
        else:
            yield from _elem_children(c)


def _elem_descendants(node):
    for c in _elem_children(node):
        yield c
