"""Run context, exit-code discipline, known findings, floors and evidence writing.

Every check module exposes `run(ctx)`.  `ctx` collects obligations, violations and counts; `finish()`
prints the result lines, writes evidence/<id>.json and returns the process exit code:
0 = every obligation discharged (KNOWN-FINDING lines allowed), 1 = unlisted violation,
2 = ANALYSIS-ERROR (checker could not decide: anchor vanished, idiom unrecognised, floor undershot).
"""

from __future__ import annotations

import hashlib
import json
import os
import time

VERIF = os.path.dirname(os.path.dirname(os.path.abspath(__file__)))


class AnalysisError(Exception):
    """The analyser cannot decide (never a verdict about the repo)."""


class Rule:
    def __init__(self, rid, text):
        self.rid = rid
        self.text = text
        self.obligations = 0
        self.discharged = 0
        self.nontrivial = set()
        self.samples = []
        self.info = []


class Ctx:
    def __init__(self, prop, tier="quick", repo="/repo", seed=0, quiet=False, write=True):
        self.prop = prop
        self.tier = tier
        self.repo = os.path.abspath(repo)
        self.seed = seed
        self.quiet = quiet
        self.write = write
        self.t0 = time.time()
        self.rules = {}
        self.violations = []  # dicts: rule,key,what,file,line,witness
        self.counts = {}
        self.assumptions = []
        self.trusted = []
        self.files = {}
        self.explanation = ""
        self.not_decided = []
        self.level = "other"
        self.extra = {}
        self.errors = []
        self._known = None
        self._floors = None

    # -- rules / obligations -------------------------------------------------------------------
    def rule(self, rid, text):
        if rid not in self.rules:
            self.rules[rid] = Rule(rid, text)
        return self.rules[rid]

    def ok(self, rid, key, sample=None, nontrivial=True):
        r = self.rules[rid]
        r.obligations += 1
        r.discharged += 1
        if nontrivial:
            r.nontrivial.add(key)
        if sample is not None and len(r.samples) < 6:
            r.samples.append(sample)

    def violation(self, rid, key, what, file=None, line=None, witness=None, sample=None):
        r = self.rules[rid]
        r.obligations += 1
        r.nontrivial.add(key)
        self.violations.append(
            dict(rule=rid, key=key, what=what, file=file, line=line, witness=witness)
        )
        if sample is not None and len(r.samples) < 10:
            r.samples.append(sample)

    def info(self, rid, msg):
        self.rules[rid].info.append(msg)

    def count(self, name, n):
        self.counts[name] = n

    def error(self, construct, why):
        """Record an analysis error (exit 2) and continue collecting."""
        self.errors.append((construct, why))

    def note_file(self, path):
        try:
            with open(path, "rb") as f:
                self.files[os.path.relpath(path, self.repo)] = hashlib.sha1(f.read()).hexdigest()
        except OSError:
            pass

    # -- known findings / floors ----------------------------------------------------------------
    @property
    def known(self):
        if self._known is None:
            p = os.path.join(VERIF, "known_findings.json")
            with open(p) as f:
                self._known = [e for e in json.load(f) if e.get("property") == self.prop]
        return self._known

    @property
    def floors(self):
        if self._floors is None:
            with open(os.path.join(VERIF, "expectations.json")) as f:
                self._floors = json.load(f).get(self.prop, {})
        return self._floors

    def _is_known(self, v):
        for e in self.known:
            if e.get("status") == "open" and e["rule"] == v["rule"] and e["key"] == v["key"]:
                return e
        return None

    # -- finish ---------------------------------------------------------------------------------
    def finish(self):
        out = []
        for name, floor in self.floors.items():
            have = self.counts.get(name)
            if have is None:
                self.errors.append((name, "count not produced by this run (floor %s)" % floor))
            elif isinstance(floor, dict):
                if "exact" in floor and have != floor["exact"]:
                    self.errors.append(
                        (name, "count %s differs from the exact value %s" % (have, floor["exact"]))
                    )
            elif have < floor:
                self.errors.append(
                    (name, "count %s fell below the confirmed floor %s" % (have, floor))
                )
        for r in self.rules.values():
            if r.obligations == 0:
                self.errors.append((r.rid, "rule matched zero instances (vacuous)"))
        unlisted, listed = [], []
        for v in self.violations:
            e = self._is_known(v)
            (listed if e else unlisted).append((v, e))
        replay_dir = os.path.join(VERIF, "evidence", "replay")
        n = 0
        for v, e in listed:
            out.append("KNOWN-FINDING: property=%s %s %s: %s" % (self.prop, v["rule"], v["key"], v["what"]))
        for v, _ in unlisted:
            n += 1
            path = os.path.join(replay_dir, "%s-%d.json" % (self.prop, n))
            if self.write:
                os.makedirs(replay_dir, exist_ok=True)
                with open(path, "w") as f:
                    json.dump(v, f, indent=1, default=str)
            out.append("VIOLATION property=%s replay=%s" % (self.prop, path))
            loc = "%s:%s" % (v["file"], v["line"]) if v["file"] else "-"
            out.append("  %s  %s  %s  %s%s" % (loc, v["rule"], v["key"], v["what"],
                                                ("  witness=%s" % (v["witness"],)) if v["witness"] else ""))
        for construct, why in self.errors:
            out.append("ANALYSIS-ERROR property=%s %s %s" % (self.prop, construct, why))
        code = 2 if self.errors else (1 if unlisted else 0)
        if self.write and self.errors and not unlisted:
            # never leave a stale evidence file behind an analysis error
            pass
        obligations = sum(r.obligations for r in self.rules.values())
        discharged = sum(r.discharged for r in self.rules.values())
        nontrivial = sum(len(r.nontrivial) for r in self.rules.values())
        samples = []
        for r in self.rules.values():
            for s in r.samples[:4]:
                samples.append({"rule": r.rid, "case": s})
        level = self.level
        if level == "proof" and (discharged != obligations or obligations == 0):
            level = "other"
        cov = {
            "evaluations": obligations,
            "distinct_nontrivial": nontrivial,
            "rule": "obligations are enumerated from the current source (see per_rule); an obligation is "
            "counted non-trivial when its verdict needed a decision step (automaton run, interval image, "
            "provenance chain, table comparison) and distinct by its rule+construct key",
            "samples": samples or [{"note": "no obligations"}],
            "obligations": obligations,
            "discharged": discharged,
            "checker_cmd": "/venv/bin/python check %s --tier %s" % (self.prop, self.tier),
            "trusted_base": self.trusted
            or ["CPython ast", "xml.etree", "XSD files under /repo/spec as oracle"],
            "explanation": self.explanation
            + ((" NOT DECIDED: " + "; ".join(self.not_decided)) if self.not_decided else ""),
            "exhaustive": not self.errors,
            "per_rule": {
                r.rid: {
                    "text": r.text,
                    "obligations": r.obligations,
                    "discharged": r.discharged,
                    "distinct_nontrivial": len(r.nontrivial),
                    "info": r.info[:40],
                }
                for r in self.rules.values()
            },
            "counts": self.counts,
            "floors": self.floors,
            "known_findings_reported": [v["rule"] + " " + v["key"] for v, _ in listed],
            "unlisted_violations": [
                {k: v[k] for k in ("rule", "key", "what", "file", "line")} for v, _ in unlisted
            ],
            "analysis_errors": ["%s: %s" % e for e in self.errors],
            "files_parsed": len(self.files),
            "files_sha1": self.files if len(self.files) <= 40 else dict(list(sorted(self.files.items()))[:40]),
        }
        cov.update(self.extra)
        ev = {
            "property_id": self.prop,
            "tier": self.tier,
            "seed": self.seed,
            "level": level,
            "coverage": cov,
            "assumptions": self.assumptions,
            "wall_s": round(time.time() - self.t0, 3),
            "violations": len(unlisted),
        }
        if self.write:
            os.makedirs(os.path.join(VERIF, "evidence"), exist_ok=True)
            with open(os.path.join(VERIF, "evidence", "%s.json" % self.prop), "w") as f:
                json.dump(ev, f, indent=1, default=str)
        if not self.quiet:
            for line in out:
                print(line)
            print(
                "%s tier=%s rules=%d obligations=%d discharged=%d known=%d violations=%d errors=%d wall=%.2fs"
                % (self.prop, self.tier, len(self.rules), obligations, discharged, len(listed),
                   len(unlisted), len(self.errors), time.time() - self.t0)
            )
        self.result = dict(code=code, unlisted=[v for v, _ in unlisted], listed=[v for v, _ in listed],
                           errors=list(self.errors), out=out)
        return code
