"""C03 mutants."""

MUTANTS = [
    ("tmpl-order", "new_ph_pic/new_pic template: p:spPr moved before p:blipFill",
     [("src/pptx/oxml/shapes/picture.py",
       '            "  </p:blipFill>\\n"\n            "  <p:spPr/>\\n"\n            "</p:pic>" % nsdecls("p", "a", "r")',
       '            "  </p:blipFill>\\n"\n            "  <p:spPr/>\\n"\n            "  <p:nvPr/>\\n"\n            "</p:pic>" % nsdecls("p", "a", "r")')],
     "R3.1 CT_Picture"),
    ("tmpl-required-attr", "placeholder sp template loses cNvPr/@id",
     [("src/pptx/oxml/shapes/autoshape.py", "f'    <p:cNvPr id=\"{id_}\" name=\"{name}\"/>\\n'", "f'    <p:cNvPr name=\"{name}\"/>\\n'")],
     "R3.1 CT_Shape.new_placeholder_sp"),
    ("tmpl-enum-literal", "textbox template writes wrap=\"nowrap\"",
     [("src/pptx/oxml/shapes/autoshape.py", '\'    <a:bodyPr wrap="none">\\n\'', '\'    <a:bodyPr wrap="nowrap">\\n\'')],
     "R3.1 CT_Shape"),
    ("tmpl-unknown-attr", "textbox template adds an undeclared attribute",
     [("src/pptx/oxml/shapes/autoshape.py", '\'    <a:bodyPr wrap="none">\\n\'', '\'    <a:bodyPr wrap="none" centered="1">\\n\'')],
     "R3.1 CT_Shape"),
    ("shipped-order", "templates/notes.xml: p:nvPr moved before p:cNvGrpSpPr",
     [("src/pptx/templates/notes.xml", "        <p:cNvGrpSpPr/>\n        <p:nvPr/>\n", "        <p:nvPr/>\n        <p:cNvGrpSpPr/>\n")],
     "R3.2 templates/notes.xml"),
    ("raw-set-bad-literal", "CT_Boolean_Explicit writes val=\"yes\"",
     [("src/pptx/oxml/chart/shared.py", 'val_str = "1" if bool(value) is True else "0"', 'val_str = "yes" if bool(value) is True else "0"')],
     "R3.4 CT_Boolean_Explicit.val"),
    ("mutate-before-refusal", "_Cell.merge moves content before the merged-cell refusal",
     [("src/pptx/table.py", '        if tc_range.contains_merged_cell:\n            raise ValueError("range contains one or more merged cells")\n\n        tc_range.move_content_to_origin()\n',
       '        tc_range.move_content_to_origin()\n        if tc_range.contains_merged_cell:\n            raise ValueError("range contains one or more merged cells")\n\n')],
     "R3.5a _Cell.merge"),
    ("numfmt-fix-reverted", "c:dLbls loses its _new_numFmt override",
     [("src/pptx/oxml/chart/datalabel.py", "    def _new_numFmt(self):\n        \"\"\"Override default so a new `c:numFmt` has its required `formatCode` attribute.\"\"\"\n        return parse_xml('<c:numFmt %s formatCode=\"General\"/>' % nsdecls(\"c\"))\n\n", "")],
     "R3.5b DataLabels.number_format_is_linked"),
    ("new-off-incomplete", "_new_off no longer initialises y",
     [("src/pptx/oxml/shapes/shared.py", '        off = OxmlElement("a:off")\n        off.x = 0\n        off.y = 0\n', '        off = OxmlElement("a:off")\n        off.x = 0\n')],
     "R3.5b CT_Transform2D"),
    ("childtnlst-completer-gone", "video timing no longer adds the p:video node",
     [("src/pptx/shapes/shapetree.py", "        childTnLst.add_video(pic.shape_id)", "        childTnLst.xml")],
     "R3.1 CT_Slide._add_childTnLst"),
]

MUTANTS += [
    ("merge-leaves-source-without-paragraph", "append_ps_from restores the source's paragraph before the move (a no-op there)",
     [("src/pptx/oxml/table.py", "        for p in source_txBody.p_lst:\n            target_txBody.append(p)\n\n        # ---neither source nor target can be left without ps---\n        source_txBody.unclear_content()\n",
       "        source_txBody.unclear_content()\n        for p in source_txBody.p_lst:\n            target_txBody.append(p)\n\n        # ---neither source nor target can be left without ps---\n")],
     "R3.7 CT_TableCell.append_ps_from"),
]

MUTANTS += [
    ("default-bgPr-parsed-once", "the default p:bgPr is parsed once at import and inserted as is",
     [("src/pptx/oxml/slide.py", "        xml = \"<p:bgPr %s>\\n\" \"  <a:noFill/>\\n\" \"  <a:effectLst/>\\n\" \"</p:bgPr>\" % nsdecls(\"a\", \"p\")\n        bgPr = cast(CT_BackgroundProperties, parse_xml(xml))\n",
       "        bgPr = _NOFILL_BGPR\n"),
      ("src/pptx/oxml/slide.py", "class CT_BackgroundProperties(BaseOxmlElement):",
       "_NOFILL_BGPR = parse_xml(\"<p:bgPr %s><a:noFill/><a:effectLst/></p:bgPr>\" % nsdecls(\"a\", \"p\"))\n\n\nclass CT_BackgroundProperties(BaseOxmlElement):")],
     "R3.8 CT_Background.add_noFill_bgPr@_insert_bgPr"),
]

MUTANTS += [
    ("rgb-type-check-in-the-colour-object", "the RGBColor check moves from ColorFormat.rgb into _SRgbColor.rgb",
     [("src/pptx/dml/color.py", "    def rgb(self, rgb):\n        if not isinstance(rgb, RGBColor):\n            raise ValueError(\"assigned value must be type RGBColor\")\n        # change to rgb color format if not already",
       "    def rgb(self, rgb):\n        # change to rgb color format if not already"),
      ("src/pptx/dml/color.py", "    def rgb(self, rgb):\n        self._srgbClr.val = str(rgb)",
       "    def rgb(self, rgb):\n        if not isinstance(rgb, RGBColor):\n            raise TypeError(\"assigned value must be type RGBColor\")\n        self._srgbClr.val = str(rgb)")],
     "R3.5c ColorFormat.rgb->_SRgbColor.rgb"),
]

MUTANTS += [
    ("blank-core-properties-parsed-once", "the blank core-properties element is parsed once and handed to every caller",
     [("src/pptx/oxml/coreprops.py", "    @staticmethod\n    def new_coreProperties() -> CT_CoreProperties:\n        \"\"\"Return a new `cp:coreProperties` element\"\"\"\n        return cast(CT_CoreProperties, parse_xml(CT_CoreProperties._coreProperties_tmpl))",
       "    _blank = None\n\n    @classmethod\n    def new_coreProperties(cls) -> CT_CoreProperties:\n        \"\"\"Return a new `cp:coreProperties` element\"\"\"\n        if cls._blank is None:\n            cls._blank = cast(CT_CoreProperties, parse_xml(cls._coreProperties_tmpl))\n        return cls._blank")],
     "R3.8 CT_CoreProperties.new_coreProperties:return"),
]
