"""C03 rule R3.6 — unconditional adders never create a second member of a maxOccurs=1 child or a second
member of a choice: every generated `_add_x()` call on a non-fresh receiver, for a child the schema allows
at most once (or that excludes a sibling), is dominated on all paths by the matching `_remove_*()` call /
an `is None` test on the same receiver, or the receiver is brand new by construction in every caller."""

from __future__ import annotations

import ast

from sa.effects import Effects
from sa.pysrc import dotted
from sa.types import FCtx, walk_own
from sa.xmlchemy_model import choice_prop


def _singleton_info(prog, S, M, owners, decl, tag):
    """(is_singleton, exclusive sibling tags) of child `tag` over the schema types of the owner classes."""
    cq = prog.qn(tag)
    single = False
    excl = set()
    for o in owners:
        tags = M.tags_for_class(o) or [t for c in prog.subclasses(o) for t in M.tags_for_class(c)]
        for t in tags:
            for tq in sorted(x for x in S.elem_decls.get(prog.qn(t), ()) if x in S.ctypes):
                sigma = S.alphabet(tq)
                if cq not in sigma:
                    continue
                R = S.automaton(tq, relaxed=True)
                if not R.accepts([cq, cq]):
                    single = True
                for y in sigma:
                    if y != cq and not R.accepts([cq, y]) and not R.accepts([y, cq]):
                        excl.add(S.pfx(y))
    return single, excl


def _must_removed(f, target_call):
    """Set of (receiver text, method name) for `_remove_*` calls and none-test facts ('none', recv, prop) that hold on
    every path reaching target_call."""
    result = {}

    def calls_in(node):
        out = set()
        for n in ast.walk(node):
            if isinstance(n, ast.Call) and isinstance(n.func, ast.Attribute) and n.func.attr.startswith("_remove_"):
                out.add((ast.unparse(n.func.value), n.func.attr))
            # R.remove(R.get_or_add_x()) / R.remove(R.x): removal of x through lxml
            if isinstance(n, ast.Call) and isinstance(n.func, ast.Attribute) and n.func.attr == "remove" and len(n.args) == 1:
                a = n.args[0]
                r = ast.unparse(n.func.value)
                if isinstance(a, ast.Call) and isinstance(a.func, ast.Attribute) and a.func.attr.startswith("get_or_add_") \
                        and ast.unparse(a.func.value) == r:
                    out.add((r, "_remove_" + a.func.attr[len("get_or_add_"):]))
                elif isinstance(a, ast.Attribute) and ast.unparse(a.value) == r:
                    out.add((r, "_remove_" + a.attr))
        return out

    def contains(node):
        return any(n is target_call for n in ast.walk(node))

    def none_fact(test, positive):
        # `X.y is None` (positive) / `X.y is not None` (negative)
        if isinstance(test, ast.Compare) and len(test.ops) == 1 and isinstance(test.comparators[0], ast.Constant) \
                and test.comparators[0].value is None and isinstance(test.left, (ast.Attribute, ast.Name)):
            is_ = isinstance(test.ops[0], ast.Is)
            isnot = isinstance(test.ops[0], ast.IsNot)
            if (is_ and positive) or (isnot and not positive):
                if isinstance(test.left, ast.Attribute):
                    return ("none", ast.unparse(test.left.value), test.left.attr)
                # local alias: v = R.attr ; if v is None:
                for m in walk_own(f.node):
                    if isinstance(m, ast.Assign) and len(m.targets) == 1 and isinstance(m.targets[0], ast.Name) \
                            and m.targets[0].id == test.left.id and isinstance(m.value, ast.Attribute):
                        return ("none", ast.unparse(m.value.value), m.value.attr)
                return ("nonevar", test.left.id, "")
        return None

    def block(stmts, facts):
        cur = set(facts)
        for st in stmts:
            if contains(st):
                if isinstance(st, ast.If):
                    if contains(st.test):
                        result["facts"] = cur
                        return None
                    a = set(cur)
                    f1 = none_fact(st.test, True)
                    if f1:
                        a.add(f1)
                    b = set(cur)
                    f2 = none_fact(st.test, False)
                    if f2:
                        b.add(f2)
                    if any(contains(x) for x in st.body):
                        return block(st.body, a)
                    return block(st.orelse, b)
                if isinstance(st, (ast.For, ast.While, ast.With, ast.Try)):
                    inner = st.body
                    if isinstance(st, ast.Try):
                        for part in [st.body, st.orelse, st.finalbody] + [h.body for h in st.handlers]:
                            if any(contains(x) for x in part):
                                return block(part, cur)
                    return block(inner, cur)
                result["facts"] = cur
                return None
            # statement fully before the target on this path
            if isinstance(st, ast.If):
                ra = calls_in(ast.Module(body=st.body, type_ignores=[]))
                rb = calls_in(ast.Module(body=st.orelse, type_ignores=[]))
                term_a = any(isinstance(x, (ast.Return, ast.Raise)) for x in st.body)
                term_b = any(isinstance(x, (ast.Return, ast.Raise)) for x in st.orelse)
                if term_a and not term_b:
                    cur |= rb
                    f2 = none_fact(st.test, False)
                    if f2:
                        cur.add(f2)
                elif term_b and not term_a:
                    cur |= ra
                else:
                    cur |= (ra & rb)
            elif isinstance(st, (ast.For, ast.While)):
                pass
            else:
                cur |= calls_in(st)
        return cur

    block(f.node.body, set())
    return result.get("facts", set())


def run(ctx, prog, S, M, T, E):
    ctx.rule("R3.6", "an unconditional _add_x() of an at-most-once / mutually exclusive child is preceded on all paths by the "
                     "matching removal or an absence test, or works on an element that is new by construction")
    nsites = 0
    seen = set()
    callers_cache = {}

    def callers_of(meth_name):
        if meth_name not in callers_cache:
            out = []
            for g in prog.all_functions():
                for n in walk_own(g.node):
                    if isinstance(n, ast.Call) and isinstance(n.func, ast.Attribute) and n.func.attr == meth_name:
                        out.append((g, n))
            callers_cache[meth_name] = out
        return callers_cache[meth_name]

    for f in E.funcs:
        if f.module.name == "pptx.oxml.xmlchemy":
            continue
        fc = FCtx(f)
        fresh = E.fresh_roots(f, fc)
        for n in walk_own(f.node):
            if not (isinstance(n, ast.Call) and isinstance(n.func, ast.Attribute)):
                continue
            if not n.func.attr.startswith(("_add_", "add_", "_insert_")):
                continue
            root = E._root_name(n.func.value)
            if root in fresh:
                continue
            bt = T.expr(n.func.value, fc)
            ft = T.member(bt, n.func.attr, fc, node=n.func)
            gens = [a for a in ft if a[0] == "gen" and a[1] in ("add", "public_add", "insert")]
            if not gens:
                continue
            for a in gens:
                kind, decl, tag = a[1], a[2], a[3]
                owners = [x[1] for x in bt if x[0] == "inst" and M.is_oxml_class(x[1]) and decl.cls in prog.mro(x[1])] or [decl.cls]
                single, excl = _singleton_info(prog, S, M, owners, decl, tag)
                # only alternatives the class itself declares can be (and need to be) removed by it
                declared = {t for o in owners for d in M.child_decls(o) for t in d.tags}
                excl = {y for y in excl if y in declared}
                if not single and not excl:
                    continue
                key = "%s:%s" % (f.qualname, tag)
                if key in seen:
                    continue
                seen.add(key)
                recv = ast.unparse(n.func.value)
                p = choice_prop(tag) if decl.kind == "ZeroOrOneChoice" else decl.prop
                if recv == "self" and f.name in ("_add_" + p, "_insert_" + p) and n.func.attr == "_insert_" + p:
                    continue  # hand-written override of the generated adder: its callers are the sites that matter
                nsites += 1
                facts = _must_removed(f, n)
                need = []
                if single and not ((recv, "_remove_" + p) in facts or ("none", recv, p) in facts
                                   or (decl.kind == "ZeroOrOneChoice" and (recv, "_remove_" + decl.prop) in facts)):
                    need.append(tag)
                for y in sorted(excl):
                    yd = [d for o in owners for d in M.child_decls(o) if y in d.tags]
                    yp = [choice_prop(y) if d.kind == "ZeroOrOneChoice" else d.prop for d in yd]
                    grp = [d.prop for d in yd if d.kind == "ZeroOrOneChoice"]
                    if not any((recv, "_remove_" + q) in facts for q in yp + grp):
                        need.append(y)
                if not need:
                    ctx.ok("R3.6", key, sample={"site": "%s:%d" % (f.file, n.lineno), "child": tag, "guard": "removed/absent before add"})
                    continue
                # receiver new by construction: a local assigned from get_or_add/_add of Z after _remove_Z on the same owner
                if _new_by_construction(f, n.func.value, facts):
                    ctx.ok("R3.6", key, sample={"site": "%s:%d" % (f.file, n.lineno), "child": tag, "guard": "receiver just created"})
                    continue
                # receiver is rooted at a parameter that every caller fills with a freshly created element
                if root in f.params and root not in ("self", "cls"):
                    sites = [(g, c) for g, c in callers_of(f.name) if g is not f]
                    idx = (f.params[1:] if f.cls is not None and f.kind != "staticmethod" else f.params).index(root) \
                        if root in (f.params[1:] if f.cls is not None and f.kind != "staticmethod" else f.params) else None
                    okc = bool(sites) and idx is not None
                    for g, c in sites:
                        if idx is None or idx >= len(c.args):
                            okc = False
                            continue
                        a_ = c.args[idx]
                        gfc = FCtx(g)
                        if not ((isinstance(a_, ast.Name) and a_.id in E.fresh_roots(g, gfc)) or E._is_creator(a_, gfc)):
                            okc = False
                    if okc:
                        ctx.ok("R3.6", key, sample={"site": "%s:%d" % (f.file, n.lineno), "child": tag,
                                                    "guard": "parameter is a freshly created element in every caller",
                                                    "callers": [g.qualname for g, _ in sites][:4]})
                        continue
                # precondition established by every caller (method on self)
                if recv == "self" and f.cls is not None:
                    sites = [(g, c) for g, c in callers_of(f.name) if g is not f]
                    if sites and all(_caller_establishes(g, c) for g, c in sites):
                        ctx.ok("R3.6", key, sample={"site": "%s:%d" % (f.file, n.lineno), "child": tag,
                                                    "guard": "every caller passes a just-created element",
                                                    "callers": [g.qualname for g, _ in sites][:4]})
                        continue
                ctx.violation("R3.6", key, "%s() can add a second <%s>%s: no removal / absence test of %s dominates the call" % (
                    n.func.attr, tag, " next to its exclusive sibling" if set(need) - {tag} else "",
                    ", ".join(need)), file=f.file, line=n.lineno)
    ctx.count("singleton_adder_sites", nsites)


def _new_by_construction(f, recv_expr, facts_at_use):
    """recv is a local assigned from `W.get_or_add_Z()` / `W._add_Z()` where `W._remove_Z()` dominates that assignment."""
    if not isinstance(recv_expr, ast.Name):
        return False
    for n in walk_own(f.node):
        if isinstance(n, ast.Assign) and len(n.targets) == 1 and isinstance(n.targets[0], ast.Name) \
                and n.targets[0].id == recv_expr.id and isinstance(n.value, ast.Call) and isinstance(n.value.func, ast.Attribute):
            a = n.value.func.attr
            if a.startswith("_add_") or (a.startswith("add_") and not a.startswith("add_no")):
                return True  # an unconditional adder always returns a brand-new element
            for pre in ("get_or_add_",):
                if a.startswith(pre):
                    z = a[len(pre):]
                    w = ast.unparse(n.value.func.value)
                    facts = _must_removed(f, n.value)
                    if (w, "_remove_" + z) in facts or ("none", w, z) in facts:
                        return True
    return False


def _caller_establishes(g, call):
    recv = call.func.value
    facts = _must_removed(g, call)
    return _new_by_construction(g, recv, facts)


def required_child(S, tq, cq):
    """True when no word accepted by the content model of type tq lacks the child cq (the child is required)."""
    A = S.automaton(tq)
    seen, todo = set(), [A.run([])]
    while todo:
        st = todo.pop()
        if not st or st in seen:
            continue
        seen.add(st)
        if A.is_final(st):
            return False
        for sym in A.live_symbols(st):
            if sym != cq:
                todo.append(A.step(st, sym))
    return True


def run_required(ctx, prog, S, M, T):
    """R3.7: a loop that moves (or removes) every <x> child out of an element whose schema type requires at least one <x> is followed,
    on every path to the end of the function, by a call on the same element that puts one back (`unclear_content()`, `add_<x>()`,
    `_add_<x>()`).  The element emptied is the one the loop iterates (`for p in E.p_lst: other.append(p)` / `E.remove(p)`)."""
    from sa import paths as P_
    from sa.desugar import desugar

    ctx.rule("R3.7", "an element emptied of a child its type requires gets one back before the function returns")
    n_sites = 0
    for g in prog.all_functions():
        if not g.module.name.startswith("pptx.oxml."):
            continue
        loops = [n for n in ast.walk(g.node) if isinstance(n, ast.For) and isinstance(n.target, ast.Name) and isinstance(n.iter, ast.Attribute)
                 and n.iter.attr.endswith("_lst")]
        # the other way the repository empties an element of one kind of child: `E.remove_all("a:p", ...)`
        wipes = [n for n in ast.walk(g.node) if isinstance(n, ast.Call) and isinstance(n.func, ast.Attribute) and n.func.attr == "remove_all"
                 and n.args and all(isinstance(a, ast.Constant) and isinstance(a.value, str) for a in n.args)]
        # ... and `other.extend(E.<x>_lst)`: lxml moves every listed child over to `other`
        moves_all = [n for n in ast.walk(g.node) if isinstance(n, ast.Call) and isinstance(n.func, ast.Attribute) and n.func.attr == "extend"
                     and len(n.args) == 1 and isinstance(n.args[0], ast.Attribute) and n.args[0].attr.endswith("_lst")
                     and ast.unparse(n.func.value) != ast.unparse(n.args[0].value)]
        if not loops and not wipes and not moves_all:
            continue
        fc = FCtx(g)
        sites = []   # (node, emptied element expression, [child tags])
        for lp in loops:
            src = lp.iter.value              # the element whose children are iterated
            v = lp.target.id
            moves = [c for c in ast.walk(lp) if isinstance(c, ast.Call) and isinstance(c.func, ast.Attribute)
                     and c.func.attr in ("append", "insert", "addprevious", "addnext", "remove") and any(dotted(a) == v for a in c.args)]
            if not moves or any(isinstance(x, (ast.If, ast.Break, ast.Continue)) for x in ast.walk(lp)):
                continue
            # moving into the same element re-orders, it does not empty; `E.remove(child)` empties E
            srcs = ast.unparse(src)
            if all(ast.unparse(c.func.value) == srcs and c.func.attr != "remove" for c in moves):
                continue
            prop = lp.iter.attr[:-4]
            ctags = set()
            for a in T.expr(src, fc):
                if a[0] == "inst":
                    decl = next((d for d in M.child_decls(a[1]) if d.prop == prop), None)
                    if decl is not None:
                        ctags.add(decl.tags[0])
            sites.append((lp, src, sorted(ctags), "%s_lst" % prop))
        for w in wipes:
            sites.append((w, w.func.value, [a.value for a in w.args], "remove_all"))
        for mv in moves_all:
            src = mv.args[0].value
            prop = mv.args[0].attr[:-4]
            ctags = set()
            for a in T.expr(src, fc):
                if a[0] == "inst":
                    decl = next((d for d in M.child_decls(a[1]) if d.prop == prop), None)
                    if decl is not None:
                        ctags.add(decl.tags[0])
            sites.append((mv, src, sorted(ctags), "%s_lst" % prop))
        for node, src, ctags, how in sites:
            srcs = ast.unparse(src)
            req = []
            for a in T.expr(src, fc):
                if a[0] != "inst":
                    continue
                for ctag in ctags:
                    cq = prog.qn(ctag)
                    for t in M.tags_for_class(a[1]):
                        for tq in sorted(x for x in S.elem_decls.get(prog.qn(t), ()) if x in S.ctypes):
                            if cq in S.alphabet(tq) and required_child(S, tq, cq):
                                req.append((ctag, S.tname(tq)))
            if not req:
                continue
            n_sites += 1
            prop = req[0][0].split(":")[-1]
            key = "%s:%s.%s" % (g.qualname, srcs, how if how != "remove_all" else "%s_lst" % prop)
            # the clearing primitive itself (its callers restore): a method of the emptied class whose whole job is the loop
            if srcs == "self" and len([s_ for s_ in g.node.body if not (isinstance(s_, ast.Expr) and isinstance(s_.value, ast.Constant))]) == 1:
                ctx.ok("R3.7", key, nontrivial=False)
                continue
            gd = desugar(g.node)
            if isinstance(node, ast.For):
                lpd = [n for n in ast.walk(gd) if isinstance(n, ast.For) and ast.unparse(n.iter) == ast.unparse(node.iter) and ast.unparse(n.target) == ast.unparse(node.target)]
            else:
                lpd = [n for n in ast.walk(gd) if isinstance(n, ast.Call) and ast.unparse(n) == ast.unparse(node)]
            ok_all, found = True, False
            for pth in P_.enum_paths(gd.body):
                idx = next((i for i, e in enumerate(pth.events) if e[0] in ("loop", "stmt") and any(
                    (e[1] is x) if isinstance(node, ast.For) else any(y is x for y in ast.walk(e[1])) for x in lpd)), None)
                if idx is None or pth.end == "raise":
                    continue
                found = True
                restored = False
                for e in pth.events[idx + 1:]:
                    if e[0] == "stmt":
                        for c in ast.walk(e[1]):
                            if isinstance(c, ast.Call) and isinstance(c.func, ast.Attribute) and ast.unparse(c.func.value) == srcs \
                                    and c.func.attr in ("unclear_content", "add_" + prop, "_add_" + prop, "get_or_add_" + prop):
                                restored = True
                if not restored:
                    ok_all = False
            if not found:
                ctx.error(key, "the emptying statement is not on any path of the function")
            elif ok_all:
                ctx.ok("R3.7", key, sample={"function": g.fq, "emptied": "%s of <%s>" % (srcs, req[0][0]), "required_by": req[0][1], "restored": "after the loop"})
            else:
                ctx.violation("R3.7", key, "every <%s> is moved out of `%s` and nothing puts one back afterwards: %s requires at least one, "
                              "so the element is left schema-invalid" % (req[0][0], srcs, req[0][1]), file=g.file, line=node.lineno)
    ctx.count("emptied_required_sites", n_sites)
