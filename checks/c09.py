"""C09 — a property reads back as set; None restores inheritance (decidable clauses).

Rules
  R9.1  location symmetry: the XML attribute locations a getter reads and its setter writes intersect (delegation chains
        followed through oxml-level properties/helpers); pairs that are not delegation chains are counted as not analysed
  R9.2  scale inverse: for every simple-type class convert_from_xml o convert_to_xml is the identity up to the stated
        quantum: reciprocal factors, rounding mode recorded
  R9.3  defaults: an OptionalAttribute's declared default equals the schema default whenever the schema declares one
        (the setter removes the attribute on the default, so a reader applying schema defaults must see the same value)
  R9.5  presence is not decided by truthiness: in value-selecting expressions (`a or b`, `a if a else b`,
        `if not a: return b ... return a`) the tested value must be boolean, or its falsy value must equal the fall-back
        ("" for strings, b"" for bytes), or it must be an object without __len__/__bool__; numeric, unknown and element
        values are refused (0 / 0.0 / an element without children are valid values that would be replaced)
  R9.4  rejection type: explicit refusals in proxy-layer setters raise TypeError or ValueError only
"""

from __future__ import annotations

import ast
from fractions import Fraction

from sa.attrpair import pairings
from sa.pysrc import ClassInfo, ClassRef, EnumMember, Unknown, dotted
from sa.report import AnalysisError
from sa.types import FCtx, Types, walk_own


# -- R9.1 helpers -------------------------------------------------------------------------------------------
def attr_locs(prog, M, T, f, selfcls, mode, depth=0, seen=None):
    """Set of (element class name, xml attribute name) read (mode 'r') or written (mode 'w') by f, following
    properties / setters / helper methods on typed receivers."""
    seen = seen if seen is not None else set()
    if (f, selfcls, mode) in seen or depth > 4:
        return set()
    seen.add((f, selfcls, mode))
    out = set()
    fc = FCtx(f, selfcls)

    def decl_attr(c, name):
        for k in prog.mro(c):
            if M.is_oxml_class(k):
                for d in M.own_decls(k)[1]:
                    if d.prop == name:
                        return (k.name, d.attr)
        return None

    for n in walk_own(f.node):
        # attribute loads / stores on element-typed receivers
        if isinstance(n, ast.Attribute):
            is_store = isinstance(n.ctx, ast.Store)
            if (mode == "r" and is_store) or (mode == "w" and not is_store):
                # in write mode, loads matter only as helper calls (handled below)
                if not (mode == "w" and not is_store):
                    continue
            if isinstance(n.value, ast.Name) and n.value.id == "self":
                bt = frozenset([("inst", selfcls)]) if selfcls is not None else frozenset()
            else:
                bt = T.expr(n.value, fc)
            for a in bt:
                if a[0] != "inst":
                    continue
                c = a[1]
                if M.is_oxml_class(c):
                    loc = decl_attr(c, n.attr)
                    if loc and ((mode == "r" and not is_store) or (mode == "w" and is_store)):
                        out.add(loc)
                        continue
                    if mode == "r" and not is_store:
                        # presence / content of a declared child element
                        for d in M.child_decls(c):
                            names = [d.prop, d.prop + "_lst"] + [t.split(":")[1] for t in d.tags]
                            if n.attr in names:
                                for t in d.tags:
                                    if n.attr in (d.prop, d.prop + "_lst", t.split(":")[1]) and (
                                            d.kind != "ZeroOrOneChoice" or n.attr in (d.prop, t.split(":")[1])):
                                        out.add((d.cls.name, "child " + t))
                if mode == "r" and not is_store:
                    g = prog.lookup(c, n.attr)
                    if g is not None and g.kind in ("property", "lazyproperty") and (M.is_oxml_class(c) or depth < 2):
                        out |= attr_locs(prog, M, T, g, c, "r", depth + 1, seen)
                if mode == "w" and is_store:
                    st = prog.lookup_setter(c, n.attr)
                    if st is not None:
                        out |= attr_locs(prog, M, T, st, c, "w", depth + 1, seen)
        # helper calls
        if isinstance(n, ast.Call) and isinstance(n.func, ast.Attribute):
            if isinstance(n.func.value, ast.Name) and n.func.value.id == "self" and selfcls is not None:
                bt = frozenset([("inst", selfcls)])
            else:
                bt = T.expr(n.func.value, fc)
            if mode == "w" and n.func.attr == "set" and len(n.args) == 2 and isinstance(n.args[0], ast.Constant):
                for a in bt:
                    if a[0] == "inst" and M.is_oxml_class(a[1]):
                        out.add((a[1].name, n.args[0].value))
            if mode == "r" and n.func.attr.startswith("get_or_add_"):
                ft = T.member(bt, n.func.attr, fc)
                for a in ft:
                    if a[0] == "gen" and a[3] is not None:
                        out.add((a[2].cls.name, "child " + a[3]))
            if mode == "w" and n.func.attr.startswith(("_add_", "add_", "get_or_add_", "_remove_", "get_or_change_to_", "_insert_")):
                ft = T.member(bt, n.func.attr, fc)
                for a in ft:
                    if a[0] == "gen":
                        d = a[2]
                        if a[3] is not None:
                            out.add((d.cls.name, "child " + a[3]))
                        else:
                            for t in d.tags:
                                out.add((d.cls.name, "child " + t))
            if mode == "w" and n.func.attr.startswith(("_add_", "add_")) and n.keywords:
                ft = T.member(bt, n.func.attr, fc)
                for a in ft:
                    if a[0] == "gen":
                        cc = M.class_for_tag(a[3])
                        for kw in n.keywords:
                            if cc is not None and kw.arg:
                                loc = decl_attr(cc, kw.arg)
                                if loc:
                                    out.add(loc)
            for a in bt:
                if a[0] == "inst":
                    g = prog.lookup(a[1], n.func.attr)
                    if g is not None and g.kind in ("method", "classmethod", "staticmethod") and (
                            M.is_oxml_class(a[1]) or a[1] is selfcls) and not n.func.attr.startswith("__"):
                        out |= attr_locs(prog, M, T, g, a[1], mode, depth + 1, seen)
    return out


def gate_locs(prog, M, T, f, selfcls, depth=0, seen=None):
    """{(element class name, xml attribute, constant text)}: attribute locations the getter compares with a constant (an enum member or a
    literal) - the getter's answer is its fall-back unless the stored attribute equals that constant.  Follows properties on typed
    receivers like attr_locs."""
    from sa.pysrc import Unknown

    seen = seen if seen is not None else set()
    if (f, selfcls) in seen or depth > 4:
        return set()
    seen.add((f, selfcls))
    out = set()
    fc = FCtx(f, selfcls)

    def decl_attr(c, name):
        for k in prog.mro(c):
            if M.is_oxml_class(k):
                for d in M.own_decls(k)[1]:
                    if d.prop == name:
                        return (k.name, d.attr)
        return None

    def types_of(e):
        if isinstance(e, ast.Name) and e.id == "self":
            return frozenset([("inst", selfcls)]) if selfcls is not None else frozenset()
        return T.expr(e, fc)

    for n in walk_own(f.node):
        if isinstance(n, ast.Compare) and len(n.ops) == 1 and isinstance(n.ops[0], (ast.Eq, ast.NotEq, ast.Is, ast.IsNot)):
            for a_, b_ in ((n.left, n.comparators[0]), (n.comparators[0], n.left)):
                if not isinstance(a_, ast.Attribute):
                    continue
                k = prog.const(b_, f.module, None, f.cls)
                if isinstance(k, Unknown) or k is None or isinstance(k, bool):
                    continue
                for t in types_of(a_.value):
                    if t[0] == "inst" and M.is_oxml_class(t[1]):
                        loc = decl_attr(t[1], a_.attr)
                        if loc:
                            out.add(loc + (ast.unparse(b_),))
        if isinstance(n, ast.Attribute) and isinstance(n.ctx, ast.Load):
            for t in types_of(n.value):
                if t[0] == "inst":
                    g = prog.lookup(t[1], n.attr)
                    if g is not None and g.kind in ("property", "lazyproperty") and (M.is_oxml_class(t[1]) or depth < 2):
                        out |= gate_locs(prog, M, T, g, t[1], depth + 1, seen)
    return out


# -- R9.2 helpers -------------------------------------------------------------------------------------------
class Aff:
    """value = a * x (+ b); rounding: None|'round'|'trunc'|'floor'; mod: modulus applied (on the XML integer side)"""

    def __init__(self, a=Fraction(1), rounding=None, mod=None, kind="num"):
        self.a, self.rounding, self.mod, self.kind = a, rounding, mod, kind

    def __repr__(self):
        return "x*%s%s%s" % (self.a, " " + self.rounding if self.rounding else "", " mod %s" % self.mod if self.mod else "")


def affine(prog, f, cls, expr, env, depth=0):
    """Affine form of `expr` in the parameter (env maps names to Aff); None if not affine."""
    if depth > 8:
        return None
    if isinstance(expr, ast.Name):
        return env.get(expr.id)
    if isinstance(expr, ast.Constant):
        return None
    if isinstance(expr, ast.BinOp):
        l = affine(prog, f, cls, expr.left, env, depth + 1)
        rc = prog.const(expr.right, f.module, None, cls)
        if isinstance(rc, Unknown) and isinstance(expr.right, ast.Attribute) and dotted(expr.right.value) == "cls":
            a = prog.lookup_attr(cls, expr.right.attr)
            rc = prog.const(a[1], a[0].module, None, a[0]) if a else rc
        if l is not None and isinstance(rc, (int, float)) and not isinstance(rc, bool):
            c = Fraction(str(rc))
            if isinstance(expr.op, ast.Mult):
                return Aff(l.a * c, l.rounding, l.mod)
            if isinstance(expr.op, ast.Div):
                return Aff(l.a / c, l.rounding, l.mod)
            if isinstance(expr.op, ast.FloorDiv):
                return Aff(l.a / c, "floor", l.mod)
            if isinstance(expr.op, ast.Mod):
                return Aff(l.a, l.rounding, c)
            if isinstance(expr.op, (ast.Add, ast.Sub)):
                return l
        return None
    if isinstance(expr, ast.Call):
        fn = dotted(expr.func) or ""
        last = fn.split(".")[-1]
        if last in ("str", "float", "Emu", "Length") and expr.args:
            return affine(prog, f, cls, expr.args[0], env, depth + 1)
        if last == "int" and expr.args:
            a = affine(prog, f, cls, expr.args[0], env, depth + 1)
            if a is None:
                return None
            return Aff(a.a, a.rounding or "trunc", a.mod)
        if last == "round" and expr.args:
            a = affine(prog, f, cls, expr.args[0], env, depth + 1)
            return Aff(a.a, "round", a.mod) if a else None
        if last == "Centipoints" and expr.args:
            a = affine(prog, f, cls, expr.args[0], env, depth + 1)
            return Aff(a.a * 127, a.rounding, a.mod) if a else None
        if isinstance(expr.func, ast.Attribute) and expr.func.attr in ("convert_to_xml", "convert_from_xml") and expr.args:
            r = prog.resolve(f.module, dotted(expr.func.value) or "")
            tcls = r if isinstance(r, ClassInfo) else (cls if dotted(expr.func.value) == "cls" else None)
            g = None
            if isinstance(expr.func.value, ast.Call) and dotted(expr.func.value.func) == "super":
                g, tcls = prog.lookup(cls, expr.func.attr, after=f.cls), cls
            elif tcls is not None:
                g = prog.lookup(tcls, expr.func.attr)
            inner = affine(prog, f, cls, expr.args[0], env, depth + 1)
            if g is not None and inner is not None:
                r2 = func_affine(prog, g, tcls, depth + 1)
                if r2 is not None:
                    return Aff(inner.a * r2.a, r2.rounding or inner.rounding, r2.mod or inner.mod)
        return None
    if isinstance(expr, ast.Attribute) and expr.attr == "centipoints":
        a = affine(prog, f, cls, expr.value, env, depth + 1)
        return Aff(a.a / 127, "floor", a.mod) if a else None
    return None


def func_affine(prog, f, cls, depth=0, plain_int_branch=True):
    """Affine form of the value returned by a conversion function for a plain numeric argument."""
    p = f.params[1] if len(f.params) > 1 else None
    env = {p: Aff()}
    body = [s for s in f.node.body if not (isinstance(s, ast.Expr) and isinstance(s.value, ast.Constant))]
    result = None
    for st in body:
        if isinstance(st, ast.Assign) and len(st.targets) == 1 and isinstance(st.targets[0], ast.Name):
            a = affine(prog, f, cls, st.value, env, depth)
            if a is not None:
                env[st.targets[0].id] = a
        elif isinstance(st, ast.AugAssign) and isinstance(st.target, ast.Name):
            pass  # normalisation (modulus) of the input: affine factor unchanged
        elif isinstance(st, ast.If):
            # lexical-alternative branches ("%" / unit suffix): the plain-number path is the fall-through
            if any(isinstance(x, ast.AugAssign) for x in ast.walk(st)):
                continue
            continue
        elif isinstance(st, ast.Return):
            result = affine(prog, f, cls, st.value, env, depth)
    return result


def run(ctx):
    from checks.c10 import load

    prog, S, M = load(ctx.repo)

    from sa.xmlchemy_model import ALL_PARTS, mechanism_gate  # noqa: F401


    mechanism_gate(ctx, M, ("attr", "get_or_add", "remover", "change_to"))
    T = Types(prog, M)
    ctx.level = "other"
    ctx.trusted = ["CPython ast", "typed delegation chains (engine A)", "schema attribute defaults as oracle for R9.3"]
    ctx.explanation = (
        "Round-trip necessary conditions visible in the shape of the code: getter and setter of a property must touch the same "
        "XML attribute location (resolved through the element classes' declarations); to_xml and from_xml of each simple type "
        "must apply reciprocal scale factors (affine evaluation of both conversion functions, rounding mode recorded as the "
        "quantum); removing an attribute on assignment of the declared default is only transparent if that default is the "
        "schema's; refusals raise TypeError/ValueError.")
    ctx.not_decided = ["persistence across save/re-open", "independence of sibling properties",
                       "inheritance resolution for placeholders", "pairs that are not pure delegation chains (counted)"]

    # -- R9.1 ----------------------------------------------------------------------------------------
    ctx.rule("R9.1", "getter and setter of a read/write property touch a common XML attribute location")
    npairs = nanalysed = 0
    for c in prog.all_classes():
        if M.is_oxml_class(c) or c.module.name.startswith(("pptx.oxml", "pptx.opc.oxml", "pptx.enum")):
            continue
        for name, st in sorted(c.setters.items()):
            g = c.methods.get(name) or prog.lookup(c, name)
            if g is None or g.kind not in ("property", "lazyproperty"):
                continue
            npairs += 1
            R = attr_locs(prog, M, T, g, c, "r")
            W = attr_locs(prog, M, T, st, c, "w")
            key = "%s.%s" % (c.name, name)
            RA = {x for x in R if not x[1].startswith("child ")}
            WA = {x for x in W if not x[1].startswith("child ")}
            RC, WC = R - RA, W - WA
            verdict = None
            if RA and WA:
                verdict = bool(RA & WA)
            elif RC and WC and {x[0] for x in RC} & {x[0] for x in WC}:
                verdict = bool(RC & WC)
            if verdict is None:
                ctx.info("R9.1", "%s not analysed (getter locations %d, setter locations %d)" % (key, len(R), len(W)))
                continue
            nanalysed += 1
            if verdict:
                ctx.ok("R9.1", key, sample={"property": "%s.%s" % (c.name, name), "common": sorted("%s/@%s" % x for x in (R & W))[:4]})
            else:
                ctx.violation("R9.1", key, "getter reads %s but setter writes %s" % (
                    sorted("%s/@%s" % x for x in R)[:4], sorted("%s/@%s" % x for x in W)[:4]), file=st.file, line=st.line)
    ctx.count("rw_property_pairs", npairs)
    ctx.count("pairs_analysed", nanalysed)

    # -- R9.7 ----------------------------------------------------------------------------------------
    ctx.rule("R9.7", "an attribute the getter compares with a constant before it answers is written by the setter")
    ngates = 0
    for c in prog.all_classes():
        if M.is_oxml_class(c) or c.module.name.startswith(("pptx.oxml", "pptx.opc.oxml", "pptx.enum")):
            continue
        for name, st in sorted(c.setters.items()):
            g = c.methods.get(name) or prog.lookup(c, name)
            if g is None or g.kind not in ("property", "lazyproperty"):
                continue
            G = gate_locs(prog, M, T, g, c)
            if not G:
                continue
            W = attr_locs(prog, M, T, st, c, "w")
            for ecls, attr, const in sorted(G):
                ngates += 1
                key = "%s.%s:%s/@%s" % (c.name, name, ecls, attr)
                if (ecls, attr) in W:
                    ctx.ok("R9.7", key, sample={"getter_requires": "%s/@%s == %s" % (ecls, attr, const), "setter_writes": "%s/@%s" % (ecls, attr)})
                else:
                    ctx.violation("R9.7", key, "the getter answers with its fall-back unless %s/@%s equals %s, but the setter never writes that "
                                  "attribute: on an element that carries another value the assigned value cannot be read back"
                                  % (ecls, attr, const), file=st.file, line=st.line)
    ctx.count("getter_gates", ngates)

    # -- R9.2 ----------------------------------------------------------------------------------------
    ctx.rule("R9.2", "to_xml and from_xml of a simple type apply reciprocal scale factors")
    stm = prog.modules["pptx.oxml.simpletypes"]
    nst = 0
    # every simple type of the program (the family may be split over modules)
    for c in [k_ for k_ in prog.all_classes() if k_.module.name.startswith("pptx.oxml")]:
        if not any(k.name == "BaseSimpleType" for k in prog.mro(c)):
            continue
        tx, fx = prog.lookup(c, "convert_to_xml"), prog.lookup(c, "convert_from_xml")
        if tx is None or fx is None:
            continue
        a, b = func_affine(prog, tx, c), func_affine(prog, fx, c)
        key = c.name
        if a is None or b is None:
            continue  # string / boolean / enumeration kinds: no scale
        nst += 1
        if a.a * b.a == 1:
            q = "1 unit" if a.rounding == "round" else ("up to 1 unit (truncation)" if a.rounding in ("trunc", "floor") else "exact")
            ctx.ok("R9.2", key, sample={"type": c.name, "to_xml": repr(a), "from_xml": repr(b), "quantum": q})
        else:
            ctx.violation("R9.2", key, "to_xml scales by %s but from_xml by %s: the value read back differs by a factor %s" % (
                a.a, b.a, a.a * b.a), file=c.file, line=c.line)
    # Adjustment normalisation and Font.size use the same evaluator
    adj = prog.cls("pptx.shapes.autoshape", "Adjustment")
    dn, nm = adj.methods.get("_denormalize"), adj.methods.get("_normalize")
    if dn is None or nm is None:
        raise AnalysisError("anchor vanished: Adjustment._normalize/_denormalize")

    def static_aff(f):
        env = {f.params[0]: Aff()}
        for st in f.node.body:
            if isinstance(st, ast.Return):
                return affine(prog, f, adj, st.value, env)
        return None

    a, b = static_aff(dn), static_aff(nm)
    if a is not None and b is not None and a.a * b.a == 1:
        ctx.ok("R9.2", "Adjustment", sample={"denormalize": repr(a), "normalize": repr(b)})
    else:
        ctx.violation("R9.2", "Adjustment", "normalize/denormalize are not inverse (%s, %s)" % (a, b), file=adj.file, line=adj.line)
    nst += 1
    ctx.count("scaled_types", nst)

    # -- R9.3 ----------------------------------------------------------------------------------------
    ctx.rule("R9.3", "declared default of an OptionalAttribute equals the schema default (when the schema has one)")
    from sa.intervals import Lexeme, SimpleTypes

    STs = SimpleTypes(prog)
    nd = 0
    seen = set()
    for p in pairings(prog, S, M):
        d = p.decl
        if d.kind != "OptionalAttribute" or p.attr is None or (p.cls, d.prop, p.tq) in seen:
            continue
        seen.add((p.cls, d.prop, p.tq))
        sd = p.attr.default
        key = "%s.%s@%s" % (p.cls.name, d.prop, S.tname(p.tq))
        if sd is None:
            if d.has_default and d.default is not None:
                ctx.info("R9.3", "%s: Python default %r but the schema declares none (absence means 'inherit')" % (key, d.default))
            continue
        nd += 1
        if not d.has_default or d.default is None:
            # reading an absent attribute gives None while a schema-aware reader sees `sd`: informational only
            ctx.ok("R9.3", key, nontrivial=False)
            ctx.info("R9.3", "%s: schema default %r, Python reports None when absent" % (key, sd))
            continue
        pv = d.default
        ok = None
        if isinstance(pv, EnumMember):
            ok = (pv.xml == sd)
        elif isinstance(pv, bool):
            ok = (sd in ("1", "true")) == pv
        elif isinstance(pv, (int, float)):
            # interpret the schema lexeme through the simple type's reader scale
            try:
                if isinstance(d.st, ClassRef) and not prog.is_enum(d.st.cls):
                    fx = prog.lookup(d.st.cls, "convert_from_xml")
                    b = func_affine(prog, fx, d.st.cls) if fx else None
                else:
                    b = None
                txt = sd.rstrip("%")
                val = Fraction(txt)
                if sd.endswith("%"):
                    # percent literal alternative: value in percent; compare through the type's own percent branch
                    r = STs.reads(d.st.cls, Lexeme(sd)) if isinstance(d.st, ClassRef) else None
                    ok = None
                    if r and r[0] == "ok":
                        # numeric comparison: N% of a 100000-based fraction type is N/100; of an integer percent type is N
                        ok = (Fraction(str(pv)) in (val, val / 100))
                else:
                    ok = (Fraction(str(pv)) == (val * b.a if b is not None else val))
            except (ValueError, ZeroDivisionError):
                ok = None
        elif isinstance(pv, str):
            ok = (pv == sd)
        if ok is True:
            ctx.ok("R9.3", key, sample={"attr": "%s/@%s" % (p.tag, d.attr), "python_default": repr(pv), "schema_default": sd})
        elif ok is False:
            ctx.violation("R9.3", key, "assigning the declared default %r removes %s/@%s, but the schema default is %r: a reader "
                          "applying schema defaults sees a different value" % (pv, p.tag, d.attr, sd), file=p.cls.file, line=d.line)
        else:
            ctx.info("R9.3", "%s: default %r vs schema %r not comparable" % (key, pv, sd))
    ctx.count("defaults_compared", nd)

    # -- R9.4 ----------------------------------------------------------------------------------------
    ctx.rule("R9.4", "explicit refusals in proxy-layer setters raise TypeError or ValueError")
    nr = 0
    for c in prog.all_classes():
        if M.is_oxml_class(c) or c.module.name.startswith(("pptx.oxml", "pptx.opc")):
            continue
        for name, st in c.setters.items():
            bodies = [st]
            for n in walk_own(st.node):
                if isinstance(n, ast.Call) and isinstance(n.func, ast.Attribute) and dotted(n.func.value) == "self":
                    h = prog.lookup(c, n.func.attr)
                    if h is not None and h.kind == "method" and h not in bodies:
                        bodies.append(h)
            for n in [x for b in bodies for x in walk_own(b.node)]:
                if isinstance(n, ast.Raise) and n.exc is not None:
                    e = n.exc.func if isinstance(n.exc, ast.Call) else n.exc
                    en = dotted(e)
                    nr += 1
                    key = "%s.%s:%s" % (c.name, name, en)
                    if en in ("TypeError", "ValueError", "NotImplementedError"):
                        ctx.ok("R9.4", key, nontrivial=False)
                    else:
                        ctx.violation("R9.4", key, "setter refuses with %s (documented: TypeError/ValueError)" % en, file=st.file, line=n.lineno)
    ctx.count("setter_raise_sites", nr)
    if nr == 0:
        ctx.error("R9.4", "no raise in any proxy setter recognised")
    r95(ctx, prog, M, T)
    r96(ctx, prog)


# -- R9.6 ------------------------------------------------------------------------------------------------
def r96(ctx, prog):
    """A relationship is reused only for exactly the requested target: the stored target (the reference string of an external
    relationship, the part of an internal one) is compared with the requested one by plain equality of the unmodified values.
    Otherwise two different hyperlink addresses (or parts) share one relationship and the later one reads back as the earlier."""
    from sa import paths as P_
    from sa.inline import expand

    ctx.rule("R9.6", "relationship reuse matches the exact target (no normalisation of either side)")
    rels = prog.cls("pptx.opc.package", "_Relationships")
    gm = rels.methods.get("_get_matching") if rels else None
    if gm is None:
        raise AnalysisError("anchor vanished: _Relationships._get_matching")
    gx = expand(prog, gm, local_only=True)
    al = P_.aliases(gx)
    tparam = gm.node.args.args[2].arg
    probs, hits = [], 0
    for lp in [n for n in ast.walk(gx) if isinstance(n, ast.For) and isinstance(n.target, ast.Name)]:
        v = lp.target.id
        for pth in P_.enum_paths(lp.body):
            if pth.end != "return" or pth.end_node.value is None or P_.norm(pth.end_node.value, al) != v + ".rId":
                continue
            hits += 1
            # the value compared with the requested target on this path (resolved through the assignments of the path)
            env = {}
            for st in pth.stmts():
                if isinstance(st, ast.Assign) and len(st.targets) == 1 and isinstance(st.targets[0], ast.Name):
                    env[st.targets[0].id] = st.value
            cmps = []   # every equality on the way that involves the requested target (each must be the exact comparison)
            for e in pth.events:
                if e[0] == "cond" and e[2] is True:
                    for c in ast.walk(e[1]):
                        if isinstance(c, ast.Compare) and len(c.ops) == 1 and isinstance(c.ops[0], ast.Eq):
                            sides = [env.get(s_.id, s_) if isinstance(s_, ast.Name) else s_ for s_ in (c.left, c.comparators[0])]
                            if any(isinstance(x, ast.Name) and x.id == tparam for x in ast.walk(c)):
                                cmps.append(sides)
            if not cmps:
                probs.append("an id is handed out on a path that has not compared the stored target with the requested one")
                continue
            ok_other = {"%s.target_ref" % v, "%s.target_part" % v, "%s._target" % v}

            def stored(e_):
                """the relationship's own target, unmodified (possibly chosen by target mode)"""
                if isinstance(e_, ast.IfExp):
                    return stored(e_.body) and stored(e_.orelse)
                return ast.unparse(e_) in ok_other

            for cmpd in cmps:
                req = [x for x in cmpd if isinstance(x, ast.Name) and x.id == tparam]
                other = [x for x in cmpd if not (isinstance(x, ast.Name) and x.id == tparam)]
                if len(req) != 1 or len(other) != 1 or not stored(other[0]):
                    probs.append("the stored target and the requested one are compared as `%s == %s`, not as the unmodified values" % (
                        ast.unparse(cmpd[0]), ast.unparse(cmpd[1])))
    if not hits:
        ctx.error("_Relationships._get_matching", "no path returning the id of a matching relationship was recognised")
    elif probs:
        ctx.violation("R9.6", "_Relationships._get_matching", "; ".join(sorted(set(probs))) + ": two different targets can share one "
                      "relationship, and the later one reads back as the earlier", file=gm.file, line=gm.line)
    else:
        ctx.ok("R9.6", "_Relationships._get_matching", sample={"match": "rel.target_ref / rel.target_part == target, compared as given"})


# -- R9.5 ------------------------------------------------------------------------------------------------
def _selection_patterns(fnode):
    """(line, form, tested expr, fall-back expr) for value-selecting truthiness tests."""
    def same(a, b):
        return ast.dump(a) == ast.dump(b)

    out = []
    for n in ast.walk(fnode):
        if isinstance(n, ast.BoolOp) and isinstance(n.op, ast.Or) and len(n.values) == 2:
            out.append((n.lineno, "a or b", n.values[0], n.values[1]))
        if isinstance(n, ast.IfExp):
            if same(n.test, n.body):
                out.append((n.lineno, "a if a else b", n.test, n.orelse))
            elif isinstance(n.test, ast.UnaryOp) and isinstance(n.test.op, ast.Not) and same(n.test.operand, n.orelse):
                out.append((n.lineno, "b if not a else a", n.orelse, n.body))
        for fld in ("body", "orelse"):
            b = getattr(n, fld, None)
            if not (isinstance(b, list) and b and isinstance(b[0], ast.stmt)):
                continue
            for i, st in enumerate(b[:-1]):
                if isinstance(st, ast.If) and not st.orelse and len(st.body) == 1 and isinstance(st.body[0], ast.Return) \
                        and isinstance(b[i + 1], ast.Return) and st.body[0].value is not None and b[i + 1].value is not None:
                    t, r1, r2 = st.test, st.body[0].value, b[i + 1].value
                    if isinstance(t, ast.UnaryOp) and isinstance(t.op, ast.Not) and same(t.operand, r2):
                        out.append((st.lineno, "if not a: return b; return a", t.operand, r1))
                    elif same(t, r1):
                        out.append((st.lineno, "if a: return a; return b", t, r2))
    return out


def _truthiness_verdict(prog, M, T, fc, tested, fallback):
    """None if harmless, else the reason the selection can replace a valid value."""
    t = T.expr(tested, fc)
    if not t and isinstance(tested, ast.Attribute) and tested.attr in ("text", "tail"):
        # `.text` of an element reached dynamically (getattr by name): lxml's _Element.text / .tail are str | None
        t = frozenset([("prim", "str"), ("prim", "NoneType")])
    if not t:
        return "the type of `%s` is unknown: a valid falsy value (0, 0.0, '') would be replaced by the fall-back" % ast.unparse(tested)
    fb = prog.const(fallback, fc.fn.module) if isinstance(fallback, ast.Constant) else Ellipsis
    for a in t:
        if a[0] == "prim":
            if a[1] in ("bool", "NoneType"):
                continue
            if a[1] == "str" and fb == "":
                continue
            if a[1] == "bytes" and fb == b"":
                continue
            if a[1] in ("int", "float") and fb in (0, 0.0) and fb is not False and fb is not Ellipsis:
                continue
            return "`%s` can be a %s; its falsy value is a valid value and differs from the fall-back `%s`" % (
                ast.unparse(tested), a[1], ast.unparse(fallback))
        elif a[0] == "inst":
            c = a[1]
            if M.is_oxml_class(c):
                return "`%s` can be an element (<%s>): an element without children is falsy" % (ast.unparse(tested), c.name)
            if prog.lookup(c, "__len__") is not None or prog.lookup(c, "__bool__") is not None:
                if any(k.name in ("int", "float", "Length", "str") for k in prog.mro(c) if hasattr(k, "name")) or True:
                    return "`%s` can be a %s, which defines __len__/__bool__" % (ast.unparse(tested), c.name)
            ext = [b for b in prog.ext_bases(c)] if hasattr(prog, "ext_bases") else []
            if any(str(b).split(".")[-1] in ("int", "float", "str", "list", "dict", "tuple", "Sequence", "Mapping") for b in ext):
                return "`%s` can be a %s (a %s subtype): its zero/empty value is falsy" % (ast.unparse(tested), c.name, ext[0])
        elif a[0] in ("lxml",):
            return "`%s` can be an lxml element: an element without children is falsy" % ast.unparse(tested)
        elif a[0] == "ext":
            if "NoneType" in str(a[1]):
                continue
            continue  # foreign objects (PIL, xlsxwriter ...): not document values
        elif a[0] in ("list", "tuple", "dict"):
            # `xs or ys` between collections asks "are there any items", which is what emptiness means: no value is lost
            ft = T.expr(fallback, fc)
            if ft and all(b[0] in ("list", "tuple", "dict") for b in ft):
                continue
            return "`%s` can be an empty %s" % (ast.unparse(tested), a[0])
        elif a[0] in ("enum", "member"):
            return "`%s` can be an enumeration member whose value may be 0" % ast.unparse(tested)
    return None


def r95(ctx, prog, M, T):
    ctx.rule("R9.5", "presence of a value is not decided by its truthiness where a falsy value is valid")
    n = 0
    for f in prog.all_functions():
        if f.module.name.startswith(("pptx.compat",)):
            continue
        fc = FCtx(f)
        for line, form, tested, fallback in _selection_patterns(f.node):
            tt = T.expr(tested, fc)
            # pure boolean algebra (`a < 0 or a > 9`) is not a value selection
            if isinstance(tested, (ast.Compare, ast.UnaryOp)) or (isinstance(tested, ast.Call) and dotted(tested.func) in ("isinstance", "callable", "hasattr")):
                continue
            n += 1
            key = "%s:%s" % (f.qualname, ast.unparse(tested)[:40])
            why = _truthiness_verdict(prog, M, T, fc, tested, fallback)
            if why is None:
                ctx.ok("R9.5", key, sample={"site": "%s:%d" % (f.file, line), "form": form, "types": sorted(str(a[1]) if len(a) > 1 else a[0] for a in tt)[:4]})
            else:
                ctx.violation("R9.5", key, "%s (form `%s`)" % (why, form), file=f.file, line=line)
    ctx.count("truthiness_selections", n)

    # -- R9.8 -------------------------------------------------------------------------------------------
    ctx.rule("R9.8", "a bool shorthand is recognised by identity: a lookup keyed by True / False does not swallow the enum members whose value is 1 or 0")
    from sa.pysrc import EnumMember as _EM

    nshort = 0
    for f in prog.all_functions():
        if not f.module.name.startswith("pptx.") or f.module.name.startswith(("pptx.oxml", "pptx.opc")):
            continue
        for c in ast.walk(f.node):
            # {True: A, False: B}.get(x, x): everything that is not a key passes through unchanged - and every value equal to a key
            # (1 == True, 0 == False: members of an int-valued enumeration) does not
            if not (isinstance(c, ast.Call) and isinstance(c.func, ast.Attribute) and c.func.attr == "get" and isinstance(c.func.value, ast.Dict)
                    and len(c.args) == 2 and dotted(c.args[0]) is not None and dotted(c.args[0]) == dotted(c.args[1])):
                continue
            d = c.func.value
            keys = [prog.const(k, f.module) if k is not None else None for k in d.keys]
            if not any(k is True or k is False for k in keys):
                continue
            nshort += 1
            key = "%s:bool-shorthand" % f.qualname
            vals = [prog.const(v, f.module, None, f.cls) for v in d.values]
            enums = {v.enum for v in vals if isinstance(v, _EM)}
            if len(enums) != 1:
                ctx.error(key, "the values of the shorthand table are not members of one enumeration")
                continue
            ecls = next((k for k in prog.all_classes() if k.name == next(iter(enums)) and prog.is_enum(k)), None)
            if ecls is None:
                ctx.error(key, "enumeration %s not found" % next(iter(enums)))
                continue
            table = {k: v for k, v in zip(keys, vals) if k is True or k is False}
            swallowed = []
            for m in prog.enum_members(ecls):
                for k, v in table.items():
                    if isinstance(m.value, int) and m.value == int(k) and m.name != v.name:
                        swallowed.append((m.name, m.value, k, v.name))
            if swallowed:
                m = swallowed[0]
                ctx.violation("R9.8", key, "the table lookup goes by equality and %s.%s has the value %d == %s: assigning that member stores %s instead "
                              "(and reads back as the shorthand)" % (ecls.name, m[0], m[1], m[2], m[3]), file=f.file, line=c.lineno)
            else:
                ctx.ok("R9.8", key, sample={"table": {str(k): v.name for k, v in table.items()}, "enumeration": ecls.name})
    ctx.ok("R9.8", "bool shorthand tables", sample={"pass_through_lookups": nshort})
