"""Sibling-context enumeration and the abstract inserter used by C10 (DESIGN appendix B.2)."""

from __future__ import annotations

from collections import deque

from .xsd import ANY, UNBOUNDED


def linearise(p):
    """One of everything the model permits, in schema order (first alternative of a non-repeating
    choice, every alternative of a repeating one)."""
    if p is None:
        return []
    if p.kind == "elem":
        return [p.name]
    if p.kind == "any":
        return []
    if p.kind in ("seq", "all"):
        out = []
        for i in p.items:
            out.extend(linearise(i))
        return out
    if p.kind == "choice":
        if p.max > 1:
            out = []
            for i in p.items:
                out.extend(linearise(i))
            return out
        return linearise(p.items[0]) if p.items else []
    return []


def own_min_zero(p, name):
    """True iff every particle of element `name` in model p has minOccurs 0 (adding it is never
    necessary to complete a word)."""
    found = []

    def walk(q):
        if q.kind == "elem":
            if q.name == name:
                found.append(q.min)
        else:
            for i in q.items:
                walk(i)

    if p is not None:
        walk(p)
    return bool(found) and all(m == 0 for m in found)


class ContextEnumerator:
    """Contexts of one schema type for one child symbol."""

    def __init__(self, schemas, tq, child):
        self.S = schemas
        self.tq = tq
        self.child = child
        self.model = schemas.model(tq)
        self.A = schemas.automaton(tq, optional=frozenset([child]))
        self.R = schemas.automaton(tq, relaxed=True)
        self.sigma = [s for s in schemas.alphabet(tq)]
        self._cache = schemas.__dict__.setdefault("_completion_cache", {})
        # if the child is optional in T the strict automaton does not depend on it -> share cache
        self._ckey = (tq, None if own_min_zero(self.model, child) else child)

    def seeds(self, k):
        """Order-valid words over sigma of length <= k (by the relaxed automaton)."""
        out = [()]
        frontier = [((), self.R.start)]
        for _ in range(k):
            nxt = []
            for w, st in frontier:
                for a in self.sigma:
                    st2 = self.R.step(st, a)
                    if st2:
                        nxt.append((w + (a,), st2))
            out.extend(w for w, _ in nxt)
            frontier = nxt
        return out

    def families(self):
        lin = linearise(self.model)
        c = self.child
        out = []
        if c in lin:
            i = lin.index(c)
            out.append(("all-later", tuple(lin[i + 1:])))
            out.append(("all-earlier", tuple(lin[:i])))
            out.append(("all-permitted", tuple(lin[:i] + lin[i + 1:])))
            out.append(("all-permitted+self", tuple(lin)))
        else:
            out.append(("all-permitted", tuple(lin)))
        # every alternative of non-repeating choices, combined with all-later/all-earlier
        return [(n, w) for n, w in out if self.R.accepts(w)]

    def completions(self, w):
        """All shortest words v accepted by A with w a subsequence of v; added symbols != child."""
        key = (self._ckey, w)
        r = self._cache.get(key)
        if r is not None:
            return r
        A = self.A
        start = (A.start, 0)
        # 0-1 BFS: consuming a seed symbol costs 0, inserting a symbol costs 1
        dist = {start: 0}
        parents = {start: []}
        dq = deque([(0, start)])
        goal_d = None
        goals = []
        n = len(w)
        done = set()
        while dq:
            d, node = dq.popleft()
            if d != dist[node] or node in done:
                continue
            if goal_d is not None and d > goal_d:
                break
            done.add(node)
            st, pos = node
            if pos == n and A.is_final(st):
                goal_d = d
                goals.append(node)
                continue
            moves = []
            if pos < n:
                st2 = A.step(st, w[pos])
                if st2:
                    moves.append((w[pos], (st2, pos + 1), 0))
            if goal_d is None or d < goal_d:
                for x in A.live_symbols(st):
                    if x == ANY or x == self.child:
                        continue
                    if pos < n and x == w[pos]:
                        continue  # consuming the seed symbol yields the same word
                    st2 = A.step(st, x)
                    if st2:
                        moves.append((x, (st2, pos), 1))
            for sym, nd, cost in moves:
                nd_d = d + cost
                old = dist.get(nd)
                if old is None or nd_d < old:
                    dist[nd] = nd_d
                    parents[nd] = [(node, sym)]
                    if cost == 0:
                        dq.appendleft((nd_d, nd))
                    else:
                        dq.append((nd_d, nd))
                elif nd_d == old:
                    parents[nd].append((node, sym))
        words = set()

        def back(node, acc):
            if node == start:
                words.add(tuple(reversed(acc)))
                return
            for p, sym in parents[node]:
                acc.append(sym)
                back(p, acc)
                acc.pop()

        for g in goals:
            if dist[g] == goal_d:
                back(g, [])
        r = sorted(words)
        self._cache[key] = r
        return r

    def valid_positions(self, v):
        c = self.child
        A = self.A
        # prefix states
        pre = [A.start]
        for s in v:
            pre.append(A.step(pre[-1], s) if pre[-1] else frozenset())
        out = []
        for i in range(len(v) + 1):
            st = pre[i]
            if not st:
                break
            st = A.step(st, c)
            if st and A.is_final(A.run(v[i:], st)):
                out.append(i)
        return out


def insertion_index(v, successors, semantics):
    """Index at which insert_element_before(child, *successors) places the child in word v."""
    if semantics == "tag-order":
        for s in successors:
            if s in v:
                return v.index(s)
        return len(v)
    sset = set(successors)
    for i, x in enumerate(v):
        if x in sset:
            return i
    return len(v)
