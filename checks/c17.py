"""C17 — group extents follow their members (decidable clause).

Rules
  R17.1  every public method of the group-capable shape collections that inserts a shape element into the tree is
         followed on all paths by an extent recalculation of the group (self._recalculate_extents(), or
         recalculate_extents() on the group / a new child group, which recurses upwards)
  R17.2  the recalculation hooks have the shape the rule relies on: GroupShapes._recalculate_extents delegates to the
         element; CT_GroupShape.recalculate_extents assigns position/size from the child extents and recurses to the parent
  R17.3  freeform: shape_offset_x/_y and _dx/_dy range over every coordinate-bearing drawing operation and the start point
  R17.4  connector end-point setters, every path: moved end-point == value, other end-point unchanged, extent >= 0
         (path-sensitive evaluation in polynomial normal form, see c17_conn.py)
  (freeform scaling / rounding are value-level: not decided)
"""

from __future__ import annotations

import ast

from sa.pysrc import dotted
from sa.report import AnalysisError
from sa.types import FCtx, Types, walk_own

TREE_FIELDS = ("self._spTree", "self._element", "self._grpSp")
INSERT_WRAPPERS = set()   # methods of the element classes that only wrap insert_element_before (found per run)


def _is_insert(n, helpers):
    """Call that inserts a shape element into the collection's tree: <tree>.add_*(...) / insert_element_before / a private
    helper of the class known to insert."""
    if not (isinstance(n, ast.Call) and isinstance(n.func, ast.Attribute)):
        return False
    raw = dotted(n.func.value)
    # a local standing for the tree (`spTree = self._spTree`), whatever it is called
    names = {raw, _ALIAS_OF.get(id(n.func.value), raw)}
    a = n.func.attr
    if names & set(TREE_FIELDS) and (a.startswith("add_") or a in ("insert_element_before", "append", "insert") or a in INSERT_WRAPPERS):
        return True
    if raw == "self" and a in helpers:
        return True
    if any(x and (x == "spTree" or x.endswith("._spTree")) for x in names) and a.startswith("add_"):
        return True
    return False


_ALIAS_OF = {}  # id(Name node) -> source of the field it aliases in its function (registered per analysed function)


def _register_aliases(fnode):
    from sa import paths as P_

    al = {k: ast.unparse(v) for k, v in P_.aliases(fnode).items()}
    for x in ast.walk(fnode):
        if isinstance(x, ast.Name) and x.id in al:
            _ALIAS_OF[id(x)] = al[x.id]


MUST_RECALC = set()  # names of group-collection methods every path of which recalculates (computed per run)
HOOKS = {"_recalculate_extents"}  # name of the collection's recalculation hook (found per run: the no-op of the base collection
#                                    that the group's collection overrides)


def _is_recalc(n):
    if not (isinstance(n, ast.Call) and isinstance(n.func, ast.Attribute)):
        return False
    if n.func.attr in HOOKS or n.func.attr == "recalculate_extents":
        return True
    return n.func.attr in MUST_RECALC and dotted(n.func.value) in ("self", "self._shapes", "super()")


def always_recalcs(fnode):
    """True if every path from entry to a normal exit of the function passes a recalculation call."""
    def block(stmts, done):
        for st in stmts:
            done, live = stmt(st, done)
            if not live:
                return done, False
        return done, True

    bad = []

    def has(node):
        return any(_is_recalc(n) for n in ast.walk(node))

    def stmt(st, done):
        if isinstance(st, ast.Return):
            if not (done or has(st)):
                bad.append(st.lineno)
            return done, False
        if isinstance(st, ast.Raise):
            return done, False
        if isinstance(st, ast.If):
            d0 = done or has(st.test)
            a, la = block(st.body, d0)
            b, lb = block(st.orelse, d0)
            outs = [x for x, l in ((a, la), (b, lb)) if l]
            if not outs:
                return d0, False
            return all(outs), True
        if isinstance(st, (ast.For, ast.While)):
            d0 = done or has(st.iter if isinstance(st, ast.For) else st.test)
            block(st.body, d0)
            return d0, True
        if isinstance(st, ast.With):
            return block(st.body, done)
        if isinstance(st, ast.Try):
            a, _ = block(st.body, done)
            return done, True
        if isinstance(st, (ast.FunctionDef, ast.ClassDef)):
            return done, True
        return done or has(st), True

    done, live = block(fnode.body, False)
    if live and not done:
        bad.append(0)
    return not bad


def pending_at_exit(fnode, helpers):
    """True if some path from an insertion reaches the end of the function without a recalculation."""
    leaks = []

    def expr_events(node):
        ev = []
        for n in ast.walk(node):
            if _is_insert(n, helpers):
                ev.append(("ins", n.lineno))
            elif _is_recalc(n):
                ev.append(("rec", n.lineno))
        ev.sort(key=lambda x: x[1])
        return ev

    def apply(node, pend):
        for kind, ln in expr_events(node):
            if kind == "ins":
                pend = ln
            else:
                pend = None
        return pend

    def block(stmts, pend):
        for st in stmts:
            pend, live = stmt(st, pend)
            if not live:
                return pend, False
        return pend, True

    def stmt(st, pend):
        if isinstance(st, ast.Return):
            pend = apply(st, pend)
            if pend is not None:
                leaks.append((pend, st.lineno))
            return pend, False
        if isinstance(st, ast.Raise):
            return pend, False
        if isinstance(st, ast.If):
            p0 = apply(st.test, pend)
            a, la = block(st.body, p0)
            b, lb = block(st.orelse, p0)
            outs = [x for x, l in ((a, la), (b, lb)) if l]
            if not outs:
                return None, False
            res = next((x for x in outs if x is not None), None)
            return res, True
        if isinstance(st, (ast.For, ast.While)):
            p0 = apply(st.iter if isinstance(st, ast.For) else st.test, pend)
            a, _ = block(st.body, p0)
            res = a if a is not None else p0  # body may not execute: keep incoming pending
            if p0 is not None and a is None:
                res = p0
            return res, True
        if isinstance(st, ast.With):
            return block(st.body, pend)
        if isinstance(st, ast.Try):
            a, la = block(st.body, pend)
            return a, True
        if isinstance(st, (ast.FunctionDef, ast.ClassDef)):
            return pend, True
        return apply(st, pend), True

    pend, live = block(fnode.body, None)
    if live and pend is not None:
        leaks.append((pend, getattr(fnode.body[-1], "lineno", 0)))
    return leaks


def run(ctx):
    from checks.c10 import load

    prog, S, M = load(ctx.repo)
    ctx.level = "other"
    ctx.trusted = ["CPython ast", "statement-level must-follow traversal (if/for/while/try/with/return/raise)"]
    ctx.explanation = (
        "A group's extents equal the bounding box of its members only if every operation that adds a member triggers the "
        "recalculation: each public inserting method of the group-capable collections (and FreeformBuilder.convert_to_shape, which "
        "inserts on behalf of a collection) must be post-dominated by a recalculation call. The recalculation's own arithmetic, "
        "connector end-point case analysis and freeform scaling are value-level and not decided.")
    ctx.not_decided = ["connector begin/end arithmetic with flips", "extents arithmetic (min/max over children)",
                       "freeform local-to-shape scaling"]
    st = prog.modules.get("pptx.shapes.shapetree")
    if st is None:
        raise AnalysisError("anchor vanished: pptx.shapes.shapetree")
    ctx.note_file(st.path)
    base = st.classes.get("_BaseGroupShapes")
    if base is None:
        raise AnalysisError("anchor vanished: _BaseGroupShapes")

    # methods of the group collection every path of which recalculates (e.g. a factory override that recalculates first):
    # resolved in the MRO of the concrete class whose hook is not a no-op
    MUST_RECALC.clear()
    INSERT_WRAPPERS.clear()
    try:
        from checks.c10 import load as _load17
        from checks.c10_sites import insertion_wrappers as _iw17

        INSERT_WRAPPERS.update(_iw17(prog, _load17(ctx.repo)[2]))
    except AnalysisError:
        raise
    gs0 = st.classes.get("GroupShapes")
    HOOKS.clear()
    HOOKS.add("_recalculate_extents")
    if gs0 is not None and "_recalculate_extents" not in base.methods:
        # the hook under another name: a private method the base collection defines as a no-op and the group's collection overrides
        def _noop(f_):
            return all(isinstance(x, ast.Pass) or (isinstance(x, ast.Expr) and isinstance(x.value, ast.Constant)) for x in f_.node.body)
        cands = [nm_ for nm_, f_ in base.methods.items() if nm_.startswith("_") and _noop(f_) and nm_ in gs0.methods
                 and len(f_.params) == 1]
        if len(cands) == 1:
            HOOKS.clear()
            HOOKS.add(cands[0])
    hook_name = sorted(HOOKS)[0]
    if gs0 is not None:
        for _ in range(3):
            for c in prog.mro(gs0):
                for name, f in getattr(c, "methods", {}).items():
                    if name in HOOKS or name in MUST_RECALC:
                        continue
                    if prog.lookup(gs0, name) is f and always_recalcs(f.node):
                        MUST_RECALC.add(name)
    ctx.count("must_recalc_methods", len(MUST_RECALC))

    for c_ in prog.all_classes():
        if c_.module.name.startswith(("pptx.shapes.", "pptx.oxml.shapes.")):
            for f_ in c_.methods.values():
                _register_aliases(f_.node)
    # private helpers of the class that insert (one level)
    helpers = set()
    for name, f in base.methods.items():
        if name.startswith("_") and any(_is_insert(n, set()) for n in ast.walk(f.node)):
            helpers.add(name)

    ctx.rule("R17.1", "shape insertion into a group collection is followed by extent recalculation on all paths")
    n = 0
    targets = [(base, f) for name, f in sorted(base.methods.items()) if not name.startswith("_")]
    fb = prog.modules.get("pptx.shapes.freeform")
    if fb is None or "FreeformBuilder" not in fb.classes:
        raise AnalysisError("anchor vanished: FreeformBuilder")
    fbc = fb.classes["FreeformBuilder"]
    fb_helpers = {name for name, f in fbc.methods.items() if name.startswith("_") and any(
        _is_insert(x, set()) for x in ast.walk(f.node))}
    targets.append((fbc, fbc.methods["convert_to_shape"]))
    for cls, f in targets:
        hs = helpers if cls is base else fb_helpers
        if not any(_is_insert(x, hs) for x in ast.walk(f.node)):
            continue
        n += 1
        key = "%s.%s" % (cls.name, f.name)
        leaks = pending_at_exit(f.node, hs)
        if leaks:
            ins, ex = leaks[0]
            ctx.violation("R17.1", key, "a shape is inserted (line %d) and the method can return (line %d) without recalculating "
                          "the group's extents" % (ins, ex), file=f.file, line=ins)
        else:
            ctx.ok("R17.1", key, sample={"method": f.fq, "recalculation": "post-dominates every insertion"})
    ctx.count("inserting_methods", n)

    ctx.rule("R17.2", "recalculation hooks delegate to the element and recurse to the parent group")
    gs = st.classes.get("GroupShapes")
    h = prog.lookup(gs, hook_name) if gs else None     # its own, or the one it inherits (the element does nothing for a p:spTree)
    if h is not None and any(isinstance(x, ast.Call) and isinstance(x.func, ast.Attribute) and x.func.attr == "recalculate_extents"
                             and dotted(x.func.value) in ("self._grpSp", "self._element", "self._spTree") for x in ast.walk(h.node)):
        ctx.ok("R17.2", "GroupShapes._recalculate_extents", sample={"delegates": "self._grpSp.recalculate_extents()"})
    else:
        ctx.violation("R17.2", "GroupShapes._recalculate_extents", "group collection hook does not recalculate the group element",
                      file=st.relpath, line=h.line if h else 1)
    ge = prog.cls("pptx.oxml.shapes.groupshape", "CT_GroupShape")
    r = ge.methods.get("recalculate_extents")
    if r is None:
        raise AnalysisError("anchor vanished: CT_GroupShape.recalculate_extents")
    from sa import paths as P_
    from sa import records as R_
    from sa.inline import expand as _exp17

    ce = prog.lookup(ge, "_child_extents")
    if ce is None:
        raise AnalysisError("anchor vanished: CT_GroupShape._child_extents")
    cex = _exp17(prog, ce, depth=3, local_only=True)
    cval = P_.value_aliases(cex)
    crows = [(fs, n_) for fs, n_ in P_.return_rows_deep(cex.body, P_.aliases(cex)) if n_.value is not None]
    comps = [R_.components(prog, ce.module, n_.value) for _fs, n_ in crows]
    fnames = R_.field_names(prog, ce.module, [n_.value for _fs, n_ in crows])
    if not crows or any(c is None or len(c) != 4 for c in comps):
        ctx.error("CT_GroupShape._child_extents", "the four components (x, y, cx, cy) of the returned value are not recognised")
        comps = []

    # -- what recalculate_extents stores, on every path, by component of _child_extents
    rx = _exp17(prog, r, depth=3, local_only=True)
    rval = P_.value_aliases(rx)
    probs, undecided = [], []

    def comp_index(e):
        """index of the _child_extents component an expression denotes (through single-assignment names), or None"""
        for _ in range(6):
            if isinstance(e, ast.Name) and e.id in rval:
                e = rval[e.id]
            else:
                break
        sel = R_.selector(e, fnames)
        if sel is None:
            return None
        base, k = sel
        for _ in range(6):
            if isinstance(base, ast.Name) and base.id in rval:
                base = rval[base.id]
            else:
                break
        return k if dotted(base) == "self._child_extents" else None

    WANT = {"self.x": 0, "self.y": 1, "self.cx": 2, "self.cy": 3, "self.chOff.x": 0, "self.chOff.y": 1, "self.chExt.cx": 2, "self.chExt.cy": 3}
    n_paths = 0
    for pth in P_.enum_paths(rx.body):
        if not P_.feasible(pth):
            continue
        sts = pth.stmts()
        stored = {}
        for x in sts:
            if isinstance(x, ast.Assign):
                for t in x.targets:
                    d = dotted(t)
                    # the child offset / extent element may be held in a local (`chOff = self.chOff`)
                    if d and d.split(".")[0] in rval and dotted(rval[d.split(".")[0]]):
                        d = dotted(rval[d.split(".")[0]]) + d[len(d.split(".")[0]):]
                    if d in WANT:
                        stored[d] = comp_index(x.value)
        up = [i for i, x in enumerate(sts) if isinstance(x, ast.Expr) and isinstance(x.value, ast.Call)
              and ast.unparse(x.value) == "self.getparent().recalculate_extents()"]
        def not_a_group(a_):
            if a_[0] == "truthy" and isinstance(a_[1], str) and a_[1].startswith("self.") and "." not in a_[1][5:]:
                # a predicate property of the element (`self._is_grpSp`) that returns the tag comparison
                pr_ = prog.lookup(ge, a_[1][5:])
                if pr_ is not None and pr_.kind in ("property", "lazyproperty"):
                    rs_ = [x.value for x in ast.walk(pr_.node) if isinstance(x, ast.Return) and x.value is not None]
                    if len(rs_) == 1 and isinstance(rs_[0], ast.Compare) and len(rs_[0].ops) == 1 and isinstance(rs_[0].ops[0], (ast.Eq, ast.NotEq)) \
                            and {ast.unparse(rs_[0].left), ast.unparse(rs_[0].comparators[0])} == {"self.tag", "qn('p:grpSp')"}:
                        return isinstance(rs_[0].ops[0], ast.Eq) != a_[2]
                return False
            if a_[0] != "cmp" or a_[1] not in ("Eq", "NotEq") or {a_[2], a_[3]} != {"self.tag", "qn('p:grpSp')"}:
                return False
            return (a_[1] == "Eq") != a_[4]
        is_guard = not stored and not up and any(not_a_group(a_) for a_ in P_.facts(pth))
        if is_guard and pth.end in ("return", "fall"):
            continue   # the walk ends above the outermost group (the shape tree itself)
        n_paths += 1
        if pth.end == "raise":
            continue
        miss = sorted(k for k, v in WANT.items() if stored.get(k) != v)
        if miss:
            if any(k in stored and stored[k] is None for k in miss):
                undecided.append("value stored to %s is not traced to a component of _child_extents" % [k for k in miss if k in stored and stored[k] is None])
            else:
                probs.append("position/size and child offset/extent are not all assigned from _child_extents (%s)" % miss)
        if not up:
            tests = [ast.unparse(ev[1])[:60] for ev in pth.events if ev[0] == "cond"]
            probs.append("a path%s ends without the upward recursion self.getparent().recalculate_extents(): ancestors are not refitted"
                         % ((" under `%s`" % tests[-1]) if tests else ""))
    if n_paths == 0:
        undecided.append("no recalculating path found")
    if probs:
        ctx.violation("R17.2", "CT_GroupShape.recalculate_extents", "; ".join(sorted(set(probs))), file=ge.file, line=r.line)
    elif undecided:
        ctx.error("CT_GroupShape.recalculate_extents", "; ".join(sorted(set(undecided))))
    else:
        ctx.ok("R17.2", "CT_GroupShape.recalculate_extents", sample={"assigns": "x,y,cx,cy and chOff/chExt from _child_extents", "recurses": "parent, unconditionally"})

    # -- what _child_extents computes: the bounding box of every member shape
    def canon_agg(e):
        """('min'|'max', element text with the loop variable written v, population text) of PICK(<comprehension over the members>)"""
        if not (isinstance(e, ast.Call) and isinstance(e.func, ast.Name) and e.func.id in ("min", "max") and len(e.args) == 1 and not e.keywords):
            return None
        import copy as _copy

        from sa.desugar import _FuseGen

        c = e.args[0]
        for _ in range(4):
            if isinstance(c, ast.Name) and c.id in cval:
                c = cval[c.id]
        # a population collected first (`boxes = [(m.x, m.y, ...) for m in members if ...]`) and aggregated afterwards reads as one
        # comprehension over the members
        if isinstance(c, (ast.ListComp, ast.GeneratorExp)) and len(c.generators) == 1:
            it_ = c.generators[0].iter
            for _ in range(4):
                if isinstance(it_, ast.Name) and it_.id in cval and isinstance(cval[it_.id], (ast.ListComp, ast.GeneratorExp)):
                    it_ = cval[it_.id]
            if it_ is not c.generators[0].iter:
                c = _copy.deepcopy(c)
                c.generators[0].iter = _copy.deepcopy(it_)
                c = _FuseGen().visit(ast.GeneratorExp(elt=c.elt, generators=c.generators))
        if not (isinstance(c, (ast.ListComp, ast.GeneratorExp)) and len(c.generators) == 1 and isinstance(c.generators[0].target, ast.Name)):
            return None
        v = c.generators[0].target.id
        for cond in c.generators[0].ifs:
            for a_ in P_.atoms(cond, True):
                if a_[0] == "none" and a_[2] is False and a_[1] in {"%s.%s" % (v, f_) for f_ in ("x", "y", "cx", "cy")}:
                    continue   # a member without a box has nothing to contribute
                if a_[0] in ("truthy", "cmp") and any(("%s.%s" % (v, f_)) in repr(a_) for f_ in ("x", "y", "cx", "cy")):
                    filtered.append("members are left out of the bounding box by `%s`: a member with a zero coordinate or extent (a "
                                    "straight connector, an empty group) still belongs to it" % ast.unparse(cond))
                    continue
                return None

        class Rn(ast.NodeTransformer):
            def visit_Name(self, x):
                return ast.Name(id="v", ctx=x.ctx) if x.id == v else x
        elt = ast.unparse(Rn().visit(_copy.deepcopy(c.elt)))
        pop = P_.full(c.generators[0].iter, cval)
        return e.func.id, elt, pop

    filtered = []

    def canon_comp(e):
        e = ast.parse(P_.full(e, {k: v for k, v in cval.items() if not isinstance(v, (ast.ListComp, ast.GeneratorExp))}), mode="eval").body
        if isinstance(e, ast.BinOp) and isinstance(e.op, ast.Sub):
            l, r_ = canon_agg(e.left), canon_agg(e.right)
            return ("sub", l, r_) if l and r_ else None
        a_ = canon_agg(e)
        return ("agg", a_) if a_ else None

    POPS = ("list(self.iter_shape_elms())", "self.iter_shape_elms()", "tuple(self.iter_shape_elms())")

    def expect(i):
        ax, ext = ("x", "cx") if i in (0, 2) else ("y", "cy")
        lo = ("min", ("v.%s" % ax,))
        hi = ("max", ("v.%s + v.%s" % (ax, ext), "v.%s + v.%s" % (ext, ax)))
        return ("agg", lo) if i < 2 else ("sub", hi, lo)

    def matches(got, want):
        def agg_ok(g, w):
            return g is not None and g[0] == w[0] and g[1] in w[1] and g[2] in POPS
        if got is None:
            return None
        if got[0] != want[0]:
            return False
        if got[0] == "agg":
            return agg_ok(got[1], want[1])
        return agg_ok(got[1], want[1]) and agg_ok(got[2], want[2])

    n_box = 0
    for (fs, n_), cs in zip(crows, comps):
        zero = all((isinstance(c, ast.Constant) and c.value == 0) or (isinstance(c, ast.Call) and dotted(c.func) in ("Emu", "Length") and len(c.args) == 1
                   and isinstance(c.args[0], ast.Constant) and c.args[0].value == 0) for c in cs)
        if zero:
            continue   # the value for a group with no members
        n_box += 1
        bad, unk = [], []
        for i, c in enumerate(cs):
            m_ = matches(canon_comp(c), expect(i))
            if m_ is None:
                unk.append("%s = `%s`" % ("x y cx cy".split()[i], ast.unparse(c)[:60]))
            elif not m_:
                bad.append("%s is `%s`" % ("x y cx cy".split()[i], P_.full(c, {k: v for k, v in cval.items() if not isinstance(v, (ast.ListComp, ast.GeneratorExp))})[:90]))
        if filtered:
            ctx.violation("R17.2", "CT_GroupShape._child_extents", sorted(set(filtered))[0], file=ge.file,
                          line=n_.lineno if hasattr(n_, "lineno") else ce.line)
        elif bad:
            ctx.violation("R17.2", "CT_GroupShape._child_extents", "child extents are not the bounding box (min x, min y, max right - min x, max bottom - min y) "
                          "over all member shapes: %s" % "; ".join(bad), file=ge.file, line=n_.lineno if hasattr(n_, "lineno") else ce.line)
        elif unk:
            ctx.error("CT_GroupShape._child_extents", "component not recognised as min/max over the member shapes: %s" % "; ".join(unk))
        else:
            ctx.ok("R17.2", "CT_GroupShape._child_extents", sample={"x": "min v.x", "y": "min v.y", "cx": "max(v.x+v.cx) - min v.x", "cy": "max(v.y+v.cy) - min v.y",
                                                                     "population": "self.iter_shape_elms()"})
    if comps and n_box == 0:
        ctx.error("CT_GroupShape._child_extents", "no return computing the bounding box found")

    # -- R17.3 ---------------------------------------------------------------------------------------------
    ctx.rule("R17.3", "freeform offsets and extents range over every operation that carries a coordinate")
    ops = {c.name: c for c in fb.classes.values() if "apply_operation_to" in c.methods}
    coord = {n_ for n_, c in ops.items() if prog.lookup(c, "x") is not None and prog.lookup(c, "y") is not None}
    if len(coord) < 2:
        ctx.error("pptx.shapes.freeform", "drawing-operation classes with coordinates not recognised (%s)" % sorted(ops))

    def population(f, axis):
        """Set of operation classes whose coordinate reaches the result, and whether the start point does."""
        inc = None
        start = False
        from sa.inline import walk_expanded as _we

        for n_, _owner in _we(prog, f, depth=2):
            if isinstance(n_, ast.Attribute) and n_.attr == "_start_" + axis and dotted(n_.value) == "self":
                start = True
            gens = []
            if isinstance(n_, ast.For) and dotted(n_.iter) == "self":
                v = n_.target.id
                excl, only = set(), None
                for m in ast.walk(n_):
                    if isinstance(m, ast.If) and isinstance(m.test, ast.Call) and dotted(m.test.func) == "isinstance" and dotted(m.test.args[0]) == v \
                            and any(isinstance(x, ast.Continue) for x in m.body):
                        a = m.test.args[1]
                        excl |= {dotted(e) for e in (a.elts if isinstance(a, ast.Tuple) else [a])}
                    elif isinstance(m, ast.If) and m is not n_ and any(isinstance(x, (ast.Continue, ast.Break)) for x in m.body):
                        return None, start
                inc = set(ops) - {c for c in ops if any(k.name in excl for k in prog.mro(ops[c]) if hasattr(k, "name"))}
            if isinstance(n_, (ast.ListComp, ast.GeneratorExp)) and len(n_.generators) == 1 and dotted(n_.generators[0].iter) == "self":
                g = n_.generators[0]
                v = g.target.id
                cur = set(ops)
                for t in g.ifs:
                    neg = isinstance(t, ast.UnaryOp) and isinstance(t.op, ast.Not)
                    c = t.operand if neg else t
                    if isinstance(c, ast.Call) and dotted(c.func) == "isinstance" and dotted(c.args[0]) == v:
                        a = c.args[1]
                        names_ = {dotted(e) for e in (a.elts if isinstance(a, ast.Tuple) else [a])}
                        match = {o for o in ops if any(k.name in names_ for k in prog.mro(ops[o]) if hasattr(k, "name"))}
                        cur = cur - match if neg else cur & match
                    else:
                        return None, start
                inc = cur if inc is None else inc & cur
        return inc, start

    for pname, axis in (("shape_offset_x", "x"), ("shape_offset_y", "y"), ("_dx", "x"), ("_dy", "y")):
        f = fbc.methods.get(pname)
        if f is None:
            raise AnalysisError("anchor vanished: FreeformBuilder.%s" % pname)
        inc, start = population(f, axis)
        key = "FreeformBuilder.%s" % pname
        if inc is None:
            ctx.error(key, "iteration over the drawing operations not recognised")
        elif (inc & coord) == coord and start and not (inc - coord):
            ctx.ok("R17.3", key, sample={"operations": sorted(inc), "start_point": True})
        else:
            ctx.violation("R17.3", key, "%s ranges over %s%s; every operation that writes a coordinate into the path (%s) and the start "
                          "point must be covered, or a vertex falls outside the shape's extents" % (
                              pname, sorted(inc), "" if start else " without the start point", sorted(coord)), file=f.file, line=f.line)

    from checks import c17_conn

    c17_conn.run(ctx, prog)

    # -- R17.4 -------------------------------------------------------------------------------------------
    ctx.rule("R17.4", "local quantities that can be negative are brought to slide units with a symmetric rounding (round()), not with int(x + 0.5)")
    from sa.inline import expand as _exp174

    fbm = prog.modules.get("pptx.shapes.freeform")
    n174 = 0
    for name in ("_left", "_top", "_width", "_height"):
        g = prog.lookup(fbc, name)
        if g is None:
            ctx.error("FreeformBuilder.%s" % name, "not found")
            continue
        gx = _exp174(prog, g, local_only=True)
        n174 += 1
        key = "FreeformBuilder.%s" % name
        rets = [r.value for r in ast.walk(gx) if isinstance(r, ast.Return) and r.value is not None]
        signed = any("shape_offset" in ast.unparse(x) or "min_" in ast.unparse(x) for r in rets for x in ast.walk(r))
        val = {}
        for st in ast.walk(gx):
            if isinstance(st, ast.Assign) and len(st.targets) == 1 and isinstance(st.targets[0], ast.Name):
                val[st.targets[0].id] = st.value
        signed = signed or any("shape_offset" in ast.unparse(v_) for v_ in val.values())
        trunc = None
        for x in [y for r in rets for y in ast.walk(r)] + [y for v_ in val.values() for y in ast.walk(v_)]:
            # int(<e> + 0.5): rounds half up only for e >= 0 (int() truncates toward zero)
            if isinstance(x, ast.Call) and dotted(x.func) == "int" and len(x.args) == 1 and isinstance(x.args[0], ast.BinOp) \
                    and isinstance(x.args[0].op, ast.Add) and any(isinstance(s_, ast.Constant) and s_.value == 0.5 for s_ in (x.args[0].left, x.args[0].right)):
                trunc = ast.unparse(x)[:60]
        if trunc and signed:
            ctx.violation("R17.4", key, "%s is computed as `%s`: int() truncates toward zero, so for a negative product (a freeform whose bounding box "
                          "starts left of / above the local origin) the result is one EMU too high and the shape's position is not the scaled "
                          "bounding box" % (key, trunc), file=g.file, line=g.line)
        else:
            ctx.ok("R17.4", key, sample={"rounding": "int(x + 0.5) on a non-negative extent" if trunc else "round()", "signed_quantity": signed})
    ctx.count("freeform_conversions", n174)
