"""Engine F — abstract interpretation of the simple-type classes (validate / convert_to_xml /
convert_from_xml) over intervals, kinds and lexeme shapes.  Anything not recognised raises
AnalysisError (fail closed)."""

from __future__ import annotations

import ast
import math
from fractions import Fraction

from .pysrc import ClassInfo, Unknown, dotted
from .report import AnalysisError

INF = None  # unbounded marker


class Acc:
    """Accepted value set of a validate()."""

    def __init__(self):
        self.kind = "any"  # any | int | num | bool | str | enum
        self.lo = None
        self.hi = None
        self.lo_open = False
        self.hi_open = False
        self.members = None
        self.extra = set()
        self.raises = []  # (exception name, file, line)
        self.nan_passes = True  # comparisons of the form v < a or v > b let NaN through

    def meet_kind(self, k):
        order = {"any": 0, "num": 1, "int": 2, "bool": 2, "str": 2, "enum": 3}
        if self.kind == "any" or (self.kind == "num" and k == "int") or (self.kind == "str" and k == "enum"):
            self.kind = k
        elif self.kind == k or (self.kind == "int" and k == "num") or (self.kind == "enum" and k == "str"):
            pass
        else:
            raise AnalysisError("conflicting kinds %s / %s" % (self.kind, k))

    def meet_lo(self, v, open_):
        v = Fraction(v)
        if self.lo is None or v > self.lo or (v == self.lo and open_):
            self.lo, self.lo_open = v, open_

    def meet_hi(self, v, open_):
        v = Fraction(v)
        if self.hi is None or v < self.hi or (v == self.hi and open_):
            self.hi, self.hi_open = v, open_

    def describe(self):
        if self.kind in ("int", "num"):
            return "%s %s%s, %s%s" % (self.kind, "(" if self.lo_open else "[", _fs(self.lo, "-inf"),
                                      _fs(self.hi, "+inf"), ")" if self.hi_open else "]")
        if self.kind == "enum":
            return "one of %s" % (list(self.members),)
        return self.kind + ("+" + "+".join(sorted(self.extra)) if self.extra else "")


def _fs(f, inf):
    if f is None:
        return inf
    return str(int(f)) if f.denominator == 1 else str(float(f))


class Ival:
    """Closed/open numeric interval with integrality flag (abstract value of an expression)."""

    def __init__(self, lo, hi, lo_open=False, hi_open=False, integral=False):
        self.lo, self.hi, self.lo_open, self.hi_open, self.integral = lo, hi, lo_open, hi_open, integral

    def copy(self):
        return Ival(self.lo, self.hi, self.lo_open, self.hi_open, self.integral)

    def __repr__(self):
        return "%s%s, %s%s%s" % ("(" if self.lo_open else "[", _fs(self.lo, "-inf"), _fs(self.hi, "+inf"),
                                  ")" if self.hi_open else "]", " int" if self.integral else "")

    def is_empty(self):
        if self.lo is None or self.hi is None:
            return False
        return self.lo > self.hi or (self.lo == self.hi and (self.lo_open or self.hi_open))


def join(a, b):
    if a is None:
        return b
    if b is None:
        return a
    r = Ival(None, None)
    if a.lo is None or b.lo is None:
        r.lo = None
    elif a.lo < b.lo or (a.lo == b.lo and not a.lo_open):
        r.lo, r.lo_open = a.lo, a.lo_open
    else:
        r.lo, r.lo_open = b.lo, b.lo_open
    if a.hi is None or b.hi is None:
        r.hi = None
    elif a.hi > b.hi or (a.hi == b.hi and not a.hi_open):
        r.hi, r.hi_open = a.hi, a.hi_open
    else:
        r.hi, r.hi_open = b.hi, b.hi_open
    r.integral = a.integral and b.integral
    return r


class Image:
    """Written lexical set."""

    def __init__(self, kind, ival=None, tokens=None, note=""):
        self.kind = kind  # int | float-repr | tokens | str-identity | str-upper | unknown
        self.ival = ival
        self.tokens = tokens
        self.note = note
        self.bool_tokens = []  # lexemes written for bool inputs that pass validation ("True"/"False")

    def describe(self):
        if self.kind == "int":
            return "integers %r" % (self.ival,)
        if self.kind == "tokens":
            return "tokens %s" % (sorted(self.tokens),)
        return self.kind + (" " + self.note if self.note else "")


class SimpleTypes:
    def __init__(self, prog):
        self.prog = prog
        self.mod = prog.modules.get("pptx.oxml.simpletypes")
        if self.mod is None:
            raise AnalysisError("anchor vanished: pptx.oxml.simpletypes")
        self._acc = {}

    def classes(self):
        return [c for c in self.mod.classes.values() if any(k.name == "BaseSimpleType" for k in self.prog.mro(c))]

    # -- validate --------------------------------------------------------------------------------
    def accepted(self, cls):
        if cls in self._acc:
            return self._acc[cls]
        acc = Acc()
        f = self.prog.lookup(cls, "validate")
        if f is None:
            raise AnalysisError("%s has no validate()" % cls.name)
        self._run_validate(f, cls, acc, {f.params[1]: "VALUE"} if len(f.params) > 1 else {}, 0)
        self._acc[cls] = acc
        return acc

    def _const(self, e, f, cls, env):
        if isinstance(e, ast.Name) and e.id in env and env[e.id] != "VALUE":
            return env[e.id]
        v = self.prog.const(e, f.module, None, cls)
        if isinstance(v, Unknown) and isinstance(e, ast.Attribute) and dotted(e.value) == "cls":
            a = self.prog.lookup_attr(cls, e.attr)
            if a:
                v = self.prog.const(a[1], a[0].module, None, a[0])
        return v

    API = ("convert_to_xml", "convert_from_xml", "validate", "to_xml", "from_xml", "validate_int", "validate_int_in_range",
           "validate_string", "validate_float_in_range", "validate_float")

    def _canon_body(self, f):
        """statements of f in canonical form: helpers of the module inlined (the simple-type API itself stays as calls, the engine
        follows those by delegation)"""
        if not hasattr(self, "_canon_cache"):
            self._canon_cache = {}
        if f not in self._canon_cache:
            from .inline import expand

            try:
                skip = set(self.API)
                for c in self.prog.modules["pptx.oxml.simpletypes"].classes.values():
                    skip |= {n for n in c.methods if n.startswith(("convert_", "validate", "to_xml", "from_xml"))}
                node = expand(self.prog, f, depth=3, local_only=True, skip_names=tuple(sorted(skip)))
            except Exception:  # noqa: BLE001
                node = f.node
            self._canon_cache[f] = node
        return list(self._canon_cache[f].body)

    def _is_value(self, e, env):
        return isinstance(e, ast.Name) and env.get(e.id) == "VALUE"

    def _specialise(self, body, f, cls):
        """The statements of a classmethod partially evaluated for the class it runs on: locals bound to class constants
        (`lo, hi = cls._bounds`) are folded into their uses, `if <constant>` keeps the arm taken, `*cls._range` arguments are
        spread.  Table-driven validators then read like the hand-written ones."""
        import copy

        from .pysrc import Unknown

        env = {}

        def fold(e):
            v = self.prog.const(e, f.module, dict(env), cls)
            return v

        def lit(v):
            if isinstance(v, tuple):
                return ast.Tuple(elts=[lit(x) for x in v], ctx=ast.Load())
            return ast.Constant(value=v)

        def plain(v):
            return v is None or isinstance(v, (int, float, str, bool)) or (isinstance(v, tuple) and all(plain(x) for x in v))

        class Sub(ast.NodeTransformer):
            def visit_Name(self_, n):
                if isinstance(n.ctx, ast.Load) and n.id in env and plain(env[n.id]):
                    return ast.copy_location(lit(env[n.id]), n)
                return n

            def visit_Attribute(self_, n):
                if dotted(n) and dotted(n).split(".")[0] in ("cls", "self") and dotted(n).count(".") == 1:
                    v = fold(n)
                    if not isinstance(v, Unknown) and plain(v):
                        return ast.copy_location(lit(v), n)
                return self_.generic_visit(n)

            def visit_Call(self_, n):
                self_.generic_visit(n)
                args = []
                for a in n.args:
                    if isinstance(a, ast.Starred) and isinstance(a.value, ast.Tuple):
                        args.extend(a.value.elts)
                    else:
                        args.append(a)
                n.args = args
                return n

        def block(stmts):
            out = []
            for st in stmts:
                st = copy.deepcopy(st)
                if isinstance(st, ast.Assign) and len(st.targets) == 1 and not any(isinstance(x, ast.Call) for x in ast.walk(st.value)):
                    v = fold(st.value)
                    t = st.targets[0]
                    if not isinstance(v, Unknown) and plain(v):
                        if isinstance(t, ast.Name):
                            env[t.id] = v
                            continue
                        if isinstance(t, ast.Tuple) and isinstance(v, tuple) and len(v) == len(t.elts) and all(isinstance(e_, ast.Name) for e_ in t.elts):
                            for e_, x in zip(t.elts, v):
                                env[e_.id] = x
                            continue
                if isinstance(st, ast.If):
                    # only tests over class constants and folded locals are decided here (no calls, no run-time names)
                    closed = not any(isinstance(x, ast.Call) for x in ast.walk(st.test)) and all(
                        x.id in env or x.id in ("cls", "self", "True", "False", "None") for x in ast.walk(st.test) if isinstance(x, ast.Name))
                    tv = fold(st.test) if closed else Unknown("open test")
                    if not isinstance(tv, Unknown) and plain(tv):
                        out.extend(block(st.body if tv else st.orelse))
                        continue
                    st.test = Sub().visit(st.test)
                    st.body, st.orelse = block(st.body) or [ast.Pass()], block(st.orelse)
                    out.append(st)
                    continue
                out.append(Sub().visit(st))
                if isinstance(st, ast.Return):
                    break
            return out

        return block(body)

    def _run_validate(self, f, cls, acc, env, depth):
        if depth > 10:
            raise AnalysisError("validate recursion too deep in %s" % cls.name)
        body = self._specialise(self._canon_body(f), f, cls)
        if body and isinstance(body[0], ast.Expr) and isinstance(body[0].value, ast.Constant):
            body = body[1:]
        self._validate_block(body, f, cls, acc, env, depth)

    def _validate_block(self, body, f, cls, acc, env, depth):
        for i, st in enumerate(body):
            if isinstance(st, ast.Pass):
                continue
            if isinstance(st, ast.Expr) and isinstance(st.value, ast.Constant):
                continue
            if isinstance(st, ast.Expr) and isinstance(st.value, ast.Call):
                self._validate_call(st.value, f, cls, acc, env, depth)
                continue
            if isinstance(st, ast.Assign) and isinstance(st.value, ast.Call) and len(st.targets) == 1 \
                    and isinstance(st.targets[0], ast.Name):
                # str_value = cls.validate_string(value)
                self._validate_call(st.value, f, cls, acc, env, depth)
                env[st.targets[0].id] = "VALUE"
                continue
            if isinstance(st, ast.If):
                if self._positive_isinstance_return(st, env):
                    # if isinstance(value, T): return value ... raise TypeError at the end
                    k = self._kind_of_types(st.test.args[1], f)
                    rest = body[i + 1:]
                    raises = [n for s in rest for n in ast.walk(s) if isinstance(n, ast.Raise)]
                    if not raises:
                        raise AnalysisError("%s:%d isinstance-return without final raise" % (f.file, st.lineno))
                    for r in raises:
                        acc.raises.append((_exc(r), f.file, r.lineno))
                    acc.meet_kind(k)
                    return
                if not all(isinstance(s, ast.Raise) for s in st.body) or st.orelse:
                    raise AnalysisError("%s:%d unrecognised conditional in validate" % (f.file, st.lineno))
                for r in st.body:
                    acc.raises.append((_exc(r), f.file, r.lineno))
                self._refine(st.test, f, cls, acc, env)
                continue
            if isinstance(st, ast.Try):
                # try: int(str_value, 16) except ValueError: raise ValueError
                ok = False
                for n in ast.walk(st):
                    if isinstance(n, ast.Call) and dotted(n.func) == "int" and len(n.args) == 2 \
                            and isinstance(n.args[1], ast.Constant) and n.args[1].value == 16:
                        ok = True
                if not ok:
                    raise AnalysisError("%s:%d unrecognised try in validate" % (f.file, st.lineno))
                acc.extra.add("hex")
                for n in ast.walk(st):
                    if isinstance(n, ast.Raise):
                        acc.raises.append((_exc(n), f.file, n.lineno))
                continue
            if isinstance(st, ast.Return):
                continue
            if isinstance(st, ast.Raise):
                acc.raises.append((_exc(st), f.file, st.lineno))
                continue
            raise AnalysisError("%s:%d unrecognised statement in validate: %s" % (f.file, st.lineno, type(st).__name__))

    def _positive_isinstance_return(self, st, env):
        t = st.test
        return (isinstance(t, ast.Call) and dotted(t.func) == "isinstance" and len(t.args) == 2
                and self._is_value(t.args[0], env) and any(isinstance(s, ast.Return) for s in st.body))

    def _kind_of_types(self, e, f):
        names = [dotted(x) for x in (e.elts if isinstance(e, ast.Tuple) else [e])]
        if set(names) <= {"int", "float"} and "float" in names:
            return "num"
        if names in (["numbers.Integral"], ["int"]):
            return "int"
        if names in (["str"], ["basestring"]):
            return "str"
        raise AnalysisError("%s:%d isinstance against %s not understood" % (f.file, e.lineno, names))

    def _validate_call(self, call, f, cls, acc, env, depth):
        fn = call.func
        if not isinstance(fn, ast.Attribute):
            raise AnalysisError("%s:%d unrecognised call in validate" % (f.file, call.lineno))
        target = None
        recv = fn.value
        if isinstance(recv, ast.Name) and recv.id == "cls":
            target = self.prog.lookup(cls, fn.attr)
        elif isinstance(recv, ast.Call) and dotted(recv.func) == "super":
            target = self.prog.lookup(cls, fn.attr, after=f.cls)
        else:
            r = self.prog.resolve(f.module, dotted(recv) or "")
            if isinstance(r, ClassInfo):
                target = self.prog.lookup(r, fn.attr)
                if target is not None:
                    # explicit sibling call: evaluated with that class as cls
                    return self._invoke(target, r, call, f, cls, acc, env, depth)
        if target is None:
            raise AnalysisError("%s:%d cannot resolve %s in validate" % (f.file, call.lineno, ast.unparse(fn)))
        return self._invoke(target, cls, call, f, cls, acc, env, depth)

    def _invoke(self, target, tcls, call, f, cls, acc, env, depth):
        params = target.params[1:] if target.kind == "classmethod" else target.params
        new_env = {}
        bound = list(zip(params, call.args)) + [(k.arg, k.value) for k in call.keywords if k.arg]   # positional and by keyword
        for p, a in bound:
            if self._is_value(a, env):
                new_env[p] = "VALUE"
            else:
                v = self._const(a, f, cls, env)
                if isinstance(v, Unknown):
                    raise AnalysisError("%s:%d argument %s does not fold" % (f.file, call.lineno, ast.unparse(a)))
                new_env[p] = v
        self._run_validate(target, tcls, acc, new_env, depth + 1)

    def _refine(self, test, f, cls, acc, env):
        """`test` true => raise; the accepted set is refined by its negation."""
        if isinstance(test, ast.BoolOp) and isinstance(test.op, ast.Or):
            for v in test.values:
                self._refine(v, f, cls, acc, env)
            return
        if isinstance(test, ast.UnaryOp) and isinstance(test.op, ast.Not) and isinstance(test.operand, ast.Call) \
                and dotted(test.operand.func) == "isinstance" and self._is_value(test.operand.args[0], env):
            acc.meet_kind(self._kind_of_types(test.operand.args[1], f))
            return
        if isinstance(test, ast.UnaryOp) and isinstance(test.op, ast.Not) and isinstance(test.operand, ast.Compare) \
                and len(test.operand.ops) == 2 and self._is_value(test.operand.comparators[0], env):
            # raise if not (a <[=] value <[=] b)
            c = test.operand
            lo = self._const(c.left, f, cls, env)
            hi = self._const(c.comparators[1], f, cls, env)
            if isinstance(lo, (int, float)) and isinstance(hi, (int, float)) and all(
                    isinstance(o, (ast.Lt, ast.LtE)) for o in c.ops):
                acc.meet_lo(_frac(c.left, lo), isinstance(c.ops[0], ast.Lt))
                acc.meet_hi(_frac(c.comparators[1], hi), isinstance(c.ops[1], ast.Lt))
                if acc.kind == "any":
                    acc.kind = "num"
                return
        if isinstance(test, ast.Compare) and len(test.ops) == 1 and self._is_value(test.comparators[0], env) \
                and not self._is_value(test.left, env) and isinstance(test.ops[0], (ast.Lt, ast.LtE, ast.Gt, ast.GtE)):
            # constant on the left: c < value  ==  value > c
            flip = {ast.Lt: ast.Gt, ast.LtE: ast.GtE, ast.Gt: ast.Lt, ast.GtE: ast.LtE}[type(test.ops[0])]
            test = ast.Compare(left=test.comparators[0], ops=[flip()], comparators=[test.left])
            ast.copy_location(test, test.left)
            test.lineno = getattr(test.comparators[0], "lineno", 0)
        if isinstance(test, ast.Compare) and len(test.ops) == 1:
            l, op, r = test.left, test.ops[0], test.comparators[0]
            if self._is_value(l, env):
                if isinstance(op, (ast.Lt, ast.LtE, ast.Gt, ast.GtE)):
                    c = self._const(r, f, cls, env)
                    if isinstance(c, Unknown) or not isinstance(c, (int, float)):
                        raise AnalysisError("%s:%d bound does not fold" % (f.file, test.lineno))
                    c = _frac(r, c)
                    if isinstance(op, ast.Lt):       # raise if v < c  => v >= c
                        acc.meet_lo(c, False)
                    elif isinstance(op, ast.LtE):    # raise if v <= c => v > c
                        acc.meet_lo(c, True)
                    elif isinstance(op, ast.Gt):
                        acc.meet_hi(c, False)
                    else:
                        acc.meet_hi(c, True)
                    if acc.kind == "any":
                        acc.kind = "num"
                    return
                if isinstance(op, ast.NotIn):
                    c = self._const(r, f, cls, env)
                    if isinstance(c, Unknown) or not isinstance(c, (tuple, list, frozenset)):
                        raise AnalysisError("%s:%d membership set does not fold" % (f.file, test.lineno))
                    vals = tuple(c)
                    if set(vals) == {True, False}:
                        acc.meet_kind("bool")
                    else:
                        acc.meet_kind("enum") if acc.kind in ("str", "any", "enum") else None
                        acc.kind = "enum"
                        acc.members = vals
                    return
            if isinstance(l, ast.Call) and dotted(l.func) == "len" and self._is_value(l.args[0], env) \
                    and isinstance(op, ast.NotEq):
                c = self._const(r, f, cls, env)
                acc.extra.add("len%s" % c)
                return
        raise AnalysisError("%s:%d unrecognised guard in validate: %s" % (f.file, test.lineno, ast.unparse(test)))

    # -- convert_to_xml ----------------------------------------------------------------------------
    def image(self, cls):
        """Image of accepted(cls) under convert_to_xml, as an Image."""
        acc = self.accepted(cls)
        f = self.prog.lookup(cls, "convert_to_xml")
        if f is None:
            raise AnalysisError("%s has no convert_to_xml()" % cls.name)
        return self._to_xml(f, cls, acc, 0)

    def _start_ival(self, acc):
        if acc.kind not in ("int", "num"):
            return None
        if acc.kind == "int":
            # integers: normalise open bounds to the nearest attained integer
            lo, hi = acc.lo, acc.hi
            if lo is not None:
                lo = Fraction(math.floor(lo) + 1) if (acc.lo_open and lo.denominator == 1) else Fraction(math.ceil(lo))
            if hi is not None:
                hi = Fraction(math.ceil(hi) - 1) if (acc.hi_open and hi.denominator == 1) else Fraction(math.floor(hi))
            return Ival(lo, hi, False, False, integral=True)
        return Ival(acc.lo, acc.hi, acc.lo_open, acc.hi_open, integral=False)

    def _to_xml(self, f, cls, acc, depth):
        if depth > 6:
            raise AnalysisError("convert_to_xml recursion in %s" % cls.name)
        pname = f.params[1] if len(f.params) > 1 else None
        env = {pname: ("val", self._start_ival(acc), acc)}
        body = [s for s in self._canon_body(f) if not (isinstance(s, ast.Expr) and isinstance(s.value, ast.Constant))]
        out = self._to_xml_block(body, f, cls, env, depth)
        if out is None:
            raise AnalysisError("%s.convert_to_xml: no return recognised" % cls.name)
        return out

    def _to_xml_block(self, body, f, cls, env, depth):
        for st in body:
            if isinstance(st, ast.Return):
                return self._lex(st.value, f, cls, env, depth)
            if isinstance(st, ast.Assign) and len(st.targets) == 1 and isinstance(st.targets[0], ast.Name):
                env[st.targets[0].id] = self._num(st.value, f, cls, env, depth)
                continue
            if isinstance(st, ast.AugAssign) and isinstance(st.target, ast.Name):
                cur = env.get(st.target.id)
                env[st.target.id] = self._binop(cur, st.op, self._num(st.value, f, cls, env, depth), f, st)
                continue
            if isinstance(st, ast.If):
                self._if_split(st, f, cls, env, depth)
                continue
            if isinstance(st, ast.Expr) and isinstance(st.value, ast.Constant):
                continue
            raise AnalysisError("%s:%d unrecognised statement in convert_to_xml" % (f.file, st.lineno))
        return None

    def _if_split(self, st, f, cls, env, depth):
        """if v < c: A  elif v > c: B  (no else)  — split the interval of one variable."""
        branches = []
        cur = st
        while True:
            branches.append((cur.test, cur.body))
            if len(cur.orelse) == 1 and isinstance(cur.orelse[0], ast.If):
                cur = cur.orelse[0]
                continue
            else_body = cur.orelse
            break
        var = None
        for t, _ in branches:
            if not (isinstance(t, ast.Compare) and len(t.ops) == 1 and isinstance(t.left, ast.Name)
                    and isinstance(t.ops[0], (ast.Lt, ast.Gt, ast.LtE, ast.GtE))):
                raise AnalysisError("%s:%d unrecognised condition in convert_to_xml" % (f.file, st.lineno))
            var = t.left.id
        base = env.get(var)
        if not (isinstance(base, tuple) and base[0] == "val" and base[1] is not None):
            raise AnalysisError("%s:%d condition on non-numeric value" % (f.file, st.lineno))
        remaining = base[1].copy()
        result = None
        for t, body in branches:
            c = self.prog.const(t.comparators[0], f.module)
            if isinstance(c, Unknown):
                raise AnalysisError("%s:%d bound does not fold" % (f.file, st.lineno))
            c = Fraction(c)
            part, rest = _split(remaining, t.ops[0], c)
            remaining = rest
            if part is not None and not part.is_empty():
                e2 = dict(env)
                e2[var] = ("val", part, base[2])
                r = self._to_xml_block(body, f, cls, e2, depth)
                if r is not None:
                    raise AnalysisError("%s:%d return inside conditional not modelled" % (f.file, st.lineno))
                result = join(result, e2[var][1])
        if remaining is not None and not remaining.is_empty():
            e2 = dict(env)
            e2[var] = ("val", remaining, base[2])
            if else_body:
                self._to_xml_block(else_body, f, cls, e2, depth)
            result = join(result, e2[var][1])
        env[var] = ("val", result, base[2])

    def _num(self, e, f, cls, env, depth):
        """Numeric abstract value ("val", Ival, acc) | ("const", c) | ("str", ...)."""
        if isinstance(e, ast.Name):
            if e.id in env:
                return env[e.id]
            c = self.prog.const(e, f.module, None, cls)
            if not isinstance(c, Unknown):
                return ("const", c)
            raise AnalysisError("%s:%d unknown name %s" % (f.file, e.lineno, e.id))
        if isinstance(e, ast.Constant):
            return ("const", e.value, e)
        if isinstance(e, ast.UnaryOp) and isinstance(e.op, ast.USub):
            v = self._num(e.operand, f, cls, env, depth)
            if v[0] == "const":
                return ("const", -v[1])
        if isinstance(e, ast.Attribute):
            if dotted(e.value) == "cls":
                a = self.prog.lookup_attr(cls, e.attr)
                if a:
                    c = self.prog.const(a[1], a[0].module, None, a[0])
                    if not isinstance(c, Unknown):
                        return ("const", c)
            base = self._num(e.value, f, cls, env, depth)
            if base[0] == "val" and e.attr == "centipoints":
                # Length.centipoints = self // 127  (verified against util.py)
                self._check_centipoints()
                return ("val", _floordiv(base[1], 127), base[2])
            raise AnalysisError("%s:%d attribute %s not understood" % (f.file, e.lineno, ast.unparse(e)))
        if isinstance(e, ast.BinOp):
            return self._binop(self._num(e.left, f, cls, env, depth), e.op, self._num(e.right, f, cls, env, depth), f, e)
        if isinstance(e, ast.Call):
            fn = dotted(e.func)
            if fn in ("round",) and len(e.args) == 1:
                v = self._num(e.args[0], f, cls, env, depth)
                return ("val", _round(v[1]), v[2]) if v[0] == "val" else v
            if fn == "int" and len(e.args) == 1:
                v = self._num(e.args[0], f, cls, env, depth)
                if v[0] == "val":
                    return ("val", v[1] if v[1].integral else _trunc(v[1]), v[2])
                return v
            if fn == "float" and len(e.args) == 1:
                v = self._num(e.args[0], f, cls, env, depth)
                if v[0] == "val":
                    iv = v[1].copy()
                    iv.integral = False
                    return ("float", iv, v[2])
                return v
            if fn in ("Emu", "Length") and len(e.args) == 1:
                v = self._num(e.args[0], f, cls, env, depth)
                if v[0] == "val":
                    return ("val", v[1] if v[1].integral else _trunc(v[1]), v[2])
                return v
            if fn == "str" and len(e.args) == 1:
                return ("str", self._num(e.args[0], f, cls, env, depth))
        raise AnalysisError("%s:%d expression not understood in convert_to_xml: %s" % (
            f.file, getattr(e, "lineno", 0), ast.unparse(e)))

    _centi_checked = None

    def _check_centipoints(self):
        if self._centi_checked is None:
            u = self.prog.modules.get("pptx.util")
            ok = False
            if u and "Length" in u.classes and "centipoints" in u.classes["Length"].methods:
                fn = u.classes["Length"].methods["centipoints"]
                for n in ast.walk(fn.node):
                    if isinstance(n, ast.Return) and isinstance(n.value, ast.BinOp) and isinstance(n.value.op, ast.FloorDiv):
                        c = self.prog.const(n.value.right, u, None, u.classes["Length"])
                        if c == 127 and dotted(n.value.left) == "self":
                            ok = True
            self._centi_checked = ok
        if not self._centi_checked:
            raise AnalysisError("util.Length.centipoints is no longer `self // 127`")

    def _binop(self, a, op, b, f, node):
        if a is None or b is None:
            raise AnalysisError("%s:%d operand unknown" % (f.file, node.lineno))
        if a[0] == "const" and b[0] == "const":
            try:
                v = {ast.Mult: lambda x, y: x * y, ast.Add: lambda x, y: x + y, ast.Sub: lambda x, y: x - y,
                     ast.Div: lambda x, y: x / y, ast.Mod: lambda x, y: x % y}[type(op)](a[1], b[1])
                return ("const", v)
            except Exception:  # noqa: BLE001
                raise AnalysisError("%s:%d constant arithmetic" % (f.file, node.lineno))
        if a[0] in ("val", "float") and b[0] == "const":
            c = Fraction(str(b[1])) if isinstance(b[1], float) else Fraction(b[1])
            iv = a[1]
            if isinstance(op, ast.Mult):
                return (a[0], _scale(iv, c, isinstance(b[1], float)), a[2])
            if isinstance(op, ast.Add):
                return (a[0], _shift(iv, c, isinstance(b[1], float)), a[2])
            if isinstance(op, ast.Sub):
                return (a[0], _shift(iv, -c, isinstance(b[1], float)), a[2])
            if isinstance(op, ast.Mod):
                return (a[0], _mod(iv, c), a[2])
            if isinstance(op, ast.Div):
                return (a[0], _scale(iv, 1 / c, True), a[2])
            if isinstance(op, ast.FloorDiv):
                return (a[0], _floordiv(iv, c), a[2])
        raise AnalysisError("%s:%d arithmetic not understood: %s" % (f.file, node.lineno, ast.unparse(node)))

    def _lex(self, e, f, cls, env, depth):
        """Lexical image of a returned expression."""
        pname = f.params[1] if len(f.params) > 1 else None
        acc = env[pname][2] if pname in env else None
        if isinstance(e, ast.Call):
            fn = dotted(e.func)
            if fn == "str" and len(e.args) == 1:
                v = self._num(e.args[0], f, cls, env, depth)
                if v[0] == "float":
                    return Image("float-repr", v[1], note="str(float(v))")
                if v[0] == "val":
                    if v[1].integral:
                        img = Image("int", v[1])
                        # str() applied to the caller's value itself: a bool is an Integral, passes an isinstance-based validate and
                        # is written as "True"/"False" (str(True)), not as a number
                        if isinstance(e.args[0], ast.Name) and e.args[0].id == pname and acc is not None and acc.kind == "int" \
                                and getattr(acc, "admits_bool", True):
                            iv = v[1]
                            img.bool_tokens = sorted(t for t, n in (("False", 0), ("True", 1))
                                                     if (iv.lo is None or iv.lo <= n) and (iv.hi is None or n <= iv.hi))
                        return img
                    return Image("float-repr", v[1], note="str() of a possibly non-integral number")
                if v[0] == "const":
                    return Image("tokens", tokens={str(v[1])})
            if isinstance(e.func, ast.Attribute) and e.func.attr == "upper" and isinstance(e.func.value, ast.Name) \
                    and e.func.value.id == pname:
                return Image("str-upper")
            if isinstance(e.func, ast.Attribute) and e.func.attr == "convert_to_xml":
                r = self.prog.resolve(f.module, dotted(e.func.value) or "")
                target_cls = r if isinstance(r, ClassInfo) else None
                if dotted(e.func.value) == "cls":
                    target_cls = cls
                if isinstance(e.func.value, ast.Call) and dotted(e.func.value.func) == "super":
                    t = self.prog.lookup(cls, "convert_to_xml", after=f.cls)
                    return self._to_xml_with(t, cls, env[pname], depth + 1)
                if target_cls is not None:
                    t = self.prog.lookup(target_cls, "convert_to_xml")
                    return self._to_xml_with(t, target_cls, env[pname], depth + 1)
        if isinstance(e, ast.Name):
            if e.id == pname:
                if acc is not None and acc.kind == "enum":
                    return Image("tokens", tokens=set(acc.members))
                return Image("str-identity")
            v = env.get(e.id)
            if isinstance(v, tuple) and v[0] == "str":
                inner = v[1]
                if inner[0] == "val" and inner[1].integral:
                    return Image("int", inner[1])
                if inner[0] in ("val", "float"):
                    return Image("float-repr", inner[1])
            if isinstance(v, Image):
                return v
        if isinstance(e, ast.Subscript) and isinstance(e.value, ast.Dict):
            keys = [self.prog.const(k, f.module) for k in e.value.keys]
            vals = [self.prog.const(v, f.module) for v in e.value.values]
            if set(keys) == {True, False} and all(isinstance(v, str) for v in vals):
                return Image("tokens", tokens=set(vals))
        raise AnalysisError("%s:%d returned expression not understood in convert_to_xml: %s" % (
            f.file, getattr(e, "lineno", 0), ast.unparse(e)))

    def _to_xml_with(self, t, tcls, val, depth):
        if t is None:
            raise AnalysisError("delegated convert_to_xml not found")
        pname = t.params[1]
        env = {pname: val}
        body = [s for s in self._canon_body(t) if not (isinstance(s, ast.Expr) and isinstance(s.value, ast.Constant))]
        out = self._to_xml_block(body, t, tcls, env, depth)
        if out is None:
            raise AnalysisError("%s.convert_to_xml: no return recognised" % tcls.name)
        return out

    # -- convert_from_xml over lexeme shapes -------------------------------------------------------
    def reads(self, cls, shape):
        """Abstractly run convert_from_xml on a lexeme *shape*; returns ("ok", descr) or
        ("raises", exception name)."""
        f = self.prog.lookup(cls, "convert_from_xml")
        if f is None:
            raise AnalysisError("%s has no convert_from_xml()" % cls.name)
        return self._from_xml(f, cls, shape, 0)

    def _from_xml(self, f, cls, shape, depth):
        if depth > 6:
            raise AnalysisError("convert_from_xml recursion")
        pname = f.params[1]
        env = {pname: ("lex", shape)}
        body = [s for s in self._canon_body(f) if not (isinstance(s, ast.Expr) and isinstance(s.value, ast.Constant))]
        return self._from_block(body, f, cls, env, depth)

    def _from_block(self, body, f, cls, env, depth):
        for st in body:
            if isinstance(st, ast.If):
                t = self._lex_cond(st.test, f, cls, env)
                branch = st.body if t else st.orelse
                r = self._from_block(branch, f, cls, env, depth)
                if r is not None:
                    return r
                continue
            if isinstance(st, ast.Return):
                return self._lex_eval(st.value, f, cls, env, depth)
            if isinstance(st, ast.Raise):
                return ("raises", _exc(st))
            if isinstance(st, ast.Assign):
                v = self._lex_eval(st.value, f, cls, env, depth)
                if v[0] == "raises":
                    return v
                for t in st.targets:
                    if isinstance(t, ast.Name):
                        env[t.id] = v[1]
                    elif isinstance(t, ast.Tuple) and v[1][0] == "tuple":
                        for e, x in zip(t.elts, v[1][1]):
                            env[e.id] = x
                continue
            if isinstance(st, ast.Expr) and isinstance(st.value, ast.Constant):
                continue
            raise AnalysisError("%s:%d unrecognised statement in convert_from_xml" % (f.file, st.lineno))
        return None

    def _lex_cond(self, t, f, cls, env):
        if isinstance(t, ast.UnaryOp) and isinstance(t.op, ast.Not):
            return not self._lex_cond(t.operand, f, cls, env)
        if isinstance(t, ast.Call) and isinstance(t.func, ast.Name) and t.func.id in ("any", "all") and len(t.args) == 1 \
                and isinstance(t.args[0], (ast.GeneratorExp, ast.ListComp)) and len(t.args[0].generators) == 1 \
                and isinstance(t.args[0].generators[0].target, ast.Name) and not t.args[0].generators[0].ifs:
            g = t.args[0].generators[0]
            items = self.prog.const(g.iter, f.module, None, cls)
            if isinstance(items, (str, tuple, list)):
                import copy

                res = []
                for it in items:
                    class Sub(ast.NodeTransformer):
                        def visit_Name(self_, n):
                            return ast.copy_location(ast.Constant(value=it), n) if n.id == g.target.id else n
                    res.append(self._lex_cond(Sub().visit(copy.deepcopy(t.args[0].elt)), f, cls, env))
                return any(res) if t.func.id == "any" else all(res)
        if isinstance(t, ast.BoolOp):
            vals = [self._lex_cond(v, f, cls, env) for v in t.values]
            return any(vals) if isinstance(t.op, ast.Or) else all(vals)
        if isinstance(t, ast.Compare) and len(t.ops) == 1:
            l, op, r = t.left, t.ops[0], t.comparators[0]
            if isinstance(op, (ast.In, ast.NotIn)):
                rv = env.get(r.id) if isinstance(r, ast.Name) else None
                if isinstance(l, ast.Constant) and isinstance(rv, tuple) and rv[0] == "lex":
                    res = l.value in rv[1].text
                    return res if isinstance(op, ast.In) else not res
                lv = env.get(l.id) if isinstance(l, ast.Name) else None
                if isinstance(lv, tuple) and lv[0] == "lex":
                    c = self.prog.const(r, f.module, None, cls)
                    if isinstance(c, (tuple, list)):
                        res = lv[1].text in c
                        return res if isinstance(op, ast.In) else not res
        if isinstance(t, ast.Call) and isinstance(t.func, ast.Attribute) and t.func.attr in ("endswith", "startswith") \
                and isinstance(t.func.value, ast.Name):
            v = env.get(t.func.value.id)
            if isinstance(v, tuple) and v[0] == "lex" and isinstance(t.args[0], ast.Constant):
                return getattr(v[1].text, t.func.attr)(t.args[0].value)
        # a regular-expression test of the lexical value: `P.match(s)`, `re.match(p, s)` (also fullmatch / search), on its own or
        # compared with None; P a module- or class-level `re.compile(<constant>)`
        if isinstance(t, ast.Compare) and len(t.ops) == 1 and isinstance(t.ops[0], (ast.Is, ast.IsNot)) \
                and isinstance(t.comparators[0], ast.Constant) and t.comparators[0].value is None and isinstance(t.left, ast.Call):
            m = self._lex_regex(t.left, f, cls, env)
            if m is not None:
                return (not m[0]) if isinstance(t.ops[0], ast.Is) else m[0]
        if isinstance(t, ast.Call):
            m = self._lex_regex(t, f, cls, env)
            if m is not None:
                return m[0]
        raise AnalysisError("%s:%d condition not understood in convert_from_xml: %s" % (f.file, t.lineno, ast.unparse(t)))

    def _lex_regex(self, c, f, cls, env):
        """(matched?,) for a regex test call on a lexical sample, None when `c` is not one"""
        import re as _re

        if not (isinstance(c.func, ast.Attribute) and c.func.attr in ("match", "fullmatch", "search")):
            return None
        recv = c.func.value
        if isinstance(recv, ast.Name) and recv.id == "re" and len(c.args) >= 2:
            pat, subj = self.prog.const(c.args[0], f.module, None, cls), c.args[1]
        elif len(c.args) >= 1:
            node = None
            if isinstance(recv, ast.Name):
                node = f.module.assigns.get(recv.id)
            elif isinstance(recv, ast.Attribute):
                owner = None
                if isinstance(recv.value, ast.Name) and recv.value.id in ("self", "cls"):
                    owner = cls
                elif isinstance(recv.value, ast.Name):
                    r_ = self.prog.resolve(f.module, recv.value.id)
                    owner = r_ if hasattr(r_, "methods") else None
                a = self.prog.lookup_attr(owner, recv.attr) if owner is not None else None
                node = a[1] if a else None
                if a:
                    cls = a[0]
            pat = None
            if isinstance(node, ast.Call) and dotted(node.func) == "re.compile" and node.args:
                pat = self.prog.const(node.args[0], cls.module if hasattr(cls, "module") else f.module, None, cls)
            subj = c.args[0]
        else:
            return None
        sv = env.get(subj.id) if isinstance(subj, ast.Name) else None
        if not isinstance(pat, str) or not (isinstance(sv, tuple) and sv[0] == "lex"):
            return None
        try:
            return (getattr(_re, c.func.attr)(pat, sv[1].text) is not None,)
        except _re.error:
            return None

    def _lex_eval(self, e, f, cls, env, depth):
        """Evaluate on the representative lexeme: ("ok", value-descr) | ("raises", exc)."""
        if isinstance(e, ast.Name):
            if e.id in env:
                return ("ok", env[e.id])
            c = self.prog.const(e, f.module, None, cls)
            return ("ok", ("const", c))
        if isinstance(e, ast.Constant):
            return ("ok", ("const", e.value))
        if isinstance(e, ast.Attribute) and dotted(e.value) == "cls":
            a = self.prog.lookup_attr(cls, e.attr)
            if a:
                return ("ok", ("const", self.prog.const(a[1], a[0].module, None, a[0])))
        if isinstance(e, ast.Compare):
            return ("ok", ("bool", self._lex_cond(e, f, cls, env)))
        if isinstance(e, ast.Tuple):
            parts = []
            for x in e.elts:
                r = self._lex_eval(x, f, cls, env, depth)
                if r[0] == "raises":
                    return r
                parts.append(r[1])
            return ("ok", ("tuple", parts))
        if isinstance(e, ast.Subscript):
            b = self._lex_eval(e.value, f, cls, env, depth)
            if b[0] == "raises":
                return b
            v = b[1]
            if v[0] == "lex" and isinstance(e.slice, ast.Slice):
                lo = self.prog.const(e.slice.lower, f.module) if e.slice.lower else None
                hi = self.prog.const(e.slice.upper, f.module) if e.slice.upper else None
                return ("ok", ("lex", Lexeme(v[1].text[lo:hi])))
            if v[0] == "const" and isinstance(v[1], dict):
                k = self._lex_eval(e.slice, f, cls, env, depth)
                if k[0] == "raises":
                    return k
                key = k[1][1].text if k[1][0] == "lex" else k[1][1]
                if key in v[1]:
                    return ("ok", ("num", None))
                return ("raises", "KeyError")
            raise AnalysisError("%s:%d subscript not understood" % (f.file, e.lineno))
        if isinstance(e, ast.Dict):
            return ("ok", ("const", {self.prog.const(k, f.module): self.prog.const(v, f.module)
                                     for k, v in zip(e.keys, e.values)}))
        if isinstance(e, ast.BinOp):
            l = self._lex_eval(e.left, f, cls, env, depth)
            if l[0] == "raises":
                return l
            r = self._lex_eval(e.right, f, cls, env, depth)
            if r[0] == "raises":
                return r
            # linear factor: a number read from the lexeme, multiplied / divided by constants, stays (factor x number)
            lv, rv = l[1], r[1]
            kl = lv[2] if lv[0] == "num" and len(lv) > 2 else None
            cr = self.prog.const(e.right, f.module, None, cls)
            cl = self.prog.const(e.left, f.module, None, cls)
            from fractions import Fraction as _F

            def frac(x):
                try:
                    return _F(str(x)) if isinstance(x, (int, float)) and not isinstance(x, bool) else None
                except (ValueError, ZeroDivisionError):
                    return None
            if kl is not None and frac(cr) not in (None, 0):
                if isinstance(e.op, ast.Div):
                    return ("ok", ("num", None, kl / frac(cr)))
                if isinstance(e.op, ast.Mult):
                    return ("ok", ("num", None, kl * frac(cr)))
            kr = rv[2] if rv[0] == "num" and len(rv) > 2 else None
            if kr is not None and frac(cl) is not None and isinstance(e.op, ast.Mult):
                return ("ok", ("num", None, kr * frac(cl)))
            return ("ok", ("num", None))
        if isinstance(e, ast.Call):
            fn = dotted(e.func)
            if fn in ("int", "float") and e.args:
                a = self._lex_eval(e.args[0], f, cls, env, depth)
                if a[0] == "raises":
                    return a
                v = a[1]
                if v[0] == "lex":
                    ok = v[1].is_int() if fn == "int" else v[1].is_float()
                    from fractions import Fraction as _F2

                    return ("ok", ("num", fn, _F2(1))) if ok else ("raises", "ValueError")
                if v[0] == "num" and len(v) > 2:
                    return ("ok", ("num", fn, v[2]))   # int()/float() of a scaled number keeps the factor (rounding aside)
                return ("ok", ("num", fn))
            if fn in ("Emu", "Centipoints", "round", "Length") and e.args:
                a = self._lex_eval(e.args[0], f, cls, env, depth)
                if a[0] == "raises":
                    return a
                if a[1][0] == "lex":
                    # Emu(str) -> int(str)
                    return ("ok", ("num", "int")) if a[1][1].is_int() else ("raises", "ValueError")
                return ("ok", ("num", None))
            if isinstance(e.func, ast.Attribute):
                meth = e.func.attr
                if meth == "replace" and isinstance(e.func.value, ast.Name):
                    v = env.get(e.func.value.id)
                    if isinstance(v, tuple) and v[0] == "lex":
                        a0 = self.prog.const(e.args[0], f.module)
                        a1 = self.prog.const(e.args[1], f.module)
                        return ("ok", ("lex", Lexeme(v[1].text.replace(a0, a1))))
                target = None
                tcls = cls
                recv = e.func.value
                if isinstance(recv, ast.Name) and recv.id == "cls":
                    target = self.prog.lookup(cls, meth)
                elif isinstance(recv, ast.Call) and dotted(recv.func) == "super":
                    target = self.prog.lookup(cls, meth, after=f.cls)
                else:
                    r = self.prog.resolve(f.module, dotted(recv) or "")
                    if isinstance(r, ClassInfo):
                        target, tcls = self.prog.lookup(r, meth), r
                if target is not None and e.args:
                    a = self._lex_eval(e.args[0], f, cls, env, depth)
                    if a[0] == "raises":
                        return a
                    if a[1][0] != "lex":
                        return ("ok", ("num", None))
                    pname = target.params[1]
                    body = [s for s in self._canon_body(target)
                            if not (isinstance(s, ast.Expr) and isinstance(s.value, ast.Constant))]
                    r = self._from_block(body, target, tcls, {pname: a[1]}, depth + 1)
                    if r is None:
                        raise AnalysisError("%s: no return" % target.qualname)
                    return r
        raise AnalysisError("%s:%d expression not understood in convert_from_xml: %s" % (
            f.file, getattr(e, "lineno", 0), ast.unparse(e)))


class Lexeme:
    """A representative lexeme standing for a lexical alternative of a schema type."""

    def __init__(self, text):
        self.text = text

    def is_int(self):
        t = self.text.strip()
        if t[:1] in "+-":
            t = t[1:]
        return t.isdigit()

    def is_float(self):
        try:
            float(self.text)
            return True
        except ValueError:
            return False

    def __repr__(self):
        return "Lexeme(%r)" % self.text


def _exc(r):
    e = r.exc
    if e is None:
        return "re-raise"
    if isinstance(e, ast.Call):
        e = e.func
    return dotted(e) or "?"


def _frac(node, c):
    """Exact rational of a numeric literal (uses the literal text for floats)."""
    if isinstance(c, float):
        try:
            txt = ast.unparse(node)
            return Fraction(txt)
        except Exception:  # noqa: BLE001
            return Fraction(str(c))
    return Fraction(c)


def _split(iv, op, c):
    """(part satisfying `v op c`, remainder)."""
    part, rest = iv.copy(), iv.copy()
    if isinstance(op, ast.Lt):
        if part.hi is None or part.hi >= c:
            part.hi, part.hi_open = c, True
        if rest.lo is None or rest.lo < c:
            rest.lo, rest.lo_open = c, False
    elif isinstance(op, ast.LtE):
        if part.hi is None or part.hi > c:
            part.hi, part.hi_open = c, False
        if rest.lo is None or rest.lo <= c:
            rest.lo, rest.lo_open = c, True
    elif isinstance(op, ast.Gt):
        if part.lo is None or part.lo <= c:
            part.lo, part.lo_open = c, True
        if rest.hi is None or rest.hi > c:
            rest.hi, rest.hi_open = c, False
    elif isinstance(op, ast.GtE):
        if part.lo is None or part.lo < c:
            part.lo, part.lo_open = c, False
        if rest.hi is None or rest.hi >= c:
            rest.hi, rest.hi_open = c, True
    return part, rest


def _scale(iv, c, floaty):
    r = Ival(None, None)
    a = None if iv.lo is None else iv.lo * c
    b = None if iv.hi is None else iv.hi * c
    if c >= 0:
        r.lo, r.lo_open, r.hi, r.hi_open = a, iv.lo_open, b, iv.hi_open
    else:
        r.lo, r.lo_open, r.hi, r.hi_open = b, iv.hi_open, a, iv.lo_open
    r.integral = iv.integral and c.denominator == 1 and not floaty
    return r


def _shift(iv, c, floaty):
    r = iv.copy()
    if r.lo is not None:
        r.lo += c
    if r.hi is not None:
        r.hi += c
    r.integral = iv.integral and c.denominator == 1 and not floaty
    return r


def _mod(iv, m):
    """Python % with a constant modulus: result in [0, m) for m > 0, (m, 0] for m < 0."""
    if m > 0:
        if iv.lo is not None and iv.hi is not None and iv.lo >= 0 and (iv.hi < m or (iv.hi == m and iv.hi_open)):
            return iv.copy()
        return Ival(Fraction(0), m, False, True, iv.integral and m.denominator == 1) if not iv.integral else \
            Ival(Fraction(0), m - 1, False, False, True)
    if m < 0:
        return Ival(m, Fraction(0), True, False, iv.integral and m.denominator == 1)
    raise AnalysisError("modulus zero")


def _round(iv):
    """round() of a real interval: an open bound is attained after rounding (floats arbitrarily
    close to the bound exist), so the image is the closed integer interval of the rounded ends."""
    r = Ival(None, None, False, False, True)
    if iv.lo is not None:
        r.lo = Fraction(_round_half_even(iv.lo))
    if iv.hi is not None:
        r.hi = Fraction(_round_half_even(iv.hi))
    return r


def _round_half_even(x):
    fl = math.floor(x)
    d = x - fl
    if d > Fraction(1, 2):
        return fl + 1
    if d < Fraction(1, 2):
        return fl
    return fl if fl % 2 == 0 else fl + 1


def _trunc(iv):
    r = Ival(None, None, False, False, True)
    if iv.lo is not None:
        t = math.trunc(iv.lo)
        # open lower bound at an integer: smallest attained truncation
        if iv.lo_open and iv.lo == t and iv.lo >= 0:
            t = t  # values just above t truncate to t
        r.lo = Fraction(t)
    if iv.hi is not None:
        t = math.trunc(iv.hi)
        if iv.hi_open and iv.hi == t and iv.hi > 0:
            t -= 1
        r.hi = Fraction(t)
    return r


def _floordiv(iv, c):
    r = Ival(None, None, False, False, True)
    c = Fraction(c)
    if iv.lo is not None:
        r.lo = Fraction(math.floor(iv.lo / c))
    if iv.hi is not None:
        r.hi = Fraction(math.floor(iv.hi / c))
    return r
