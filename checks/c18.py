"""C18 — core document properties round-trip and stay valid (decidable clauses).

Rules
  R18.1  name agreement across three layers for all 15 properties: CorePropertiesPart.<p> getter and setter use the same
         CT_CoreProperties.<y>_text/_datetime/_number; that property's getter and setter name the same child; the child is a
         declared ZeroOrOne whose tag is the Dublin-Core / OPC element for that property and is a child of
         cp:coreProperties in opc-coreProperties.xsd; elements are created only through get_or_add (xsd:all: at most once)
  R18.2  strings: str() then `len > 255` raises ValueError before the element is created; the reader returns "" for an absent
         or empty element and the text otherwise
  R18.3  dates: a non-datetime raises ValueError before the element is created; the written pattern has a fixed width equal
         to the reader's slice bound, its date-time part is one of the reader's templates and its zone suffix is not
         mistaken for an offset; created/modified carry xsi:type="dcterms:W3CDTF"; an offset `+hh:mm` is subtracted and
         `-hh:mm` added (equivalent UTC); the offset pattern's width equals the length the reader tests
  R18.4  revision: anything but an int >= 1 raises ValueError before the element is created; the reader yields an int
  R18.5  a package without core properties gains a related default part on first access (shared with C16 R16.4)
  (datetime arithmetic at the ends of the range, years below 1000, save/re-open identity: not decided)
"""

from __future__ import annotations

import ast
import re

from sa.pysrc import dotted
from sa.report import AnalysisError
from sa.types import walk_own

# property -> (accessor suffix, Dublin Core / OPC element) — ISO/IEC 29500-2 §11 (core properties) semantics
EXPECTED = {
    "author": ("text", "dc:creator"), "category": ("text", "cp:category"), "comments": ("text", "dc:description"),
    "content_status": ("text", "cp:contentStatus"), "created": ("datetime", "dcterms:created"),
    "identifier": ("text", "dc:identifier"), "keywords": ("text", "cp:keywords"), "language": ("text", "dc:language"),
    "last_modified_by": ("text", "cp:lastModifiedBy"), "last_printed": ("datetime", "cp:lastPrinted"),
    "modified": ("datetime", "dcterms:modified"), "revision": ("number", "cp:revision"), "subject": ("text", "dc:subject"),
    "title": ("text", "dc:title"), "version": ("text", "cp:version"),
}
WIDTH = {"%Y": 4, "%m": 2, "%d": 2, "%H": 2, "%M": 2, "%S": 2}


def _fmt_width(fmt):
    w = 0
    i = 0
    while i < len(fmt):
        if fmt[i] == "%":
            d = fmt[i:i + 2]
            if d not in WIDTH:
                return None
            w += WIDTH[d]
            i += 2
        else:
            w += 1
            i += 1
    return w


def _first_mutation_index(body):
    for i, st in enumerate(body):
        for n in ast.walk(st):
            if isinstance(n, ast.Call) and isinstance(n.func, ast.Attribute) and (
                    n.func.attr.startswith(("get_or_add", "_get_or_add", "_add_", "_insert_")) or n.func.attr in ("set", "append")):
                return i
            if isinstance(n, ast.Assign) and any(isinstance(t, ast.Attribute) and t.attr == "text" for t in n.targets):
                return i
    return None


def _guard(body, pred):
    """index and exception of the first `if <pred(test)>: raise X` at the top level."""
    for i, st in enumerate(body):
        if isinstance(st, ast.If) and pred(st.test):
            r = [x for x in st.body if isinstance(x, ast.Raise)]
            if r:
                return i, dotted(r[0].exc.func) if isinstance(r[0].exc, ast.Call) else dotted(r[0].exc)
    return None, None


def _body(f):
    b = f.node.body
    if b and isinstance(b[0], ast.Expr) and isinstance(b[0].value, ast.Constant) and isinstance(b[0].value.value, str):
        return b[1:]
    return b


def run(ctx):
    from checks.c10 import complex_types_for, load

    prog, S, M = load(ctx.repo)
    ctx.level = "other"
    ctx.trusted = ["CPython ast", "strftime/strptime directive widths for %Y %m %d %H %M %S (4-digit years)", "re._parser width computation",
                   "opc-coreProperties.xsd as shipped under /repo/spec"]
    ctx.explanation = (
        "The 15 properties are three layers of one-line delegations whose names must line up with each other and with the schema; "
        "the refusals must come before the element is created; the written timestamp must be readable by the reader's own "
        "template list, which is decided from the format strings (fixed widths, prefix membership) rather than by running them.")
    ctx.not_decided = ["datetime arithmetic near the ends of the representable range", "years below 1000 (strftime does not pad)",
                       "equality after save and re-open (run-time)"]

    part = prog.cls("pptx.parts.coreprops", "CorePropertiesPart")
    el = prog.cls("pptx.oxml.coreprops", "CT_CoreProperties")
    if part is None or el is None:
        raise AnalysisError("anchor vanished: CorePropertiesPart / CT_CoreProperties")
    decls = {d.prop: d for d in M.own_decls(el)[0]}
    schema_children = set()
    for tq in complex_types_for(S, prog.qn("cp:coreProperties")):
        schema_children |= set(S.alphabet(tq))
    if not schema_children:
        raise AnalysisError("cp:coreProperties not found in the OPC schemas")

    def accessor_target(f, kind):
        """(element property, helper, child name) of a one-line delegating accessor."""
        b = _body(f)
        if len(b) != 1:
            return None
        st = b[0]
        if kind == "get" and isinstance(st, ast.Return):
            return st.value
        if kind == "set" and isinstance(st, ast.Assign) and len(st.targets) == 1:
            return st.targets[0], st.value
        if kind == "set" and isinstance(st, ast.Expr):
            return st.value
        return None

    # -- R18.1 -------------------------------------------------------------------------------------------
    ctx.rule("R18.1", "15 properties x 3 layers: proxy accessor, element accessor, child element, schema element")
    helpers = {"text": ("_text_of_element", "_set_element_text"), "datetime": ("_datetime_of_element", "_set_element_datetime")}
    n = 0
    for prop, (suffix, tag) in sorted(EXPECTED.items()):
        key = "core_properties.%s" % prop
        g, st = prog.lookup(part, prop), prog.lookup_setter(part, prop)   # (own or inherited from a mixin of accessors)
        if g is None or st is None:
            ctx.violation("R18.1", key, "property %s is not read/write on CorePropertiesPart" % prop, file=part.file, line=part.line)
            continue
        n += 1
        rg = accessor_target(g, "get")
        rs = accessor_target(st, "set")
        probs = []
        ename = None
        if not (isinstance(rg, ast.Attribute) and dotted(rg.value) == "self._element"):
            probs.append("getter is not a read of self._element.<x>")
        else:
            ename = rg.attr
        if not (isinstance(rs, tuple) and isinstance(rs[0], ast.Attribute) and dotted(rs[0].value) == "self._element"
                and isinstance(rs[1], ast.Name) and rs[1].id == st.node.args.args[1].arg):
            probs.append("setter is not `self._element.<x> = value`")
        elif ename and rs[0].attr != ename:
            probs.append("getter reads %s but setter writes %s" % (ename, rs[0].attr))
        if ename and not ename.endswith("_" + suffix):
            probs.append("%s is not a %s accessor" % (ename, suffix))
        child = None
        if ename and not probs:
            eg, es = el.methods.get(ename), el.setters.get(ename)
            if eg is None or es is None:
                probs.append("CT_CoreProperties.%s is not read/write" % ename)
            elif suffix in helpers:
                hg, hs = helpers[suffix]
                vg = accessor_target(eg, "get")
                vs = accessor_target(es, "set")
                cg = cs = None
                if isinstance(vg, ast.Call) and dotted(vg.func) == "self." + hg and len(vg.args) == 1:
                    cg = prog.const(vg.args[0], eg.module)
                if isinstance(vs, ast.Call) and dotted(vs.func) == "self." + hs and len(vs.args) == 2 and dotted(vs.args[1]) == es.node.args.args[1].arg:
                    cs = prog.const(vs.args[0], es.module)
                if not (isinstance(cg, str) and isinstance(cs, str)):
                    probs.append("%s does not delegate to %s / %s with a constant child name" % (ename, hg, hs))
                elif cg != cs:
                    probs.append("%s reads child %r but writes child %r" % (ename, cg, cs))
                else:
                    child = cg
            else:  # revision: hand-written accessor over self.revision / get_or_add_revision
                rd = {x.attr for x in ast.walk(eg.node) if isinstance(x, ast.Attribute) and dotted(x.value) == "self"}
                wr = {x.func.attr for x in ast.walk(es.node) if isinstance(x, ast.Call) and isinstance(x.func, ast.Attribute) and dotted(x.func.value) == "self"}
                if "revision" in rd and "get_or_add_revision" in wr:
                    child = "revision"
                else:
                    probs.append("revision accessor does not read self.revision / write through get_or_add_revision")
        if child is not None:
            d = decls.get(child)
            if d is None or d.kind != "ZeroOrOne":
                probs.append("child %r is not a declared ZeroOrOne of CT_CoreProperties" % child)
            elif d.tags[0] != tag:
                probs.append("child %r is <%s>, but %s is stored in <%s>" % (child, d.tags[0], prop, tag))
            elif prog.qn(d.tags[0]) not in schema_children:
                probs.append("<%s> is not a child of cp:coreProperties in the schema" % d.tags[0])
        if probs:
            ctx.violation("R18.1", key, "; ".join(probs), file=part.file, line=g.line)
        else:
            ctx.ok("R18.1", key, sample={"proxy": prop, "element_accessor": ename, "child": child, "tag": tag, "in_schema": True})
    ctx.count("properties", n)
    # elements are created through get_or_add only (xsd:all: each at most once)
    from sa import paths as P_
    from sa.idioms import returned_exprs
    from sa.inline import expand as _expand
    from sa.strtpl import holes, shape, template_of

    goa = el.methods.get("_get_or_add")
    if goa is None:
        # under another name: the method of the class that looks a creating method up by a name built from its argument
        for nm_, g_ in el.methods.items():
            if len(g_.params) == 2 and any(isinstance(x, ast.Call) and dotted(x.func) == "getattr" and len(x.args) == 2 and dotted(x.args[0]) == "self"
                                           and not isinstance(x.args[1], ast.Constant) for x in ast.walk(g_.node)) \
                    and "get_or_add" in ast.unparse(g_.node):
                goa = g_
    GOA = goa.name if goa is not None else "_get_or_add"
    if goa is None:
        raise AnalysisError("anchor vanished: CT_CoreProperties._get_or_add")
    fmt = None
    gx, grets = returned_exprs(prog, goa)
    gparam = goa.node.args.args[1].arg
    for x in ast.walk(gx):
        # the method name handed to getattr(self, <name>) as a template over the property name
        if isinstance(x, ast.Call) and dotted(x.func) == "getattr" and len(x.args) == 2 and dotted(x.args[0]) == "self":
            t = template_of(ast.parse(P_.full(x.args[1], P_.value_aliases(gx)), mode="eval").body)
            if t is not None and len(holes(t)) == 1 and dotted(holes(t)[0].expr) == gparam:
                fmt = shape(t)
    if fmt is None:
        ctx.error("CT_CoreProperties._get_or_add", "the looked-up method name is not recognised")
    adders = [x.func.attr for f in el.methods.values() for x in ast.walk(f.node) if isinstance(x, ast.Call) and isinstance(x.func, ast.Attribute)
              and x.func.attr.startswith(("_add_", "_insert_")) and dotted(x.func.value) == "self"]
    if fmt is None:
        pass
    elif fmt == "get_or_add_{}" and not adders:
        ctx.ok("R18.1", "CT_CoreProperties._get_or_add", sample={"creates_through": "get_or_add_<child> (never a second element)"})
    else:
        ctx.violation("R18.1", "CT_CoreProperties._get_or_add", "children are not created through get_or_add_<child> only (%r, direct adders %s)" % (fmt, adders),
                      file=el.file, line=goa.line if goa else el.line)

    # -- R18.2 -------------------------------------------------------------------------------------------
    ctx.rule("R18.2", "strings: 255-character limit refuses with ValueError before the element is created; reader returns the text or ''")
    sst = el.methods.get("_set_element_text")
    if sst is None:
        raise AnalysisError("anchor vanished: _set_element_text")
    vparam = sst.node.args.args[2].arg
    sx = _expand(prog, sst, local_only=True, skip_names=(GOA,))
    sal, sval = P_.aliases(sx), P_.value_aliases(sx)

    def mutating(st):
        for n_ in ast.walk(st):
            if isinstance(n_, ast.Call) and isinstance(n_.func, ast.Attribute) and (
                    n_.func.attr.startswith(("get_or_add", "_get_or_add", "_add_", "_insert_")) or n_.func.attr in ("set", "append")):
                return True
            if isinstance(n_, ast.Assign) and any(isinstance(t_, ast.Attribute) and t_.attr == "text" for t_ in n_.targets):
                return True
        return False

    def root_name(name):
        """the name a chain of plain copies (`text = t0`) starts from"""
        seen_ = set()
        while name in sval and isinstance(sval[name], ast.Name) and name not in seen_:
            seen_.add(name)
            name = sval[name].id
        return name

    def is_text_of_value(name):
        """name is the parameter or str(parameter) (re-bound or under another name)"""
        name = root_name(name)
        if name == vparam:
            return True, any(isinstance(n_, ast.Assign) and dotted(n_.targets[0]) == vparam and isinstance(n_.value, ast.Call) and dotted(n_.value.func) == "str"
                             for n_ in ast.walk(sx))
        v_ = sval.get(name)
        return (isinstance(v_, ast.Call) and dotted(v_.func) == "str" and len(v_.args) == 1 and dotted(v_.args[0]) == vparam), True

    probs, stored_paths, refusals, coerced = [], 0, 0, False
    unrecognised = None
    for pth in P_.enum_paths(sx.body):
        evs = pth.events
        store_i = next((i for i, e in enumerate(evs) if e[0] == "stmt" and isinstance(e[1], ast.Assign) and any(
            isinstance(t_, ast.Attribute) and t_.attr == "text" for t_ in e[1].targets)), None)
        fs = P_.facts(pth, None, sal)
        lens = [a_ for a_ in fs if a_[0] == "cmp" and a_[2].startswith("len(") and a_[2].endswith(")")]
        if pth.end == "raise":
            exc = dotted(pth.end_node.exc.func) if isinstance(pth.end_node.exc, ast.Call) else dotted(pth.end_node.exc)
            if lens:
                refusals += 1
                if exc != "ValueError":
                    probs.append("an over-long string is refused with %s, not ValueError" % exc)
                if any(e[0] == "stmt" and mutating(e[1]) for e in evs):
                    probs.append("the element is created or written before the over-long string is refused")
            continue
        if store_i is None:
            continue
        stored_paths += 1
        st = evs[store_i][1]
        w = dotted(st.value)
        okw, co = is_text_of_value(w) if w else (False, False)
        coerced = coerced or co
        if not okw:
            probs.append("the stored text is `%s`, not the (string form of the) assigned value" % ast.unparse(st.value))
            continue
        if not lens:
            probs.append("a string is stored on a path that has not tested its length")
            continue
        a_ = lens[0]
        measured = a_[2][4:-1]
        k = prog.const(ast.parse(a_[3], mode="eval").body, sst.module, None, el)
        op, outcome = a_[1], a_[4]
        bound = None
        if isinstance(k, int):
            bound = {("Gt", False): k, ("GtE", False): k - 1, ("LtE", True): k, ("Lt", True): k - 1}.get((op, outcome))
        if root_name(measured) != root_name(w):
            probs.append("the 255 limit is applied to len(%s), not to the number of characters of the string: strings of up to 255 characters "
                         "can be refused (or longer ones accepted)" % measured)
        elif bound is None:
            unrecognised = "length test `%s %s %s` not understood" % (a_[2], op, a_[3])
        elif bound != 255:
            probs.append("strings of up to %d characters are accepted, the limit is 255" % bound)
    if unrecognised or not stored_paths:
        ctx.error("_set_element_text", unrecognised or "no path stores the text")
    elif not refusals and not probs:
        ctx.violation("R18.2", "_set_element_text", "string limit is not `len > 255 -> ValueError` before any mutation (no refusing path)",
                      file=sst.file, line=sst.line)
    elif probs:
        ctx.violation("R18.2", "_set_element_text", "string limit is not `len > 255 -> ValueError` before any mutation: %s" % "; ".join(sorted(set(probs))),
                      file=sst.file, line=sst.line)
    else:
        ctx.ok("R18.2", "_set_element_text", sample={"accepts": "len <= 255", "refuses": "ValueError before the element is created", "str()": coerced})
    tof = el.methods.get("_text_of_element")
    if tof is None:
        raise AnalysisError("anchor vanished: _text_of_element")
    tx = _expand(prog, tof, local_only=True)
    tval = P_.value_aliases(tx)
    elem_names = {k_ for k_, v_ in tval.items() if isinstance(v_, ast.Call) and dotted(v_.func) == "getattr"}
    rows = [r for r in P_.outcomes(tx.body, P_.aliases(tx)) if r.end == "return"]
    probs = []
    n_text = 0
    for r in rows:
        # the value on this path, with names assigned on the path resolved
        env_ = {}
        for st in r.path.stmts():
            if isinstance(st, ast.Assign) and len(st.targets) == 1 and isinstance(st.targets[0], ast.Name):
                env_[st.targets[0].id] = st.value
        v = r.path.end_node.value
        for _ in range(4):
            if isinstance(v, ast.Name) and v.id in env_ and v.id not in elem_names:
                v = env_[v.id]
        vs = ast.unparse(v)
        absent = P_.implied(r.facts, lambda a_: a_[0] == "none" and a_[2] is True)
        if isinstance(v, ast.BoolOp) and isinstance(v.op, ast.Or) and len(v.values) == 2 and prog.const(v.values[1], tof.module) == "":
            vs = ast.unparse(v.values[0])   # `element.text or ""`
            absent = False
        if absent:
            if prog.const(v, tof.module) != "":
                probs.append("an absent element / empty text reads as %s, not ''" % vs)
        elif vs.endswith(".text") and vs.split(".")[0] in elem_names:
            n_text += 1
        elif prog.const(v, tof.module) == "":
            pass
        else:
            probs.append("a present element reads as %s, not its text" % vs)
    if not rows or (not n_text and not probs):
        ctx.error("_text_of_element", "reader not recognised")
    elif probs:
        ctx.violation("R18.2", "_text_of_element", "reader does not return '' for an absent/empty element and the stored text otherwise: %s"
                      % "; ".join(sorted(set(probs))), file=el.file, line=tof.line)
    else:
        ctx.ok("R18.2", "_text_of_element", sample={"absent_or_empty": "''", "otherwise": "element.text unchanged"})

    # -- R18.3 -------------------------------------------------------------------------------------------
    ctx.rule("R18.3", "dates: refusal before mutation; written pattern readable by the reader; xsi:type; offsets to UTC")
    sdt = el.methods.get("_set_element_datetime")
    doe = el.methods.get("_datetime_of_element")
    from sa.inline import resolve_callee as _rc18

    def _callee_in(f_, want_):
        """the repository function a call in f_ resolves to (methods, aliases `name = staticmethod(fn)`, module functions), when
        want_(callee node) holds"""
        for x_ in ast.walk(f_.node):
            if isinstance(x_, ast.Call):
                g_ = None
                try:
                    rc_ = _rc18(prog, f_, x_, {})
                except Exception:  # noqa: BLE001
                    rc_ = None
                if rc_ is not None and hasattr(rc_[0], "node"):
                    g_ = rc_[0]
                else:
                    fd_ = dotted(x_.func) or ""
                    if fd_.startswith(("self.", "cls.")) and fd_.count(".") == 1 and f_.cls is not None:
                        a_ = prog.lookup_attr(f_.cls, fd_.split(".")[1])
                        v_ = a_[1] if a_ else None
                        if isinstance(v_, ast.Call) and dotted(v_.func) in ("staticmethod", "classmethod") and v_.args:
                            v_ = v_.args[0]
                        if v_ is not None and dotted(v_):
                            r_ = prog.resolve(a_[0].module, dotted(v_))
                            g_ = r_ if hasattr(r_, "node") else None
                if g_ is not None and g_.node is not f_.node and want_(g_.node):
                    return g_
        return None

    # the parser is what the reader accessor calls under its try; the offset conversion is what the parser calls that works
    # with a timedelta
    prs = el.methods.get("_parse_W3CDTF_to_datetime") or (doe and _callee_in(doe, lambda n_: any(
        isinstance(y, ast.Attribute) and y.attr == "strptime" for y in ast.walk(n_))))
    off = el.methods.get("_offset_dt") or (prs and _callee_in(prs, lambda n_: any(
        isinstance(y, ast.Attribute) and y.attr == "timedelta" for y in ast.walk(n_))))
    if not (sdt and prs and off):
        raise AnalysisError("anchor vanished: _set_element_datetime / _parse_W3CDTF_to_datetime / _offset_dt")
    # the setter in canonical form: a validation extracted into a helper is read in place
    body = _body(sdt)
    try:
        _sx = _expand(prog, sdt, local_only=True, skip_names=(GOA,))
        body = [s_ for s_ in _sx.body if not (isinstance(s_, ast.Expr) and isinstance(s_.value, ast.Constant))]
    except Exception:  # noqa: BLE001
        pass
    vname = sdt.node.args.args[2].arg

    def inst_test(t):
        return isinstance(t, ast.UnaryOp) and isinstance(t.op, ast.Not) and isinstance(t.operand, ast.Call) and dotted(t.operand.func) == "isinstance" \
            and dotted(t.operand.args[0]) == vname and dotted(t.operand.args[1]) in ("dt.datetime", "datetime.datetime", "datetime")

    gi, exc = _guard(body, inst_test)
    mi = _first_mutation_index(body)
    if gi is not None and mi is not None and gi < mi and exc == "ValueError":
        ctx.ok("R18.3", "_set_element_datetime:refusal", sample={"refuses": "non-datetime with ValueError before the element is created"})
    else:
        ctx.violation("R18.3", "_set_element_datetime:refusal", "a non-datetime is not refused with ValueError before mutation (guard@%s mutation@%s exc=%s)"
                      % (gi, mi, exc), file=sdt.file, line=sdt.line)
    wfmt = None

    def _written(x):
        """the pattern of the text an expression writes: strftime's format; isoformat() as the directives it stands for (the
        offset of an aware value, `%z`, is part of its output; so are the microseconds unless timespec cuts them); constants
        concatenated to either"""
        if isinstance(x, ast.Call) and isinstance(x.func, ast.Attribute) and x.func.attr == "strftime" and dotted(x.func.value) == vname and x.args:
            v_ = prog.const(x.args[0], sdt.module, None, el)
            return v_ if isinstance(v_, str) else None
        if isinstance(x, ast.Call) and isinstance(x.func, ast.Attribute) and x.func.attr == "isoformat" and dotted(x.func.value) == vname:
            kw_ = {k.arg: prog.const(k.value, sdt.module, None, el) for k in x.keywords}
            sep_ = prog.const(x.args[0], sdt.module, None, el) if x.args else kw_.get("sep", "T")
            ts_ = prog.const(x.args[1], sdt.module, None, el) if len(x.args) > 1 else kw_.get("timespec", "auto")
            if not isinstance(sep_, str) or ts_ not in ("auto", "seconds", "milliseconds", "microseconds"):
                return None
            return "%Y-%m-%d" + sep_ + "%H:%M:%S" + ("" if ts_ == "seconds" else "%f") + "%z"
        if isinstance(x, ast.BinOp) and isinstance(x.op, ast.Add):
            l_, r_ = _written(x.left), _written(x.right)
            l_ = l_ if l_ is not None else (x.left.value.replace("%", "%%") if isinstance(x.left, ast.Constant) and isinstance(x.left.value, str) else None)
            r_ = r_ if r_ is not None else (x.right.value.replace("%", "%%") if isinstance(x.right, ast.Constant) and isinstance(x.right.value, str) else None)
            return l_ + r_ if l_ is not None and r_ is not None else None
        return None

    _cands = [(x, _written(x)) for x in ast.walk(sdt.node)]
    _cands = [(x, w_) for x, w_ in _cands if w_ is not None]
    if _cands:
        # the outermost expression that writes a pattern (a concatenation contains its operands)
        _inner = {id(y) for x, _ in _cands for y in ast.walk(x) if y is not x}
        _outer = [w_ for x, w_ in _cands if id(x) not in _inner]
        wfmt = _outer[0] if len(_outer) == 1 else None
    templates = None
    slice_hi = None
    off_len = None
    penv = {}
    prx = _expand(prog, prs, local_only=True)   # an extracted strptime helper is read in place
    for x in walk_own(prx):
        if isinstance(x, ast.Assign) and isinstance(x.targets[0], ast.Name):
            v_ = prog.const(x.value, prs.module, penv, el)
            from sa.pysrc import Unknown as _Unk

            if not isinstance(v_, _Unk):
                penv[x.targets[0].id] = v_
    # the templates are whatever is handed to strptime as the format: a constant, or the variable of a loop (or comprehension clause)
    # over a constant; the strptime call may sit in a helper (`_strptime_or_none(s, tmpl)`), then the format is the helper's argument
    fmt_sites = []   # (call node in prx, format expression in prx)
    from sa.inline import resolve_callee as _rc18

    for x in ast.walk(prx):
        if isinstance(x, ast.Call) and isinstance(x.func, ast.Attribute) and x.func.attr == "strptime" and len(x.args) == 2:
            fmt_sites.append((x, x.args[1]))
        elif isinstance(x, ast.Call):
            rc_ = _rc18(prog, prs, x, {})
            if rc_ is not None and hasattr(rc_[0], "node") and rc_[0].node is not prs.node:
                hn = rc_[0].node
                hparams = [a.arg for a in hn.args.args][(1 if rc_[1] else 0):]
                for y in ast.walk(hn):
                    if isinstance(y, ast.Call) and isinstance(y.func, ast.Attribute) and y.func.attr == "strptime" and len(y.args) == 2 \
                            and isinstance(y.args[1], ast.Name) and y.args[1].id in hparams:
                        k_ = hparams.index(y.args[1].id)
                        arg = x.args[k_] if k_ < len(x.args) else next((kw.value for kw in x.keywords if kw.arg == y.args[1].id), None)
                        if arg is not None:
                            fmt_sites.append((x, arg))
    for x, t in fmt_sites:
        binders = []
        if isinstance(t, ast.Name):
            for lp in ast.walk(prx):
                if isinstance(lp, ast.For) and isinstance(lp.target, ast.Name) and lp.target.id == t.id and any(y is x for y in ast.walk(lp)):
                    binders.append(lp.iter)
                if isinstance(lp, (ast.ListComp, ast.GeneratorExp, ast.SetComp)) and any(y is x for y in ast.walk(lp)):
                    binders += [g.iter for g in lp.generators if isinstance(g.target, ast.Name) and g.target.id == t.id]
        if binders:
            it = prog.const(binders[0], prs.module, penv, el)
            if isinstance(it, (tuple, list)) and all(isinstance(q, str) for q in it):
                templates = tuple(it)
        else:
            tv = prog.const(t, prs.module, penv, el)
            if isinstance(tv, str):
                templates = (templates or ()) + (tv,)
    for x in ast.walk(prx):
        if isinstance(x, ast.Subscript) and isinstance(x.slice, ast.Slice) and x.slice.lower is None and x.slice.upper is not None:
            k_ = prog.const(x.slice.upper, prs.module, penv, el)
            if isinstance(k_, int):
                slice_hi = k_
        if isinstance(x, ast.Compare) and isinstance(x.left, ast.Call) and dotted(x.left.func) == "len" and isinstance(x.ops[0], ast.Eq):
            k_ = prog.const(x.comparators[0], prs.module, penv, el)
            if isinstance(k_, int):
                off_len = k_
    probs = []
    if not isinstance(wfmt, str):
        probs.append("written pattern not found")
    elif not isinstance(templates, tuple) or not isinstance(slice_hi, int):
        probs.append("reader templates / slice bound not found")
    else:
        # the part of the written string inside the reader's slice must be exactly one reader template
        cut = None
        w = 0
        i = 0
        while i <= len(wfmt):
            if w == slice_hi:
                cut = i
                break
            if i == len(wfmt):
                break
            if wfmt[i] == "%":
                if wfmt[i:i + 2] not in WIDTH:
                    break
                w += WIDTH[wfmt[i:i + 2]]
                i += 2
            else:
                w += 1
                i += 1
        if cut is None:
            probs.append("the reader's slice [:%s] does not fall on a directive boundary of %r" % (slice_hi, wfmt))
        else:
            head, tail = wfmt[:cut], wfmt[cut:]
            if head not in templates:
                probs.append("date-time part %r of the written pattern is not one of the reader's templates %s" % (head, list(templates)))
            # the suffix must denote UTC: the designator Z (ignored by the reader: its width is not the offset width), nothing,
            # or a literal zero offset the reader's own pattern accepts
            tw = _fmt_width(tail)
            zero = bool(re.fullmatch(r"[+-]00:00", tail))
            if "%" in tail:
                probs.append("zone suffix %r contains a directive" % tail)
            elif zero:
                pass
            elif tail in ("Z", ""):
                if tw == off_len:
                    probs.append("zone suffix %r has the width the reader treats as an offset" % tail)
            else:
                probs.append("zone suffix %r does not denote UTC (the value is written as given, so the reader would shift or drop it)" % tail)
        longest = max((_fmt_width(t) or 0) for t in templates)
        if longest != slice_hi:
            probs.append("reader slices %s characters but its longest template has width %s" % (slice_hi, longest))
    if probs and any(p_.endswith("not found") for p_ in probs):
        ctx.error("written-pattern-readable", "; ".join(probs))
    elif probs:
        ctx.violation("R18.3", "written-pattern-readable", "; ".join(probs), file=sdt.file, line=sdt.line)
    else:
        ctx.ok("R18.3", "written-pattern-readable", sample={"written": wfmt, "reader_templates": list(templates), "slice": slice_hi,
                                                           "suffix": "%r denotes UTC (offset width %s)" % (tail, off_len)})
    # every parse path either returns a timestamp or raises ValueError (caught by _datetime_of_element -> None)
    def _is_parser_call(c):
        if dotted(c.func) == "self._parse_W3CDTF_to_datetime":
            return True
        return prs.cls is None and dotted(c.func) == prs.name and prog.resolve(doe.module, prs.name) is prs

    caught = any(isinstance(t, ast.Try) and any(dotted(h.type) == "ValueError" for h in t.handlers)
                 and any(isinstance(c, ast.Call) and _is_parser_call(c) for c in ast.walk(t))
                 for t in ast.walk(doe.node)) if doe else False
    if caught:
        ctx.ok("R18.3", "_datetime_of_element", sample={"unparseable": "None (ValueError caught)"})
    else:
        ctx.violation("R18.3", "_datetime_of_element", "an unparseable timestamp is not turned into None", file=el.file, line=doe.line if doe else el.line)
    # xsi:type for created / modified
    from sa import paths as P_
    from sa.desugar import desugar as _desugar

    dsd = _expand(prog, sdt, local_only=True, skip_names=(GOA,))   # an extracted tagging helper is read in place
    pname = sdt.node.args.args[1].arg
    tagged_for, untagged_for, value_ok, unknown = set(), set(), True, []
    ALLP = {v[1].split(":")[1] if False else k for k, v in {}.items()}
    date_children = {"created", "modified", "lastPrinted"}
    for pth in P_.enum_paths(dsd.body):
        if pth.end == "raise":
            continue
        fs = P_.facts(pth)
        member = None  # (set of names, polarity)
        for a in fs:
            if a[0] == "in" and a[1] == pname:
                names = prog.const(ast.parse(a[2], mode="eval").body, sdt.module, None, el)
                if isinstance(names, (tuple, list, frozenset, set)):
                    member = (set(names), a[3])
        does = None
        for st_ in pth.stmts():
            for c in ast.walk(st_):
                if isinstance(c, ast.Call) and isinstance(c.func, ast.Attribute) and c.func.attr == "set" and len(c.args) == 2 \
                        and dotted(c.func.value) not in ("self",):
                    a0 = c.args[0]
                    q = prog.const(a0.args[0], sdt.module) if isinstance(a0, ast.Call) and dotted(a0.func) == "qn" and a0.args else None
                    if q == "xsi:type":
                        does = prog.const(c.args[1], sdt.module, None, el)
        if member is None:
            if does is not None:
                tagged_for |= date_children  # unconditional tagging
            else:
                unknown.append("a path neither tests the property name nor tags")
            continue
        inside = member[0] if member[1] else date_children - member[0]
        if does is not None:
            tagged_for |= inside
            value_ok = value_ok and does == "dcterms:W3CDTF"
        else:
            untagged_for |= inside
    need_children = {"created", "modified"}
    if tagged_for == need_children and not (untagged_for & need_children) and value_ok:
        ctx.ok("R18.3", "xsi:type", sample={"elements": sorted(need_children), "value": "dcterms:W3CDTF"})
    elif not tagged_for and not untagged_for:
        ctx.error("CT_CoreProperties._set_element_datetime", "xsi:type tagging not recognised on any path")
    else:
        ctx.violation("R18.3", "xsi:type", "xsi:type=\"dcterms:W3CDTF\" is written for %s (value ok: %s) and omitted for %s; the schema requires it on exactly "
                      "dcterms:created and dcterms:modified" % (sorted(tagged_for), value_ok, sorted(untagged_for & need_children)), file=sdt.file, line=sdt.line)
    # offsets: evaluate the correction applied to the timestamp under each sign, in minutes, as a polynomial in H (hours
    # field) and M (minutes field); expected -(60H + M) for '+', +(60H + M) for '-'
    from sa.poly import Poly

    from checks.c04 import _compiled_pattern as _cp18

    offset_pat = None
    for stn in el.node.body:
        if isinstance(stn, ast.Assign) and isinstance(stn.targets[0], ast.Name) and stn.targets[0].id == "_offset_pattern" \
                and isinstance(stn.value, ast.Call) and stn.value.args:
            offset_pat = prog.const(stn.value.args[0], el.module)
    for x_ in ast.walk(off.node):
        # the pattern the conversion matches the offset with, wherever it is defined (class constant, module constant, literal)
        if isinstance(x_, ast.Call) and isinstance(x_.func, ast.Attribute) and x_.func.attr in ("match", "fullmatch"):
            if dotted(x_.func.value) == "re" and x_.args:
                v_ = prog.const(x_.args[0], off.module, None, off.cls)
                offset_pat = v_ if isinstance(v_, str) else offset_pat
            else:
                v_ = _cp18(prog, off, x_.func.value)
                offset_pat = v_ if isinstance(v_, str) else offset_pat

    def offset_minutes(sign_char):
        env = {}
        signvar = None
        for st in off.node.body:
            if isinstance(st, ast.Assign) and isinstance(st.targets[0], ast.Tuple) and isinstance(st.value, ast.Call) \
                    and (dotted(st.value.func) or "").endswith(".groups"):
                names = [e.id for e in st.targets[0].elts]
                if len(names) == 3:
                    signvar = names[0]
                    env[names[1]] = ("str", "H")
                    env[names[2]] = ("str", "M")
            # `a, b, c = match.group(x, y, z)`: groups picked by number or by name (resolved with the pattern's group index)
            if isinstance(st, ast.Assign) and isinstance(st.targets[0], ast.Tuple) and isinstance(st.value, ast.Call) \
                    and (dotted(st.value.func) or "").endswith(".group") and len(st.value.args) == len(st.targets[0].elts) == 3 and isinstance(offset_pat, str):
                import re as _re18

                try:
                    gi = _re18.compile(offset_pat).groupindex
                except _re18.error:
                    gi = {}
                roles = {1: "sign", 2: "H", 3: "M"}
                for tgt_, a_ in zip(st.targets[0].elts, st.value.args):
                    k_ = prog.const(a_, off.module)
                    idx_ = gi.get(k_) if isinstance(k_, str) else k_ if isinstance(k_, int) else None
                    role = roles.get(idx_)
                    if role == "sign":
                        signvar = tgt_.id
                    elif role in ("H", "M"):
                        env[tgt_.id] = ("str", role)

        def ev(e):
            if isinstance(e, ast.IfExp) and isinstance(e.test, ast.Compare) and dotted(e.test.left) == signvar \
                    and isinstance(e.test.ops[0], (ast.Eq, ast.NotEq)):
                lit = prog.const(e.test.comparators[0], off.module)
                truth = (lit == sign_char) if isinstance(e.test.ops[0], ast.Eq) else (lit != sign_char)
                return ev(e.body if truth else e.orelse)
            # a table keyed by the sign character: `{"+": -1, "-": 1}[sign]` / `.get(sign, d)` (the table may be a class constant)
            if isinstance(e, ast.Subscript) and dotted(e.slice) == signvar:
                tb = prog.const(e.value, off.module, None, el)
                if isinstance(tb, dict) and sign_char in tb and isinstance(tb[sign_char], int):
                    return Poly.const(tb[sign_char])
                raise ValueError("sign table `%s`" % ast.unparse(e))
            if isinstance(e, ast.Call) and isinstance(e.func, ast.Attribute) and e.func.attr == "get" and e.args and dotted(e.args[0]) == signvar:
                tb = prog.const(e.func.value, off.module, None, el)
                if isinstance(tb, dict) and sign_char in tb and isinstance(tb[sign_char], int):
                    return Poly.const(tb[sign_char])
                raise ValueError("sign table `%s`" % ast.unparse(e))
            if isinstance(e, ast.Call) and dotted(e.func) == "int" and isinstance(e.args[0], ast.Name) and isinstance(env.get(e.args[0].id), tuple):
                return Poly.sym(env[e.args[0].id][1])
            if isinstance(e, ast.Name):
                v = env.get(e.id)
                if isinstance(v, Poly):
                    return v
                raise ValueError("name %s" % e.id)
            if isinstance(e, ast.Constant) and isinstance(e.value, int):
                return Poly.const(e.value)
            if isinstance(e, ast.UnaryOp) and isinstance(e.op, ast.USub):
                return -ev(e.operand)
            if isinstance(e, ast.BinOp) and isinstance(e.op, (ast.Add, ast.Sub, ast.Mult)):
                l, r = ev(e.left), ev(e.right)
                return l + r if isinstance(e.op, ast.Add) else l - r if isinstance(e.op, ast.Sub) else l * r
            if isinstance(e, ast.Call) and dotted(e.func) in ("dt.timedelta", "timedelta", "datetime.timedelta"):
                tot = Poly()
                for k in e.keywords:
                    f_ = {"hours": 60, "minutes": 1, "days": 1440}.get(k.arg)
                    if f_ is None:
                        raise ValueError("timedelta(%s=)" % k.arg)
                    tot = tot + Poly.const(f_) * ev(k.value)
                if e.args:
                    raise ValueError("positional timedelta arguments")
                return tot
            raise ValueError("expression `%s`" % ast.unparse(e))

        if signvar is None:
            raise ValueError("sign, hours, minutes = match.groups() not found")
        for st in off.node.body:
            if isinstance(st, ast.Assign) and isinstance(st.targets[0], ast.Name):
                try:
                    env[st.targets[0].id] = ev(st.value)
                except ValueError:
                    env.pop(st.targets[0].id, None)  # not a number (e.g. the match object); an error if it is used later
            elif isinstance(st, ast.If):
                # `if sign == "+": ... else: ...` blocks of plain assignments
                t = st.test
                if isinstance(t, ast.Compare) and dotted(t.left) == signvar and isinstance(t.ops[0], (ast.Eq, ast.NotEq)):
                    lit = prog.const(t.comparators[0], off.module)
                    truth = (lit == sign_char) if isinstance(t.ops[0], ast.Eq) else (lit != sign_char)
                    for s2 in (st.body if truth else st.orelse):
                        if isinstance(s2, ast.Assign) and isinstance(s2.targets[0], ast.Name):
                            env[s2.targets[0].id] = ev(s2.value)
            elif isinstance(st, ast.Return):
                r = st.value
                dparam = [a_.arg for a_ in off.node.args.args if a_.arg not in ("self", "cls")][0]
                if isinstance(r, ast.BinOp) and isinstance(r.op, (ast.Add, ast.Sub)) and dotted(r.left) == dparam:
                    d = ev(r.right)
                    return d if isinstance(r.op, ast.Add) else -d
                if isinstance(r, ast.BinOp) and isinstance(r.op, ast.Add) and dotted(r.right) == dparam:
                    return ev(r.left)
                raise ValueError("return `%s`" % ast.unparse(r))
        raise ValueError("no return")

    total = Poly.const(60) * Poly.sym("H") + Poly.sym("M")
    pat = offset_pat
    width = None
    if isinstance(pat, str):
        try:
            import re._parser as sp  # type: ignore

            lo, hi = sp.parse(pat).getwidth()
            width = lo if lo == hi else None
        except Exception:
            width = None
    try:
        plus, minus = offset_minutes("+"), offset_minutes("-")
        probs = []
        if plus != -total:
            probs.append("for `+hh:mm` the timestamp is shifted by %r minutes, expected %r" % (plus, -total))
        if minus != total:
            probs.append("for `-hh:mm` the timestamp is shifted by %r minutes, expected %r" % (minus, total))
        if width != off_len:
            probs.append("offset pattern width %s differs from the length %s the reader tests" % (width, off_len))
        if probs:
            ctx.violation("R18.3", "_offset_dt", "offset is not converted to the equivalent UTC time: " + "; ".join(probs) + " (H, M = hours and "
                          "minutes fields)", file=off.file, line=off.line)
        else:
            ctx.ok("R18.3", "_offset_dt", sample={"+hh:mm": repr(plus) + " minutes", "-hh:mm": repr(minus) + " minutes", "pattern_width": width})
    except ValueError as e:
        ctx.error("CT_CoreProperties._offset_dt", "offset conversion not decoded: %s" % e)

    # -- R18.4 -------------------------------------------------------------------------------------------
    ctx.rule("R18.4", "revision: only int >= 1 accepted (ValueError otherwise, before mutation); reader yields an int")
    rs = el.setters.get("revision_number")
    rg = el.methods.get("revision_number")
    if not (rs and rg):
        raise AnalysisError("anchor vanished: revision_number")
    body = _body(rs)
    rs_node, rg_node = rs.node, rg.node
    try:
        # canonical form: an extracted validation / conversion helper is read in place
        rs_node = _expand(prog, rs, local_only=True)
        rg_node = _expand(prog, rg, local_only=True)
        body = [s_ for s_ in rs_node.body if not (isinstance(s_, ast.Expr) and isinstance(s_.value, ast.Constant))]
    except Exception:  # noqa: BLE001
        rs_node, rg_node = rs.node, rg.node
    vname = rs.node.args.args[1].arg

    def rev_test(t):
        if not (isinstance(t, ast.BoolOp) and isinstance(t.op, ast.Or) and len(t.values) == 2):
            return False
        a, b = t.values
        isint = isinstance(a, ast.UnaryOp) and isinstance(a.op, ast.Not) and isinstance(a.operand, ast.Call) and dotted(a.operand.func) == "isinstance" \
            and dotted(a.operand.args[1]) == "int"
        low = isinstance(b, ast.Compare) and dotted(b.left) == vname and (
            (isinstance(b.ops[0], ast.Lt) and prog.const(b.comparators[0], rs.module) == 1)
            or (isinstance(b.ops[0], ast.LtE) and prog.const(b.comparators[0], rs.module) == 0))
        return isint and low

    gi, exc = _guard(body, rev_test)
    mi = _first_mutation_index(body)
    wr = any(isinstance(x, ast.Assign) and any(isinstance(t, ast.Attribute) and t.attr == "text" for t in x.targets) and isinstance(x.value, ast.Call)
             and dotted(x.value.func) == "str" and dotted(x.value.args[0]) == vname for x in ast.walk(rs_node))
    if gi is not None and mi is not None and gi < mi and exc == "ValueError" and wr:
        ctx.ok("R18.4", "revision_number.setter", sample={"accepts": "int >= 1", "refuses": "ValueError before the element is created", "stores": "str(value)"})
    else:
        ctx.violation("R18.4", "revision_number.setter", "revision does not refuse non-positive / non-int values with ValueError before mutation "
                      "(guard@%s mutation@%s exc=%s writes str(value)=%s)" % (gi, mi, exc, wr), file=rs.file, line=rs.line)
    rets = [x.value for x in walk_own(rg_node) if isinstance(x, ast.Return)]

    def int_valued(e, depth=0, fn_=None, owner_=None):
        fn_ = fn_ if fn_ is not None else rg_node
        owner_ = owner_ if owner_ is not None else rg
        if depth > 5 or e is None:
            return False
        if isinstance(e, ast.Call) and dotted(e.func) not in ("int", "max", "min", "abs"):
            # a conversion helper of the repository: every one of its returns is an integer
            try:
                rc_ = _rc18(prog, owner_, e, {})
            except Exception:  # noqa: BLE001
                rc_ = None
            if rc_ is not None and hasattr(rc_[0], "node"):
                g_ = rc_[0]
                rs_ = [x.value for x in walk_own(g_.node) if isinstance(x, ast.Return)]
                return bool(rs_) and all(int_valued(r_, depth + 1, g_.node, g_) for r_ in rs_)
            return False
        if isinstance(e, ast.Constant):
            return isinstance(e.value, int) and not isinstance(e.value, bool)
        if isinstance(e, ast.Call) and dotted(e.func) == "int":
            return True
        if isinstance(e, ast.Call) and dotted(e.func) in ("max", "min", "abs") and e.args:
            return all(int_valued(a_, depth + 1, fn_, owner_) for a_ in e.args)
        if isinstance(e, ast.BinOp) and isinstance(e.op, (ast.Add, ast.Sub, ast.Mult, ast.FloorDiv, ast.Mod)):
            return int_valued(e.left, depth + 1, fn_, owner_) and int_valued(e.right, depth + 1, fn_, owner_)
        if isinstance(e, ast.IfExp):
            return int_valued(e.body, depth + 1, fn_, owner_) and int_valued(e.orelse, depth + 1, fn_, owner_)
        if isinstance(e, ast.Name):
            # the value reaching a return is the last int binding: accept when some binding is int-valued and every binding is either
            # int-valued or the element / its text (re-used local names in the original code)
            bs = [n_.value for n_ in ast.walk(fn_) if isinstance(n_, ast.Assign) and any(isinstance(t, ast.Name) and t.id == e.id for t in n_.targets)]
            return any(int_valued(b_, depth + 1, fn_, owner_) for b_ in bs)
        return False

    if rets and all(int_valued(r) for r in rets):
        ctx.ok("R18.4", "revision_number.getter", sample={"returns": "int(text) (clamped at 0) or 0"})
    else:
        bad = [ast.unparse(r) for r in rets if not int_valued(r)]
        ctx.violation("R18.4", "revision_number.getter", "revision reader can return a non-integer (%s)" % bad, file=rg.file, line=rg.line)

    # -- R18.5 -------------------------------------------------------------------------------------------
    from checks.c16 import core_properties_default_rule

    ctx.rule("R18.5", "a package without core properties gains a related default part on first access (so assigned values are saved)")
    core_properties_default_rule(ctx, prog, "R18.5")
    dflt = part.methods.get("default")
    newf = part.methods.get("_new")
    good = False
    if dflt is not None and newf is not None:
        uses_new = any(isinstance(c, ast.Call) and dotted(c.func) == "cls._new" for c in ast.walk(dflt.node))
        ret = [n.value for n in walk_own(dflt.node) if isinstance(n, ast.Return)]
        ctor = [c for c in ast.walk(newf.node) if isinstance(c, ast.Call) and dotted(c.func) in ("CorePropertiesPart", "cls")]
        ct_ok = False
        for c in ctor:
            args = [ast.unparse(a) for a in c.args]
            ct_ok = len(args) >= 4 and "core.xml" in args[0] and args[1] == "CT.OPC_CORE_PROPERTIES" and "new_coreProperties" in args[3]
        good = uses_new and bool(ret) and ct_ok
    if good:
        ctx.ok("R18.5", "CorePropertiesPart.default", sample={"partname": "/docProps/core.xml", "content_type": "CT.OPC_CORE_PROPERTIES", "element": "new cp:coreProperties"})
    else:
        ctx.violation("R18.5", "CorePropertiesPart.default", "the default part is not a /docProps/core.xml part of the core-properties content type "
                      "around a new cp:coreProperties element", file=part.file, line=dflt.line if dflt else part.line)
