"""Load-time normalisation of every module: surface variants that carry no meaning are brought to one form before any rule
looks at the tree, so that a rule calibrated on one spelling is not surprised by the other.  Each rewrite is semantics-preserving
and keeps the line number of the statement it came from.

  N1  `v = E` directly followed by `return v` (v not captured by a nested scope)              ->  `return E`
  N3  `return A if c else B` / `x = A if c else B`                                            ->  if c: ... else: ...   (then N2)
  N2  `if c: BODY else: REST` where BODY always leaves (return / raise / continue / break)   ->  `if c: BODY` ; REST

  N4  property factories in class bodies are materialised as the getter / setter pair they stand for (see below)

Disabled with VERIF_NO_NORMALISE=1 (used by the self-tests of this module only).
"""

from __future__ import annotations

import ast
import os


def _leaves(body):
    last = body[-1] if body else None
    if isinstance(last, (ast.Return, ast.Raise, ast.Continue, ast.Break)):
        return True
    if isinstance(last, ast.If) and last.orelse:
        return _leaves(last.body) and _leaves(last.orelse)
    return False


class _N(ast.NodeTransformer):
    def __init__(self):
        self.uses = [set()]

    def _split_ifexp(self, st):
        """N3: conditional expressions that select the returned / assigned value become statements"""
        if isinstance(st, ast.Return) and isinstance(st.value, ast.IfExp):
            v = st.value
            a = self._split_ifexp(ast.copy_location(ast.Return(value=v.body), st))
            b = self._split_ifexp(ast.copy_location(ast.Return(value=v.orelse), st))
            return ast.copy_location(ast.If(test=v.test, body=[a], orelse=[b]), st)
        if isinstance(st, ast.Assign) and len(st.targets) == 1 and isinstance(st.targets[0], ast.Name) and isinstance(st.value, ast.IfExp):
            v, t = st.value, st.targets[0]
            a = self._split_ifexp(ast.copy_location(ast.Assign(targets=[ast.Name(id=t.id, ctx=ast.Store())], value=v.body), st))
            b = self._split_ifexp(ast.copy_location(ast.Assign(targets=[ast.Name(id=t.id, ctx=ast.Store())], value=v.orelse), st))
            return ast.copy_location(ast.If(test=v.test, body=[a], orelse=[b]), st)
        return st

    def _block(self, stmts):
        vis = [self.visit(st) for st in stmts]
        # N1 first: `v = E; return v` -> `return E` (so that a conditional E is then split as a returned value)
        res = []
        i = 0
        while i < len(vis):
            st = vis[i]
            nxt = vis[i + 1] if i + 1 < len(vis) else None
            if isinstance(st, ast.Assign) and len(st.targets) == 1 and isinstance(st.targets[0], ast.Name) and isinstance(nxt, ast.Return) \
                    and isinstance(nxt.value, ast.Name) and nxt.value.id == st.targets[0].id and st.targets[0].id not in self.uses[-1]:
                res.append(ast.copy_location(ast.Return(value=st.value), nxt))
                i += 2
                continue
            res.append(st)
            i += 1
        out = []
        for st in res:
            st = self._split_ifexp(st)
            # N2
            if isinstance(st, ast.If) and st.orelse and _leaves(st.body):
                rest = st.orelse
                st.orelse = []
                out.append(st)
                out.extend(self._flatten(rest))
                continue
            out.append(st)
        return out

    def _flatten(self, stmts):
        # the statements of a dissolved else-arm may themselves start with a leaving if/else
        return self._block_no_visit(stmts)

    def _block_no_visit(self, stmts):
        out = []
        for st in stmts:
            if isinstance(st, ast.If) and st.orelse and _leaves(st.body):
                rest = st.orelse
                st.orelse = []
                out.append(st)
                out.extend(self._block_no_visit(rest))
            else:
                out.append(st)
        return out

    def generic_visit(self, node):
        for fld in ("body", "orelse", "finalbody"):
            b = getattr(node, fld, None)
            if isinstance(b, list) and b and isinstance(b[0], ast.stmt):
                setattr(node, fld, self._block(b))
        for h in getattr(node, "handlers", []) or []:
            h.body = self._block(h.body)
        return node

    def visit_FunctionDef(self, node):
        # names that must keep their binding: read from nested scopes (closures), global / nonlocal
        cnt = set()
        for x in ast.walk(node):
            if isinstance(x, (ast.FunctionDef, ast.AsyncFunctionDef, ast.Lambda)) and x is not node:
                # free names of the nested scope: read there but neither assigned nor a parameter there
                bound = {a.arg for a in x.args.args + x.args.posonlyargs + x.args.kwonlyargs}
                body_ = x.body if isinstance(x.body, list) else [x.body]
                for b_ in body_:
                    for y in ast.walk(b_):
                        if isinstance(y, ast.Name) and isinstance(y.ctx, (ast.Store, ast.Del)):
                            bound.add(y.id)
                for b_ in body_:
                    for y in ast.walk(b_):
                        if isinstance(y, ast.Name) and y.id not in bound:
                            cnt.add(y.id)
            elif isinstance(x, (ast.Global, ast.Nonlocal)):
                cnt.update(x.names)
        self.uses.append(cnt)
        node.body = self._block(node.body)
        self.uses.pop()
        return node

    visit_AsyncFunctionDef = visit_FunctionDef

    def visit_ClassDef(self, node):
        node.body = [self.visit(st) for st in node.body]
        return node

    def visit_Module(self, node):
        node.body = [self.visit(st) if isinstance(st, (ast.FunctionDef, ast.AsyncFunctionDef, ast.ClassDef)) else st for st in node.body]
        return node


def _materialise_property_factories(tree):
    """N4  `name = make_prop("x")` in a class body, where the module-level `make_prop(p)` only defines a getter (and setter) closing
    over its parameters and returns `property(getter[, setter])`   ->   the `@property def name(self)` / `@name.setter` pair the
    factory stands for, with the parameters replaced by the call's arguments."""
    import copy

    facts = {}
    for st in tree.body:
        if not isinstance(st, ast.FunctionDef) or st.decorator_list:
            continue
        body = [x for x in st.body if not (isinstance(x, ast.Expr) and isinstance(x.value, ast.Constant))]
        defs = {x.name: x for x in body if isinstance(x, ast.FunctionDef)}
        rest = [x for x in body if not isinstance(x, ast.FunctionDef)]
        # (bindings that only feed the `doc=` of the property - a docstring built from the parameters - do not matter)
        if rest and isinstance(rest[-1], ast.Return) and isinstance(rest[-1].value, ast.Call) and len(rest) > 1 \
                and all(isinstance(x, ast.Assign) and len(x.targets) == 1 and isinstance(x.targets[0], ast.Name) for x in rest[:-1]):
            docnames = {x.targets[0].id for x in rest[:-1]}
            used_elsewhere = {n_.id for d_ in defs.values() for n_ in ast.walk(d_) if isinstance(n_, ast.Name)} | {
                n_.id for a_ in rest[-1].value.args for n_ in ast.walk(a_) if isinstance(n_, ast.Name)} | {
                n_.id for k_ in rest[-1].value.keywords if k_.arg != "doc" for n_ in ast.walk(k_.value) if isinstance(n_, ast.Name)}
            if not (docnames & used_elsewhere):
                rest = rest[-1:]
        if not defs or len(rest) != 1 or not isinstance(rest[0], ast.Return) or not isinstance(rest[0].value, ast.Call) \
                or ast.unparse(rest[0].value.func) != "property":
            continue
        c = rest[0].value
        fget = c.args[0] if c.args else next((k.value for k in c.keywords if k.arg == "fget"), None)
        fset = c.args[1] if len(c.args) > 1 else next((k.value for k in c.keywords if k.arg == "fset"), None)
        if not (isinstance(fget, ast.Name) and fget.id in defs) or (fset is not None and not (isinstance(fset, ast.Name) and fset.id in defs)):
            continue
        a = st.args
        if a.vararg or a.kwarg or a.kwonlyargs:
            continue
        facts[st.name] = (st, defs[fget.id], defs[fset.id] if fset is not None else None)
    if not facts:
        return tree

    def build(fn, name, mapping, decos, at):
        new = copy.deepcopy(fn)
        new.name = name
        new.decorator_list = decos
        bound = {x.arg for x in new.args.args + new.args.posonlyargs + new.args.kwonlyargs}

        class S(ast.NodeTransformer):
            def visit_Name(self_, x):
                if isinstance(x.ctx, ast.Load) and x.id in mapping and x.id not in bound:
                    return ast.copy_location(copy.deepcopy(mapping[x.id]), x)
                return x
        new.body = [S().visit(b) for b in new.body]
        # the receiver is called `self` like in every other method (the factory may call it `prs`, `paragraph`, ...)
        first = new.args.args[0].arg if new.args.args else None
        names_ = {x.id for x in ast.walk(new) if isinstance(x, ast.Name)} | {x.arg for x in new.args.args[1:]}
        if first and first != "self" and "self" not in names_:
            for y in ast.walk(new):
                if isinstance(y, ast.Name) and y.id == first:
                    y.id = "self"
            new.args.args[0].arg = "self"
        for y in ast.walk(new):
            if hasattr(y, "lineno"):
                y.lineno = at.lineno
                y.end_lineno = getattr(at, "end_lineno", at.lineno)
        return ast.copy_location(new, at)

    for cls in [n for n in ast.walk(tree) if isinstance(n, ast.ClassDef)]:
        out = []
        for st in cls.body:
            tgt, val = None, None
            if isinstance(st, ast.Assign) and len(st.targets) == 1 and isinstance(st.targets[0], ast.Name):
                tgt, val = st.targets[0].id, st.value
            elif isinstance(st, ast.AnnAssign) and isinstance(st.target, ast.Name) and st.value is not None:
                tgt, val = st.target.id, st.value
            if tgt and isinstance(val, ast.Call) and isinstance(val.func, ast.Name) and val.func.id in facts \
                    and not any(isinstance(x, ast.Starred) for x in val.args) and all(k.arg for k in val.keywords):
                fdef, g, s_ = facts[val.func.id]
                params = [x.arg for x in fdef.args.posonlyargs + fdef.args.args]
                mapping = dict(zip(params, val.args))
                mapping.update({k.arg: k.value for k in val.keywords})
                dflt = dict(zip(params[len(params) - len(fdef.args.defaults):], fdef.args.defaults)) if fdef.args.defaults else {}
                for p_, d_ in dflt.items():
                    mapping.setdefault(p_, d_)
                if all(p_ in mapping for p_ in params):
                    out.append(build(g, tgt, mapping, [ast.Name(id="property", ctx=ast.Load())], st))
                    if s_ is not None:
                        out.append(build(s_, tgt, mapping, [ast.Attribute(value=ast.Name(id=tgt, ctx=ast.Load()), attr="setter", ctx=ast.Load())], st))
                    continue
            out.append(st)
        cls.body = out
    ast.fix_missing_locations(tree)
    return tree


class _N5(ast.NodeTransformer):
    """N5: a loop over a literal tuple of tuples whose loop variable is *called* in the body (`for add, table in ((e.add_a, A), (e.add_b, B)):
    ... add(k, v)`) is a statement list written as data: it is unrolled, so that every engine sees `e.add_a(k, v)` on the element
    it is called on (freshness, effects and types are decided per receiver)."""

    def visit_FunctionDef(self, fn):
        self.generic_visit(fn)
        from .desugar import _D, literal_bindings

        def called_targets(lp):
            names = {x.id for x in ast.walk(lp.target) if isinstance(x, ast.Name)}
            return any(isinstance(c, ast.Call) and isinstance(c.func, ast.Name) and c.func.id in names for b in lp.body for c in ast.walk(b))

        class U(ast.NodeTransformer):
            def _blk(self_, stmts):
                out = []
                for st in stmts:
                    for fld in ("body", "orelse", "finalbody"):
                        b = getattr(st, fld, None)
                        if isinstance(b, list) and b and isinstance(b[0], ast.stmt) and not isinstance(st, (ast.FunctionDef, ast.AsyncFunctionDef, ast.ClassDef)):
                            setattr(st, fld, self_._blk(b))
                    for h in getattr(st, "handlers", []) or []:
                        h.body = self_._blk(h.body)
                    if isinstance(st, ast.For) and isinstance(st.iter, (ast.Tuple, ast.List)) and not st.orelse and called_targets(st):
                        d = _D()
                        d.lits, d.gens = literal_bindings(fn), {}
                        r = d.visit_For(st)
                        if isinstance(r, list):
                            out.extend(r)
                            continue
                        st = r
                    out.append(st)
                return out

        fn.body = U()._blk(fn.body)
        return fn

    visit_AsyncFunctionDef = visit_FunctionDef


class _N6(ast.NodeTransformer):
    """N6: `getattr(o, "name")` / `setattr(o, "name", v)` with a literal identifier are the attribute access they perform (they appear
    when a property factory is specialised to one attribute name)."""

    @staticmethod
    def _lit(e):
        return isinstance(e, ast.Constant) and isinstance(e.value, str) and e.value.isidentifier()

    def visit_Call(self, n):
        self.generic_visit(n)
        if isinstance(n.func, ast.Name) and n.func.id == "getattr" and len(n.args) == 2 and not n.keywords and self._lit(n.args[1]):
            return ast.copy_location(ast.Attribute(value=n.args[0], attr=n.args[1].value, ctx=ast.Load()), n)
        return n

    def visit_Expr(self, st):
        v = st.value
        if isinstance(v, ast.Call) and isinstance(v.func, ast.Name) and v.func.id == "setattr" and len(v.args) == 3 and not v.keywords \
                and self._lit(v.args[1]):
            return ast.copy_location(ast.Assign(targets=[ast.Attribute(value=self.visit(v.args[0]), attr=v.args[1].value, ctx=ast.Store())],
                                                value=self.visit(v.args[2]), type_comment=None), st)
        return self.generic_visit(st)


class _N7(ast.NodeTransformer):
    """N7: `with contextlib.suppress(E): BODY`  ->  `try: BODY` / `except E: pass` (what the context manager does)."""

    def visit_With(self, n):
        self.generic_visit(n)
        if len(n.items) == 1 and n.items[0].optional_vars is None and isinstance(n.items[0].context_expr, ast.Call):
            c = n.items[0].context_expr
            if ast.unparse(c.func) in ("contextlib.suppress", "suppress") and c.args and not c.keywords:
                typ = c.args[0] if len(c.args) == 1 else ast.Tuple(elts=list(c.args), ctx=ast.Load())
                h = ast.ExceptHandler(type=typ, name=None, body=[ast.copy_location(ast.Pass(), n)])
                return ast.copy_location(ast.Try(body=n.body, handlers=[ast.copy_location(h, n)], orelse=[], finalbody=[]), n)
        return n


class _N8(ast.NodeTransformer):
    """N8: a `match` over value patterns (constants, dotted names, alternatives of those, a final wildcard) is the if / elif
    chain testing the subject for membership: `case A | B: S` -> `if x in (A, B): S`.  Other patterns (captures, sequences,
    classes, guards) are left as they are."""

    def visit_Match(self, node):
        self.generic_visit(node)
        subj = node.subject
        if not isinstance(subj, (ast.Name, ast.Attribute)):
            return node

        def values(p):
            if isinstance(p, ast.MatchValue):
                return [p.value]
            if isinstance(p, ast.MatchSingleton):
                return [ast.Constant(value=p.value)]
            if isinstance(p, ast.MatchOr):
                out = []
                for q in p.patterns:
                    v = values(q)
                    if v is None:
                        return None
                    out += v
                return out
            return None

        arms = []
        for i, c in enumerate(node.cases):
            if c.guard is not None:
                return node
            if isinstance(c.pattern, ast.MatchAs) and c.pattern.pattern is None and c.pattern.name is None and i == len(node.cases) - 1:
                arms.append((None, c.body))
                continue
            v = values(c.pattern)
            if v is None:
                return node
            arms.append((v, c.body))
        import copy

        chain = None
        for v, body in reversed(arms):
            if v is None:
                chain = list(body)
                continue
            if len(v) == 1:
                test = ast.Compare(left=copy.deepcopy(subj), ops=[ast.Is() if isinstance(v[0], ast.Constant) and v[0].value is None else ast.Eq()],
                                   comparators=[v[0]])
            else:
                test = ast.Compare(left=copy.deepcopy(subj), ops=[ast.In()], comparators=[ast.Tuple(elts=v, ctx=ast.Load())])
            chain = [ast.copy_location(ast.If(test=test, body=list(body), orelse=chain or []), node)]
        return chain[0] if chain and len(chain) == 1 and isinstance(chain[0], ast.If) else (chain or node)


def normalise(tree):
    if os.environ.get("VERIF_NO_NORMALISE"):
        return tree
    tree = _N8().visit(tree)
    tree = _N7().visit(tree)
    tree = _materialise_property_factories(tree)
    tree = _N().visit(tree)
    tree = _N5().visit(tree)
    tree = _N6().visit(tree)
    ast.fix_missing_locations(tree)
    return tree
