"""C17 mutants."""

MUTANTS = [
    ("textbox-no-recalc", "add_textbox no longer recalculates",
     [("src/pptx/shapes/shapetree.py", "        sp = self._add_textbox_sp(left, top, width, height)\n        self._recalculate_extents()\n", "        sp = self._add_textbox_sp(left, top, width, height)\n")],
     "R17.1 _BaseGroupShapes.add_textbox"),
    ("picture-recalc-conditional", "add_picture recalculates only when a size was given",
     [("src/pptx/shapes/shapetree.py", "        pic = self._add_pic_from_image_part(image_part, rId, left, top, width, height)\n        self._recalculate_extents()",
       "        pic = self._add_pic_from_image_part(image_part, rId, left, top, width, height)\n        if width is not None:\n            self._recalculate_extents()")],
     "R17.1 _BaseGroupShapes.add_picture"),
    ("recalc-before-insert", "add_connector recalculates before inserting",
     [("src/pptx/shapes/shapetree.py", "        cxnSp = self._add_cxnSp(connector_type, begin_x, begin_y, end_x, end_y)\n        self._recalculate_extents()",
       "        self._recalculate_extents()\n        cxnSp = self._add_cxnSp(connector_type, begin_x, begin_y, end_x, end_y)")],
     "R17.1 _BaseGroupShapes.add_connector"),
    ("group-hook-noop", "GroupShapes._recalculate_extents does nothing",
     [("src/pptx/shapes/shapetree.py", "        self._grpSp.recalculate_extents()\n\n\nclass SlideShapes", "        pass\n\n\nclass SlideShapes")],
     "R17.2 GroupShapes._recalculate_extents"),
    ("no-upward-recursion", "recalculate_extents stops at the group itself",
     [("src/pptx/oxml/shapes/groupshape.py", "        self.getparent().recalculate_extents()\n", "")],
     "R17.2 CT_GroupShape.recalculate_extents"),
    ("freeform-fix-reverted", "convert_to_shape no longer recalculates",
     [("src/pptx/shapes/freeform.py", "        self._shapes._recalculate_extents()  # pyright: ignore[reportPrivateUsage]\n", "")],
     "R17.1 FreeformBuilder.convert_to_shape"),
]

CN = "src/pptx/shapes/connector.py"
MUTANTS += [
    ("recalc-early-return", "recalculate_extents returns early when nothing changed",
     [("src/pptx/oxml/shapes/groupshape.py", "        x, y, cx, cy = self._child_extents\n\n        self.chOff.x = self.x = x",
       "        x, y, cx, cy = self._child_extents\n        if (x, y) == (self.x, self.y):\n            return\n\n        self.chOff.x = self.x = x")],
     "R17.2 CT_GroupShape.recalculate_extents"),
    ("choff-not-updated", "child offset keeps its old x",
     [("src/pptx/oxml/shapes/groupshape.py", "        self.chOff.x = self.x = x", "        self.x = x")],
     "R17.2 CT_GroupShape.recalculate_extents"),
    ("dx-ignores-moveto", "_dx ignores move-to points",
     [("src/pptx/shapes/freeform.py", "        min_x = max_x = self._start_x\n        for drawing_operation in self:\n            if isinstance(drawing_operation, _Close):\n                continue",
       "        min_x = max_x = self._start_x\n        for drawing_operation in self:\n            if isinstance(drawing_operation, (_Close, _MoveTo)):\n                continue")],
     "R17.3 FreeformBuilder._dx"),
    ("end-x-crossover-keeps-flip", "end_x cross-over does not flip",
     [(CN, "            else:\n                cxnSp.flipH = True\n                cxnSp.x = new_x\n                cxnSp.cx = dx - cx", "            else:\n                cxnSp.x = new_x\n                cxnSp.cx = dx - cx")],
     "R17.4 Connector.end_x"),
    ("begin-x-wrong-branch-test", "begin_x shrink branch tested with the wrong bound",
     [(CN, "        else:\n            dx = abs(new_x - x)\n            if new_x <= x:\n                cxnSp.x = new_x\n                cxnSp.cx = cx + dx\n            elif dx <= cx:\n                cxnSp.x = new_x\n                cxnSp.cx = cx - dx\n            else:\n                cxnSp.flipH = True",
       "        else:\n            dx = abs(new_x - x)\n            if new_x <= x:\n                cxnSp.x = new_x\n                cxnSp.cx = cx + dx\n            elif dx <= cx + 1:\n                cxnSp.x = new_x\n                cxnSp.cx = cx - dx\n            else:\n                cxnSp.flipH = True")],
     "R17.4 Connector.begin_x"),
    ("end-y-position-kept", "end_y grow branch forgets to move y",
     [(CN, "            dy = abs(new_y - y)\n            if new_y <= y:\n                cxnSp.y = new_y\n                cxnSp.cy = cy + dy\n            elif dy <= cy:\n                cxnSp.y = new_y\n                cxnSp.cy = cy - dy\n            else:\n                cxnSp.flipV = False",
       "            dy = abs(new_y - y)\n            if new_y <= y:\n                cxnSp.cy = cy + dy\n            elif dy <= cy:\n                cxnSp.y = new_y\n                cxnSp.cy = cy - dy\n            else:\n                cxnSp.flipV = False")],
     "R17.4 Connector.end_y"),
]

GSF = "src/pptx/oxml/shapes/groupshape.py"
MUTANTS += [
    ("child-extents-width-is-right-edge", "group width is the right-most edge, not the distance from the left edge",
     [(GSF, "        cx = max_x - min_x\n", "        cx = max_x\n")],
     "R17.2 CT_GroupShape._child_extents"),
    ("child-extents-bottom-from-y-only", "the bottom edge ignores member heights",
     [(GSF, "        max_y = max([(xSp.y + xSp.cy) for xSp in child_shape_elms])", "        max_y = max([xSp.y for xSp in child_shape_elms])")],
     "R17.2 CT_GroupShape._child_extents"),
    ("child-extents-swapped-components", "recalculate_extents takes the size for the position",
     [(GSF, "        x, y, cx, cy = self._child_extents\n", "        cx, cy, x, y = self._child_extents\n")],
     "R17.2 CT_GroupShape.recalculate_extents"),
]

MUTANTS += [
    ("child-extents-skip-zero-extent-members", "members with a zero width or height are left out of the group's bounding box",
     [(GSF, "        child_shape_elms = list(self.iter_shape_elms())\n", "        child_shape_elms = [xSp for xSp in self.iter_shape_elms() if xSp.cx and xSp.cy]\n")],
     "R17.2 CT_GroupShape._child_extents"),
]

MUTANTS += [
    ("left-rounds-half-up-by-truncation", "the freeform's left is rounded as int(x + 0.5)",
     [("src/pptx/shapes/freeform.py", "        return int(round(self.shape_offset_x * self._x_scale))", "        return int(self.shape_offset_x * self._x_scale + 0.5)")],
     "R17.4 FreeformBuilder._left"),
]
