"""C10 — a child is inserted where the schema allows it, whatever siblings exist.

Rules
  R10.mech   structural shape of the xmlchemy mechanism (selects tag-order / doc-order semantics)
  R10.succ   every successors declaration x schema type x child tag, on every bounded context
  R10.inschema every declared child belongs to at least one schema type served by its class
  R10.single single-occurrence premise of the completeness argument per schema type
  R10.raw    hand-written insertion sites (append / insert / addprevious / addnext /
             insert_element_before with literal tags) incl. overrides of generated methods
  R10.card   cardinality clauses (get_or_add overrides guard; group remover covers the group)
  R10.excl   an alternative of a schema choice is added only after its declared exclusive siblings were removed
"""

from __future__ import annotations

import os
import time
from concurrent.futures import ProcessPoolExecutor

from sa.contexts import ContextEnumerator, insertion_index
from sa.pysrc import Program
from sa.report import AnalysisError
from sa.xmlchemy_model import Model, choice_prop
from sa.xsd import ANY, Schemas

_G = {}


def load(repo):
    if repo not in _G:
        prog = Program(repo)
        S = Schemas(repo, prog.nsmap)
        M = Model(prog)
        _G[repo] = (prog, S, M)
    return _G[repo]


def complex_types_for(S, clark):
    return sorted(t for t in S.elem_decls.get(clark, ()) if t in S.ctypes)


def decide(S, tq, child, successors, semantics, bound, stats=None):
    """Return list of failing contexts (v, idx, valid) for one obligation; [] if discharged."""
    en = ContextEnumerator(S, tq, child)
    fails = []
    seen = set()
    nctx = 0
    seeds = [("seed", w) for w in en.seeds(bound)] + en.families()
    for label, w in seeds:
        for v in en.completions(tuple(w)):
            if v in seen:
                continue
            seen.add(v)
            valid = en.valid_positions(v)
            if not valid:
                continue
            nctx += 1
            idx = insertion_index(v, successors, semantics)
            if idx not in valid:
                fails.append((v, idx, valid))
    if stats is not None:
        stats["contexts"] = nctx
    return fails


def diagnose(S, v, idx, valid, child, successors):
    """Classify one failing context; returns (kind, culprit-tag)."""
    lo, hi = min(valid), max(valid)
    if idx > hi:
        # placed after v[hi] which must follow the child: later sibling not found as a successor
        x = v[hi]
        if x in successors:
            return ("order-sensitive", S.pfx(x))
        local = x.split("}")[-1]
        for s in successors:
            if s.split("}")[-1] == local and s != x:
                return ("foreign-namespace", "%s (listed as %s)" % (S.pfx(x), S.pfx(s)))
        return ("missing-successor", S.pfx(x))
    if idx < lo:
        y = v[idx]
        return ("wrong-successor", S.pfx(y))
    return ("order-sensitive", S.pfx(v[idx]) if idx < len(v) else "-")


def _work(args):
    repo, items, semantics, bound = args
    prog, S, M = load(repo)
    out = []
    for (tq, child, successors, ident) in items:
        stats = {}
        fails = decide(S, tq, child, successors, semantics, bound, stats)
        res = []
        for v, idx, valid in fails[:200]:
            res.append((v, idx, valid, diagnose(S, v, idx, valid, child, successors)))
        out.append((ident, stats.get("contexts", 0), len(fails), res))
    return out


def obligations(prog, S, M, ctx=None):
    """Enumerate (class, tag, type, decl, child-tag) obligations and 'not in schema' findings."""
    obs = []
    unconstrained = []
    not_in_schema = []
    by_class = {}
    for tag, cls, mod, line in M.registry:
        by_class.setdefault(cls, []).append(tag)
    for cls, tags in by_class.items():
        decls = [d for d in M.child_decls(cls) if d.kind != "OneAndOnlyOne"]
        covered = {}
        for d in decls:
            for ct in d.tags:
                covered[(d.prop, ct)] = False
        for tag in tags:
            clark = prog.qn(tag)
            types = complex_types_for(S, clark)
            for tq in types:
                sigma = set(S.alphabet(tq))
                if S.has_any(tq) and not sigma:
                    for d in decls:
                        for ct in d.tags:
                            covered[(d.prop, ct)] = True
                            unconstrained.append((cls.name, d.prop, ct, S.tname(tq)))
                    continue
                for d in decls:
                    for ct in d.tags:
                        cq = prog.qn(ct)
                        if cq in sigma:
                            covered[(d.prop, ct)] = True
                            obs.append((cls, tag, tq, d, ct))
        for d in decls:
            for ct in d.tags:
                if not covered[(d.prop, ct)]:
                    not_in_schema.append((cls, d, ct, tags))
    return obs, unconstrained, not_in_schema


def run(ctx):
    t0 = time.time()
    prog, S, M = load(ctx.repo)
    from sa.xmlchemy_model import ALL_PARTS, mechanism_gate  # noqa: F401

    mechanism_gate(ctx, M, ALL_PARTS)
    for m in prog.modules.values():
        if "/oxml/" in m.path or m.path.endswith("opc/oxml.py"):
            ctx.note_file(m.path)
    for f in S.files:
        ctx.note_file(f)
    bound = 2 if ctx.tier == "quick" else 3
    ctx.level = "proof"
    ctx.trusted = [
        "CPython ast / xml.etree parsers",
        "ISO/IEC 29500-4 transitional and OPC XSDs under /repo/spec as the oracle",
        "lxml semantics of find/addprevious/append (modelled: child inserted immediately before the found sibling, else last)",
        "structural recognition of xmlchemy.insert_element_before/first_child_found_in (re-verified on every run, rule R10.mech)",
        "lxml class lookup is by tag only: each registered tag is checked against every schema type declaring an element of that name",
    ]
    ctx.explanation = (
        "Every child-element declaration (successors tuple) of every registered element class is decided "
        "against every schema type declaring the registered tag: the abstract inserter (%s semantics, "
        "recognised from xmlchemy.py) is run on every sibling context made of the elements the schema requires "
        "plus up to %d further siblings (all shortest required-completions, plus the all-later / all-earlier / "
        "all-permitted families) and the result must be accepted by the content-model automaton. Sufficiency of the "
        "bound rests on the single-occurrence premise (rule R10.single), checked per type on this run."
        % (M.semantics, bound)
    )
    ctx.not_decided = ["cardinality under histories of several additions (e.g. two _add_x of a maxOccurs=1 child)"]

    # -- R10.mech ------------------------------------------------------------------------------
    ctx.rule("R10.mech", "xmlchemy mechanism has the recognised shape (insert before first successor "
                         "else append; get_or_add guarded; remove removes all; change_to removes group then adds)")
    xm = prog.modules["pptx.oxml.xmlchemy"]
    if M.mechanism_problems:
        for sev, where, what in M.mechanism_problems:
            f, _, l = where.partition(":")
            ctx.violation("R10.mech", "xmlchemy:" + what.split(" ")[0], what, file=f, line=l)
    else:
        ctx.ok("R10.mech", "xmlchemy", sample={"semantics": M.semantics, "file": xm.relpath})
    ctx.count("registrations", len(M.registry))
    _shared_descriptors(ctx, prog, M)
    _creator_overrides(ctx, prog, M)

    obs, unconstrained, not_in_schema = obligations(prog, S, M)
    ndecl = sum(len([d for d in M.own_decls(c)[0] if d.kind != "OneAndOnlyOne"]) for c in M.oxml_classes())
    ctx.count("inserter_declarations", ndecl)
    ctx.count("succ_obligations", len(obs))

    # -- R10.inschema --------------------------------------------------------------------------
    ctx.rule("R10.inschema", "each declared child tag is a child of some schema type served by the class")
    reported = set()
    for cls, d, ct, tags in not_in_schema:
        if not tags:
            continue
        key = "%s.%s[%s]" % (cls.name, d.prop, ct)
        if key in reported:
            continue
        reported.add(key)
        ctx.violation("R10.inschema", key,
                      "child %s is not an element of any schema type of %s" % (ct, "/".join(tags)),
                      file=d.cls.file, line=d.line)
    seen_ok = set()
    for cls, tag, tq, d, ct in obs:
        k = (cls.name, d.prop, ct)
        if k not in seen_ok:
            seen_ok.add(k)
            ctx.ok("R10.inschema", "%s.%s[%s]" % k, nontrivial=False)
    for u in unconstrained[:5]:
        ctx.info("R10.inschema", "unconstrained (xsd:any content): %s.%s %s in %s" % u)

    # -- R10.single ----------------------------------------------------------------------------
    ctx.rule("R10.single", "content model is a single-occurrence expression (premise of the context bound)")
    types = sorted({tq for _, _, tq, _, _ in obs})
    non_single = []
    for tq in types:
        if S.single_occurrence(tq):
            ctx.ok("R10.single", S.tname(tq), nontrivial=True)
        else:
            non_single.append(tq)
            ctx.ok("R10.single", S.tname(tq))
            ctx.info("R10.single", "%s is not single-occurrence: bound raised to 4 for it" % S.tname(tq))
    ctx.count("schema_types", len(types))

    # -- R10.succ ------------------------------------------------------------------------------
    ctx.rule("R10.succ", "generated _insert_x places the child at a schema-valid position in every context")
    items = []
    meta = {}
    explicit = []
    for i, (cls, tag, tq, d, ct) in enumerate(obs):
        p = choice_prop(ct) if d.kind == "ZeroOrOneChoice" else d.prop
        eff = M.effective(cls, "_insert_" + p)
        if eff is None:
            raise AnalysisError("no effective _insert_%s on %s" % (p, cls.name))
        if eff[0] == "explicit":
            explicit.append((cls, tag, tq, d, ct, eff[1]))
            continue
        decl = eff[1]
        succ = tuple(prog.qn(s) for s in decl.successors)
        b = 4 if tq in non_single else bound
        items.append(((tq, prog.qn(ct), succ, i), b))
        meta[i] = (cls, tag, tq, decl, ct)
    # group work by type for cache locality, spread over workers
    by_type = {}
    for (it, b) in items:
        by_type.setdefault((it[0], b), []).append(it)
    chunks = sorted(by_type.items(), key=lambda kv: -len(S.alphabet(kv[0][0])) ** 2 * len(kv[1]))
    jobs = [(ctx.repo, its, M.semantics, b) for (tq, b), its in chunks]
    results = []
    nproc = min(16, os.cpu_count() or 1, max(1, len(jobs)))
    if nproc > 1 and len(items) > 40 and not os.environ.get("VERIF_NO_POOL"):
        with ProcessPoolExecutor(nproc) as ex:
            for r in ex.map(_work, jobs, chunksize=1):
                results.extend(r)
    else:
        for j in jobs:
            results.extend(_work(j))
    total_ctx = 0
    agg = {}
    for ident, nctx, nfail, res in results:
        cls, tag, tq, decl, ct = meta[ident]
        total_ctx += nctx
        name = "%s.%s" % (decl.cls.name, decl.prop)
        if nfail == 0:
            ctx.ok("R10.succ", "%s[%s]@%s" % (name, ct, S.tname(tq)),
                   sample={"class": cls.name, "child": ct, "type": S.tname(tq), "contexts": nctx,
                           "successors": list(decl.successors), "verdict": "ok"})
            continue
        a = agg.setdefault(name, dict(decl=decl, kinds={}, wit=None, cls=cls, n=0, types=set(), tags=set()))
        a["n"] += nfail
        a["types"].add(S.tname(tq))
        a["tags"].add(ct)
        for v, idx, valid, (kind, culprit) in res:
            a["kinds"].setdefault(kind, set()).add(culprit)
            if a["wit"] is None or len(v) < len(a["wit"][0]):
                a["wit"] = (v, idx, valid, ct, S.tname(tq))
    for name, a in sorted(agg.items()):
        decl = a["decl"]
        parts = []
        for kind in sorted(a["kinds"]):
            parts.append("%s{%s}" % (kind, ",".join(sorted(a["kinds"][kind]))))
        key = "%s:%s" % (name, ";".join(parts))
        v, idx, valid, ct, tn = a["wit"]
        res = list(v[:idx]) + ["<<" + ct + ">>"] + list(v[idx:])
        ctx.violation(
            "R10.succ", key,
            "inserting %s into %s: %s" % ("/".join(sorted(a["tags"])), "/".join(sorted(a["types"])), "; ".join(parts)),
            file=decl.cls.file, line=decl.line,
            witness="context [%s] -> [%s] (valid index %s)" % (
                ", ".join(S.pfx(x) for x in v), ", ".join(S.pfx(x) if not x.startswith("<<") else x for x in res),
                valid),
            sample={"class": decl.cls.name, "prop": decl.prop, "failing_contexts": a["n"]})
    ctx.count("contexts", total_ctx)
    ctx.extra["contexts_enumerated"] = total_ctx
    ctx.extra["context_bound"] = bound
    ctx.extra["insertion_semantics"] = M.semantics
    ctx.extra["explicit_inserter_obligations"] = len(explicit)

    from checks import c10_sites

    c10_sites.run(ctx, prog, S, M, explicit)
    c10_sites.run_excl(ctx, prog, S, M, c10_sites.LAST_T)


def _shared_descriptors(ctx, prog, M):
    import ast

    from sa.pysrc import dotted

    """A declaration object keeps per-class state: `Choice.populate_class_members` stores the successors of the group it is placed in
    on the Choice object itself, and the generated `_insert_<x>` reads them when it is called.  A Choice object (or a tuple of them)
    defined once at module level and handed to the choice groups of several classes therefore ends up with the successors of the
    class whose body ran last; the other classes insert that member in front of the wrong siblings."""
    ctx.rule("R10.shared", "no Choice object is shared between choice groups that have different successors")
    xm = prog.modules.get("pptx.oxml.xmlchemy")
    ch = xm.classes.get("Choice") if xm else None
    pm = ch.methods.get(getattr(M, "choice_populator", "populate_class_members")) if ch else None
    keeps = pm is not None and any(isinstance(n, ast.Assign) and dotted(n.targets[0]) == "self._successors" for n in ast.walk(pm.node))
    users = {}   # (module name, name) -> [(class, prop, successors, node)]
    ngroups = 0
    for c in M.oxml_classes():
        decl = {d.prop: d for d in M.own_decls(c)[0] if d.kind == "ZeroOrOneChoice"}
        for name, expr, node in c.body_assigns:
            if name not in decl or not isinstance(expr, ast.Call):
                continue
            ngroups += 1
            a0 = expr.args[0] if expr.args else next((k.value for k in expr.keywords if k.arg == "choices"), None)
            refs = []
            if isinstance(a0, (ast.Name, ast.Attribute)) and dotted(a0):
                refs.append(dotted(a0))
            elif isinstance(a0, (ast.Tuple, ast.List)):
                refs += [dotted(e) for e in a0.elts if isinstance(e, (ast.Name, ast.Attribute)) and dotted(e)]
                refs += [dotted(e.value) for e in a0.elts if isinstance(e, ast.Starred) and dotted(e.value)]
            elif isinstance(a0, ast.BinOp):
                refs += [dotted(e) for e in ast.walk(a0) if isinstance(e, (ast.Name, ast.Attribute)) and dotted(e)]
            for r in refs:
                tgt = prog.resolve(c.module, r)
                if isinstance(tgt, tuple) and tgt and tgt[0] == "expr":
                    users.setdefault((tgt[1].name, r.split(".")[-1]), []).append((c, name, tuple(decl[name].successors or ()), node))
    ctx.count("choice_groups", ngroups)
    for (mod, nm), us in sorted(users.items()):
        key = "%s.%s" % (mod, nm)
        if len(us) < 2:
            ctx.ok("R10.shared", key, nontrivial=False)
            continue
        succs = {u[2] for u in us}
        if len(succs) > 1 and keeps:
            last = us[-1]
            ctx.violation("R10.shared", key, "the Choice objects of `%s` are handed to the choice groups of %s, whose successors differ; a Choice keeps "
                          "the successors of the last group it was placed in, so the inserters of the other classes put the member in front "
                          "of the wrong siblings (schema order is lost)" % (nm, ", ".join("%s.%s" % (u[0].name, u[1]) for u in us)),
                          file=last[0].file, line=last[3].lineno)
        elif len(succs) > 1:
            ctx.error(key, "Choice objects shared between groups with different successors, and where Choice keeps its successors is not recognised")
        else:
            ctx.ok("R10.shared", key, sample={"shared_by": ["%s.%s" % (u[0].name, u[1]) for u in us], "successors": "identical"})
    ctx.ok("R10.shared", "choice groups", sample={"groups": ngroups, "module_level_choice_tables": len(users)})


def _creator_overrides(ctx, prog, M):
    """The generated `_add_<x>` / `get_or_add_<x>` insert whatever `_new_<x>()` returns at the position of the declared child <x>.  A
    hand-written `_new_<x>` therefore has to return an element with the declared tag: an element of another tag (say `p:txBody` where
    `a:txBody` is declared) is inserted all the same, is never found again by the getter, and each access adds one more."""
    import ast

    from sa.pysrc import dotted
    from sa.strabs import S as AS
    from sa.strabs import StrEval
    from sa.types import FCtx, Types
    from sa.xmlskel import skeleton

    ctx.rule("R10.creator", "a hand-written _new_<child>() returns an element that has the tag of the declared child")
    T = Types(prog, M)
    n_over, n_dec = 0, 0
    for c in M.oxml_classes():
        decls = {}
        for k in reversed(prog.mro(c)):
            if M.is_oxml_class(k):
                for d in M.own_decls(k)[0]:
                    for t in d.tags:
                        decls[choice_prop(t) if d.kind == "ZeroOrOneChoice" else d.prop] = t
        for name, f in c.methods.items():
            if not name.startswith("_new_") or name[5:] not in decls:
                continue
            n_over += 1
            want = prog.qn(decls[name[5:]])
            key = "%s.%s" % (c.name, name)
            tags = set()
            undec = False
            for r in [x for x in ast.walk(f.node) if isinstance(x, ast.Return) and x.value is not None]:
                v = r.value
                while isinstance(v, ast.Call) and dotted(v.func) == "cast" and len(v.args) == 2:
                    v = v.args[1]
                if isinstance(v, ast.Name):
                    from sa import paths as P_

                    v = P_.value_aliases(f.node).get(v.id, v)
                    while isinstance(v, ast.Call) and dotted(v.func) == "cast" and len(v.args) == 2:
                        v = v.args[1]
                if isinstance(v, ast.Call) and dotted(v.func) == "OxmlElement" and v.args:
                    t = prog.const(v.args[0], f.module)
                    if isinstance(t, str):
                        tags.add(prog.qn(t))
                        continue
                ev = StrEval(prog, T)
                try:
                    env = {f.params[0]: ("self", c)} if f.params else {}
                    val = ev.eval(v, FCtx(f, c), env)
                except Exception:  # noqa: BLE001
                    val = None
                if isinstance(val, tuple) and val and val[0] == "parsed" and isinstance(val[1], AS) and not ev.unknown:
                    try:
                        sk = skeleton(val[1], prog.nsmap)
                    except Exception:  # noqa: BLE001
                        sk = None
                    if sk is not None and len(sk.roots) == 1 and sk.roots[0].kind == "elem":
                        tags.add(sk.roots[0].tag)
                        continue
                undec = True
            if tags and tags != {want}:
                ctx.violation("R10.creator", key, "%s returns an element <%s>, but the child it creates is declared as <%s>: the inserted element "
                              "is not the declared child (the getter does not find it, get_or_add adds another one each time)" % (
                                  key, ", ".join(sorted(next((p_ + ":" for p_, u_ in prog.nsmap.items() if "{" + u_ + "}" == t[:t.find("}") + 1]), "") + t.split("}")[-1] for t in tags - {want})), decls[name[5:]]), file=f.file, line=f.line)
            elif tags and not undec:
                n_dec += 1
                ctx.ok("R10.creator", key, sample={"creates": decls[name[5:]]})
            else:
                ctx.ok("R10.creator", key, nontrivial=False)   # the created element's tag is not evaluated here (typed by C03's template rules)
    ctx.count("creator_overrides", n_over)
    ctx.count("creator_overrides_decided", n_dec)
