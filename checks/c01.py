"""C01 — open/save preserves every reachable part and relationship (decidable clauses).

Rules
  R1.1  content types survive: the writer's Default/Override decision gives every part exactly one declaration and never lets
        two parts with one extension but different types share a Default (either the Default table is a function
        extension -> type, or the writer falls back to an Override when the extension is already taken by another type);
        the reader resolves Override before Default; both sides normalise case the same way
  R1.2  each part / relationship exactly once: iter_parts yields a part only under `not in visited` and then marks it;
        iter_rels yields every relationship of a collection and recurses into a target part only once; save() hands
        the writer tuple(iter_parts()) and the package relationships; the writer writes the content types, the
        package relationships, every part and the relationship item of every part that has relationships
  R1.3  relationships are carried field by field: _Relationships.xml passes (rId, reltype, target_ref, is_external) of every
        key to add_rel; CT_Relationship.new stores the four values into the attributes _Relationship.from_xml reads;
        attribute names agree with opc-relationships.xsd; load_from_xml keeps every relationship except internal ones
        whose target is absent
  R1.4  identity and payload pass through: the loader builds each part from (partname, content_types[partname],
        reader[partname]) with one and the same partname; Part.load / Part.__init__ store the three unchanged and
        partname / content_type / blob return the stored fields; XmlPart parses the blob it was given
  R1.5  relative references come from the path algebra (posixpath.relpath / join + normalisation); no string-prefix test or
        slicing by the length of a directory name
  (byte identity of members, XML equivalence, second-save idempotence: not decided)
"""

from __future__ import annotations

import ast

from sa.fielddeps import stored_from_param
from sa.pysrc import ClassInfo, dotted
from sa.report import AnalysisError
from sa.types import walk_own
from sa import paths as _P


def _calls(node, name):
    return [n for n in ast.walk(node) if isinstance(n, ast.Call) and (dotted(n.func) or "").split(".")[-1] == name]


def content_type_rules(ctx, prog, ser, pk, spec, ox, rid):
    """The Default/Override decision of the writer and its inverse lookup in the reader (shared by C01 R1.1 and C02 R2.7)."""
    dct = prog.const(spec.assigns["default_content_types"], spec) if "default_content_types" in spec.assigns else None
    if not isinstance(dct, tuple):
        raise AnalysisError("default_content_types does not fold")
    by_ext = {}
    for ext, ct in dct:
        by_ext.setdefault(ext, set()).add(ct)
    multi = {e: sorted(v) for e, v in by_ext.items() if len(v) > 1}
    ctx.count("default_rows", len(dct))
    cti = ser.classes.get("_ContentTypesItem")
    dao = cti.methods.get("_defaults_and_overrides") if cti else None
    if dao is None:
        raise AnalysisError("anchor vanished: _ContentTypesItem._defaults_and_overrides")
    # the decision is analysed on the canonical function (helpers and predicates inlined) and on paths: for every path through the
    # loop body, which table receives the part and under which branch decisions
    from sa import paths as P_
    from sa.inline import expand as _expand
    from sa.itersrc import source_of as _src_of

    dx = _expand(prog, dao)
    al = P_.aliases(dx)
    loops = [n for n in ast.walk(dx) if isinstance(n, ast.For) and isinstance(n.target, ast.Name)
             and (_src_of(dx, n.iter)["terminal"] or "") == "self._parts"]
    key = "_ContentTypesItem._defaults_and_overrides"
    if len(loops) != 1:
        ctx.error(key, "loop over self._parts not recognised")
        loops = []
    # the two tables by role: the function returns (defaults, overrides)
    from sa import records as R_

    rets_ = [n.value for n in walk_own(dx) if isinstance(n, ast.Return) and n.value is not None]
    DN = ON = None
    dval_ = P_.value_aliases(dx)
    pair_ = None
    if len(rets_) == 1:
        r0 = rets_[0]
        for _ in range(4):
            if isinstance(r0, ast.Name) and r0.id in dval_:
                r0 = dval_[r0.id]
        pair_ = R_.components(prog, dao.module, r0)   # a tuple display, or a two-field record constructed from the two tables
    if pair_ is not None and len(pair_) == 2 and all(isinstance(e, ast.Name) for e in pair_):
        DN, ON = pair_[0].id, pair_[1].id
    else:
        ctx.error(key, "the returned (defaults, overrides) pair is not recognised")
        loops = []
    ROLE = {DN: "defaults", ON: "overrides"}

    def role_src(src):
        """source text with the two table names written by role"""
        import re as _re
        for nm_, rl_ in ROLE.items():
            if nm_:
                src = _re.sub(r"\b%s\b" % _re.escape(nm_), rl_, src)
        return src

    for lp in loops:
        tgt = lp.target.id
        seeds_src = {}
        rows = []   # (facts, [(table, key-src, value-src)])
        for pth in P_.enum_paths(lp.body):
            if pth.end == "raise":
                continue
            stores = []
            for st in pth.stmts():
                for n in ast.walk(st):
                    if isinstance(n, ast.Assign) and isinstance(n.targets[0], ast.Subscript) and dotted(n.targets[0].value) in ROLE:
                        stores.append((ROLE[dotted(n.targets[0].value)], P_.norm(n.targets[0].slice, al), P_.norm(n.value, al), n.lineno))

            def by_role(a_):
                if a_[0] == "or":
                    return ("or", tuple(tuple(by_role(x) for x in alt) for alt in a_[1]))
                return tuple(role_src(x) if isinstance(x, str) else x for x in a_)
            rows.append(([by_role(a_) for a_ in P_.facts(pth, None, al)], stores, pth))
        probs_total, probs_own, probs_table, probs_conf = [], [], [], []
        n_def = 0
        for fs, stores, pth in rows:
            if len(stores) != 1:
                probs_total.append("a path through the loop stores %d declarations for a part (must be exactly one)" % len(stores))
                continue
            tbl, ksrc, vsrc, ln = stores[0]
            if vsrc != tgt + ".content_type" or ksrc != (tgt + ".partname.ext" if tbl == "defaults" else tgt + ".partname"):
                probs_own.append("%s[%s] = %s is not keyed by the part's own %s with its own type" % (tbl, ksrc, vsrc, "extension" if tbl == "defaults" else "name"))
            if tbl == "defaults":
                n_def += 1
                in_table = any(a_[0] == "in" and a_[2] == "default_content_types" and a_[3] is True for a_ in fs)
                if not in_table:
                    probs_table.append("a Default is stored on a path that has not established (extension, type) in default_content_types")
                ext = tgt + ".partname.ext"

                def free_or_same(fs_):
                    for a_ in fs_:
                        if a_[0] == "in" and a_[1] == ext and a_[2] == "defaults" and a_[3] is False:
                            return True
                        if (a_[0] == "cmp" and a_[1] in ("Eq", "NotEq") and a_[4] is (a_[1] == "Eq")
                                and {a_[2], a_[3]} in ({"defaults[%s]" % ext, tgt + ".content_type"}, {"defaults.get(%s)" % ext, tgt + ".content_type"})):
                            return True
                        if a_[0] == "or" and all(free_or_same(alt) for alt in a_[1]):
                            return True
                    return False

                if multi and not free_or_same(fs):
                    probs_conf.append(ln)
        if not rows:
            ctx.error(key, "no path through the loop body")
        else:
            if probs_total:
                ctx.violation(rid, key + ":total", "; ".join(sorted(set(probs_total))), file=dao.file, line=dao.line)
            else:
                ctx.ok(rid, key + ":total", sample={"paths": len(rows), "each_stores": "exactly one of defaults[ext] / overrides[partname]"})
            if probs_own:
                ctx.violation(rid, key + ":own-values", "; ".join(sorted(set(probs_own))), file=dao.file, line=dao.line)
            else:
                ctx.ok(rid, key + ":own-values", sample={"default": "(part.partname.ext, part.content_type)", "override": "(part.partname, part.content_type)"})
            if probs_table:
                ctx.violation(rid, key + ":table", "; ".join(sorted(set(probs_table))), file=dao.file, line=dao.line)
            elif n_def == 0:
                ctx.error(key, "no path stores a Default")
            else:
                ctx.ok(rid, key + ":table", nontrivial=False)
            if not multi:
                ctx.ok(rid, key + ":conflict", sample={"default_table": "a function extension -> type (%d rows)" % len(dct)})
            elif probs_conf:
                e, v = sorted(multi.items())[0]
                ctx.violation(rid, key + ":conflict", "extension %r has %d listed types (%s) and a Default is stored (line %d) on a path that has neither "
                              "established that the extension is still free nor that its Default already has this type: two .%s parts of "
                              "different listed types share one Default and one of them is re-opened with the other's content type" % (
                                  e, len(v), ", ".join(x.rsplit(".", 2)[-2] + "." + x.rsplit(".", 1)[-1] if x.count(".") > 1 else x for x in v), probs_conf[0], e),
                              file=dao.file, line=probs_conf[0], witness="parts /a/x.%s [%s] and /b/y.%s [%s]" % (e, v[0], e, v[1]))
            else:
                ctx.ok(rid, key + ":conflict", sample={"extensions_with_several_types": multi,
                                                      "writer": "a Default is stored only where the extension is free or already has this type"})
    # pre-seeded defaults must be table rows as well (rels, xml)
    seeds = [n for n in ast.walk(dao.node) if isinstance(n, ast.Call) and dotted(n.func) == "CaseInsensitiveDict"]
    sd = {}
    for c in seeds:
        for k in c.keywords:
            sd[k.arg] = prog.const(k.value, dao.module)
    bad = {k: v for k, v in sd.items() if (k, v) not in set(dct)}
    if seeds and not bad:
        ctx.ok(rid, key + ":seeded-defaults", sample={"seeded": sd})
    elif seeds:
        ctx.violation(rid, key + ":seeded-defaults", "pre-seeded Defaults %s are not rows of the Default table: a part with that "
                      "extension and another type would be misdeclared" % bad, file=dao.file, line=dao.line)
    else:
        ctx.error(key, "construction of the defaults table not recognised")
    # serialisation of the two dicts: every item is emitted
    xmlf = cti.methods.get("_xml")
    emitted = set()
    # which local holds which table: `d, o = self._defaults_and_overrides` (or indexed reads of it / fields of the record it is);
    # the element may be built by a factory of the element class (`CT_Types.from_mappings(*pair)`), read in place
    import copy as _copy

    if xmlf is not None:
        xmlf = _copy.copy(xmlf)
        xmlf.node = _expand(prog, xmlf, depth=2)
    rec_ = R_.producer_record(prog, dao)
    if rec_ is not None and xmlf is not None:
        xmlf.node = R_.TupleView(prog, rec_[0], rec_[1], lambda b: P_.full(b, P_.value_aliases(xmlf.node)) == "self._defaults_and_overrides").visit(xmlf.node)
        ast.fix_missing_locations(xmlf.node)
    xval = P_.value_aliases(xmlf.node) if xmlf else {}
    xrole = {}
    for nm_, v_ in xval.items():
        srcv = P_.full(v_, xval)
        if srcv == "self._defaults_and_overrides[0]":
            xrole[nm_ + ".items"] = "add_default"
        elif srcv == "self._defaults_and_overrides[1]":
            xrole[nm_ + ".items"] = "add_override"
    xrole["self._defaults_and_overrides[0].items"] = "add_default"
    xrole["self._defaults_and_overrides[1].items"] = "add_override"
    for n in walk_own(xmlf.node) if xmlf else []:
        if isinstance(n, ast.For) and isinstance(n.iter, ast.Call) and dotted(n.iter.func) == "sorted" and n.iter.args:
            it = n.iter.args[0]
            if isinstance(it, ast.Call) and ast.unparse(it.func) in xrole:
                callee = xrole[ast.unparse(it.func)]
                names = [e.id for e in n.target.elts] if isinstance(n.target, ast.Tuple) else []
                for st in n.body:  # unconditional: a direct statement of the loop body
                    if isinstance(st, ast.Expr) and isinstance(st.value, ast.Call) and (dotted(st.value.func) or "").split(".")[-1] == callee \
                            and [dotted(a) for a in st.value.args] == names \
                            and not any(isinstance(x, (ast.Continue, ast.Break)) for x in ast.walk(n)):
                        emitted.add(callee)
    if emitted == {"add_default", "add_override"}:
        ctx.ok(rid, "_ContentTypesItem._xml", sample={"emits": "every (ext, type) as Default and every (partname, type) as Override"})
    else:
        ctx.violation(rid, "_ContentTypesItem._xml", "not every computed Default / Override is emitted (found %s)" % sorted(emitted),
                      file=ser.relpath, line=xmlf.line if xmlf else 1)
    # CT_Types.add_default / add_override write the attributes the reader reads
    ctt = ox.classes.get("CT_Types")
    pairs = {}
    for mname, kwmap in (("add_default", {"extension": 0, "contentType": 1}), ("add_override", {"partName": 0, "contentType": 1})):
        f = ctt.methods.get(mname) if ctt else None
        okk = False
        if f is not None:
            params = [a.arg for a in f.node.args.args][1:]
            for c in ast.walk(f.node):
                if isinstance(c, ast.Call) and c.keywords:
                    got = {k.arg: dotted(k.value) for k in c.keywords}
                    okk = got == {k: params[i] for k, i in kwmap.items()}
        pairs[mname] = okk
    if all(pairs.values()):
        ctx.ok(rid, "CT_Types.add_*", sample={"add_default": "extension, contentType", "add_override": "partName, contentType"})
    else:
        ctx.violation(rid, "CT_Types.add_*", "add_default/add_override do not store (key, type) in that order: %s" % pairs,
                      file=ox.relpath, line=ctt.line if ctt else 1)
    # reader
    ctm = pk.classes.get("_ContentTypeMap")
    gi = ctm.methods.get("__getitem__") if ctm else None
    fx = ctm.methods.get("from_xml") if ctm else None
    if not (gi and fx):
        raise AnalysisError("anchor vanished: _ContentTypeMap")
    from sa import paths as P_
    from sa.inline import expand as _expand

    gx = _expand(prog, gi, local_only=True)
    param = gi.node.args.args[1].arg
    O, D = "self._overrides", "self._defaults"
    rows = P_.outcomes(gx.body, P_.aliases(gx))
    gval = P_.value_aliases(gx)

    def rv(r):
        """the returned expression with single-assignment locals written out"""
        return P_.full(r.value, gval) if r.value else r.value

    by_name = [r for r in rows if r.end == "return" and rv(r) in ("%s[%s]" % (O, param), "%s.get(%s)" % (O, param))]
    # (a `.get()` read is the same look-up as far as precedence goes; whether it lowers the key is the API-discipline rule's business)
    by_ext = [r for r in rows if r.end == "return" and rv(r) in ("%s[%s.ext]" % (D, param), "%s.get(%s.ext)" % (D, param), "%s.get(%s.ext, None)" % (D, param))]
    probs = []
    for r in by_ext:
        if not P_.implied(r.facts, lambda a: a[0] == "in" and a[1] == param and a[2] == O and a[3] is False):
            probs.append("a Default is returned on a path that has not established that the part has no Override")
    for r in rows:
        if r.end == "return" and r not in by_name and P_.implied(r.facts, lambda a: a[0] == "in" and a[1] == param and a[2] == O and a[3] is True):
            probs.append("a part with an Override does not get the Override's type")
    missing = [r for r in rows if P_.implied(r.facts, lambda a: a[0] == "in" and a[1] == param and a[2] == O and a[3] is False)
               and P_.implied(r.facts, lambda a: (a[0] == "in" and a[1] == param + ".ext" and a[2] == D and a[3] is False)
                              or (a[0] == "none" and P_.full(a[1], gval) in ("%s.get(%s.ext)" % (D, param), "%s.get(%s.ext, None)" % (D, param))
                                  and a[2] is True))]
    if by_name and by_ext and not probs and missing and all(r.end == "raise" for r in missing):
        ctx.ok(rid, "_ContentTypeMap.__getitem__", sample={"precedence": "Override by part name, then Default by extension, else %s" % missing[0].exc})
    elif probs:
        ctx.violation(rid, "_ContentTypeMap.__getitem__", "reader does not resolve Override (by name) before Default (by extension): %s" % "; ".join(sorted(set(probs))),
                      file=gi.file, line=gi.line)
    elif rows and by_ext and not by_name:
        ctx.violation(rid, "_ContentTypeMap.__getitem__", "reader does not resolve Override (by name) before Default (by extension): no path returns the Override's type",
                      file=gi.file, line=gi.line)
    else:
        ctx.error("_ContentTypeMap.__getitem__", "content-type resolution not recognised (returns %s)" % sorted({str(r.value) for r in rows if r.end == "return"}))
    built = {}
    fx_node = _expand(prog, fx, local_only=True)   # a local `case_insensitive(items)` helper is read in place
    for n in walk_own(fx_node):
        if isinstance(n, ast.Assign) and isinstance(n.value, ast.Call) and dotted(n.value.func) == "CaseInsensitiveDict" and n.value.args:
            ge = n.value.args[0]
            if isinstance(ge, ast.GeneratorExp) and isinstance(ge.elt, ast.Tuple):
                k, v = ge.elt.elts
                lowered = isinstance(k, ast.Call) and isinstance(k.func, ast.Attribute) and k.func.attr == "lower"
                built[n.targets[0].id] = (dotted(k.func.value) if lowered else dotted(k), dotted(v), dotted(ge.generators[0].iter), lowered)
    exp = {"overrides": ("o.partName", "o.contentType", "types_elm.override_lst", True),
           "defaults": ("d.extension", "d.contentType", "types_elm.default_lst", True)}
    # the locals by role: the constructor is called cls(<overrides>, <defaults>)
    ctor_ = [n.value for n in walk_own(fx_node) if isinstance(n, ast.Return) and isinstance(n.value, ast.Call) and len(n.value.args) == 2
             and all(isinstance(a, ast.Name) for a in n.value.args)]
    rn_ = {ctor_[0].args[0].id: "overrides", ctor_[0].args[1].id: "defaults"} if len(ctor_) == 1 else {}
    built = {rn_.get(k, k): v for k, v in built.items()}
    norm = {k: (v[0].split(".")[-1], v[1].split(".")[-1], v[2].split(".")[-1], v[3]) for k, v in built.items()}
    expn = {k: (v[0].split(".")[-1], v[1].split(".")[-1], v[2].split(".")[-1], v[3]) for k, v in exp.items()}
    ret_ok = len(ctor_) == 1 and dotted(ctor_[0].func) in ("cls", "_ContentTypeMap")
    init = ctm.methods.get("__init__")
    init_ok = init is not None and [a.arg for a in init.node.args.args][1:3] == ["overrides", "defaults"] and \
        stored_from_param(init, "_overrides") == "overrides" and stored_from_param(init, "_defaults") == "defaults"
    if norm == expn and ret_ok and init_ok:
        ctx.ok(rid, "_ContentTypeMap.from_xml", sample={"overrides": "lower-cased PartName -> ContentType over every Override",
                                                           "defaults": "lower-cased Extension -> ContentType over every Default"})
    else:
        ctx.violation(rid, "_ContentTypeMap.from_xml", "reader maps are not (lower-cased key -> ContentType) over all Override / Default "
                      "elements in (overrides, defaults) order: %s ret=%s init=%s" % (norm, ret_ok, init_ok), file=fx.file, line=fx.line)
    # case-insensitive dict: the three accessors lower the key
    sh = prog.modules.get("pptx.opc.shared")
    cid = sh.classes.get("CaseInsensitiveDict") if sh else None
    if cid is None:
        raise AnalysisError("anchor vanished: CaseInsensitiveDict")
    lowered = {}
    for mname in ("__contains__", "__getitem__", "__setitem__"):
        f = cid.methods.get(mname)
        if f is None:
            lowered[mname] = False
            continue
        fx_ = _expand(prog, f, local_only=True)
        kp = f.node.args.args[1].arg
        fal_ = P_.value_aliases(fx_)

        def is_lowered(e):
            if isinstance(e, ast.Name) and e.id in fal_ and e.id != kp:
                e = fal_[e.id]
            return isinstance(e, ast.Call) and isinstance(e.func, ast.Attribute) and e.func.attr in ("lower", "casefold") and dotted(e.func.value) == kp

        # the underlying dict operation receives the lowered key and never the raw one
        base_calls = [c for c in ast.walk(fx_) if isinstance(c, ast.Call) and isinstance(c.func, ast.Attribute) and c.func.attr == mname]
        lowered[mname] = bool(base_calls) and all(any(is_lowered(x) for x in c.args) and not any(dotted(x) == kp for x in c.args) for c in base_calls)
    if all(lowered.values()):
        ctx.ok(rid, "CaseInsensitiveDict", sample={"lowered_in": sorted(lowered)})
    else:
        ctx.violation(rid, "CaseInsensitiveDict", "lookup, membership and store do not all lower-case the key: %s" % lowered,
                      file=sh.relpath, line=cid.line)
    # API discipline: only `in`, `[k]` and `[k] = v` lower the key; .get/.pop/.setdefault/.update and the constructor bypass the
    # lowering, so they may be used only with keys that are lowered at the call site
    overridden = set(cid.methods)
    n_use = 0
    for g in prog.all_functions():
        names = set()
        for n in ast.walk(g.node):
            if isinstance(n, ast.Assign) and isinstance(n.value, ast.Call) and dotted(n.value.func) == "CaseInsensitiveDict":
                for t in n.targets:
                    if dotted(t):
                        names.add(dotted(t))
        if g.cls is not None and g.cls.name == "_ContentTypeMap":
            names |= {"self._overrides", "self._defaults"}
        if not names:
            continue
        for n in ast.walk(g.node):
            if isinstance(n, ast.Call) and isinstance(n.func, ast.Attribute) and dotted(n.func.value) in names:
                m = n.func.attr
                n_use += 1
                key = "%s:%s.%s" % (g.qualname, dotted(n.func.value), m)
                if m in ("items", "values", "keys", "__len__", "copy"):
                    ctx.ok(rid, key, nontrivial=False)
                    continue
                k = n.args[0] if n.args else None
                lowered_key = isinstance(k, ast.Call) and isinstance(k.func, ast.Attribute) and k.func.attr == "lower"
                if "__%s__" % m in overridden or lowered_key:
                    ctx.ok(rid, key, nontrivial=False)
                else:
                    ctx.violation(rid, key, "`%s` is called on a CaseInsensitiveDict: only membership, indexing and item assignment lower the key, "
                                  ".%s() compares the key as given, so a differently-cased extension / part name is not found" % (ast.unparse(n)[:60], m),
                                  file=g.file, line=n.lineno)
    ctx.count("case_insensitive_dict_calls", n_use)
    # a part class registered for a content type reports that type when the part is written: a class-level `content_type`
    # constant shadows the type the part was loaded with, so every registry row for that class must carry the same constant
    from checks.c15 import part_class_registry

    n_reg = 0
    for ct, cls in sorted(part_class_registry(prog, ctx).items()):
        const_ct = None
        for k in prog.mro(cls):
            if "content_type" in getattr(k, "methods", {}):
                break                                  # the property reporting the loaded type
            if "content_type" in getattr(k, "attrs", {}):
                const_ct = prog.const(k.attrs["content_type"], k.module, None, k)
                break
        if const_ct is None:
            continue
        n_reg += 1
        key = "registry:%s->%s" % (ct, cls.name)
        if const_ct == ct:
            ctx.ok(rid, key, nontrivial=False)
        elif isinstance(const_ct, str):
            ctx.violation(rid, key, "parts of type %s are loaded as %s, whose class-level content_type is %s: the part is written back with a "
                          "different content type than it was opened with" % (ct, cls.name, const_ct), file=cls.file, line=cls.line)
        else:
            ctx.error(key, "class-level content_type of %s does not fold" % cls.name)



def path_value(pth, e, al):
    """normalised source of expression e at the end of the path, with names assigned on the path resolved"""
    env = {}
    for st in pth.stmts():
        if isinstance(st, ast.Assign) and len(st.targets) == 1 and isinstance(st.targets[0], ast.Name):
            env[st.targets[0].id] = st.value
        elif isinstance(st, ast.AnnAssign) and isinstance(st.target, ast.Name) and st.value is not None:
            env[st.target.id] = st.value
    if isinstance(e, ast.Name) and e.id in env:
        e = env[e.id]
    return _P.norm(e, al)



def _compose_rel_chain(prog, M, ox, call, v):
    """Compose `add_rel(<args>)` -> `CT_Relationship.new(...)` -> attribute stores.  With `call` (the add_rel call in the writer)
    and `v` (the relationship variable) the arguments are those of the call; with call None, add_rel is taken with symbolic
    arguments named after its parameters (the flag parameter case-split).  Returns (True, None) when, in every case, the element's
    rId / reltype / target_ref / targetMode are the relationship's rId, reltype, target_ref and External-iff-external;
    (False, why) on an established difference; (None, why) when a step is not understood."""
    import copy as _copy

    from sa import paths as P_
    from sa.desugar import desugar as _desugar

    ctr = ox.classes.get("CT_Relationship")
    ctrs = ox.classes.get("CT_Relationships")
    ar = prog.lookup(ctrs, "add_rel")
    newf = prog.lookup(ctr, "new")
    if ar is None or newf is None:
        raise AnalysisError("anchor vanished: CT_Relationships.add_rel / CT_Relationship.new")

    def params(f):
        a = f.node.args
        ps = [x.arg for x in a.args][1:] + [x.arg for x in a.kwonlyargs]
        dflt = {}
        pos = [x.arg for x in a.args]
        for p_, d_ in zip(pos[len(pos) - len(a.defaults):], a.defaults):
            dflt[p_] = d_
        for p_, d_ in zip([x.arg for x in a.kwonlyargs], a.kw_defaults):
            if d_ is not None:
                dflt[p_] = d_
        return ps, [x.arg for x in a.args][1:], dflt

    def bind(f, c):
        ps, pos, dflt = params(f)
        out = dict(dflt)
        for p_, a_ in zip(pos, c.args):
            out[p_] = a_
        for k_ in c.keywords:
            if k_.arg is None:
                return None
            out[k_.arg] = k_.value
        return out if all(p_ in out for p_ in ps) else None

    def sev(e, env):
        """('sym', text) | ('bool', b) | ('mode', 'EXTERNAL'|'INTERNAL') | ('unk', text)"""
        d = dotted(e)
        if d is not None:
            if d in env:
                return env[d]
            if d.split(".")[-1] in ("EXTERNAL", "INTERNAL") and len(d.split(".")) > 1:
                return ("mode", d.split(".")[-1])
            return ("sym", d)
        if isinstance(e, ast.Constant) and e.value in ("External", "Internal"):
            return ("mode", e.value.upper())
        if isinstance(e, ast.Constant) and isinstance(e.value, bool):
            return ("bool", e.value)
        if isinstance(e, ast.IfExp):
            t = sev(e.test, env)
            if t[0] == "bool":
                return sev(e.body if t[1] else e.orelse, env)
            return ("unk", ast.unparse(e))
        if isinstance(e, ast.UnaryOp) and isinstance(e.op, ast.Not):
            t = sev(e.operand, env)
            return ("bool", not t[1]) if t[0] == "bool" else ("unk", ast.unparse(e))
        if isinstance(e, ast.Compare) and len(e.ops) == 1 and isinstance(e.ops[0], (ast.Eq, ast.NotEq, ast.Is, ast.IsNot)):
            l, r = sev(e.left, env), sev(e.comparators[0], env)
            if l[0] == r[0] == "mode":
                return ("bool", (l[1] == r[1]) == isinstance(e.ops[0], (ast.Eq, ast.Is)))
        if isinstance(e, ast.Call) and dotted(e.func) in ("str", "cast", "typing.cast") and e.args and not e.keywords:
            return sev(e.args[-1], env)     # the value itself
        if isinstance(e, ast.Call) and dotted(e.func):
            # a function of the value(s) is stored, not the value: reported as what it is
            subs = [sev(a_, env) for a_ in e.args]
            if all(x[0] != "unk" for x in subs):
                return ("sym", "%s(%s)" % (dotted(e.func), ", ".join(str(x[1]) for x in subs)))
        return ("unk", ast.unparse(e))

    # stage C: CT_Relationship.new stores its parameters
    p_new, _, _ = params(newf)
    stores = {}
    for n in ast.walk(newf.node):
        if isinstance(n, ast.Assign) and isinstance(n.targets[0], ast.Attribute) and isinstance(n.value, ast.Name):
            stores[n.targets[0].attr] = n.value.id
        elif isinstance(n, ast.Call) and dotted(n.func) == "setattr" and len(n.args) == 3 and isinstance(n.args[1], ast.Constant) \
                and isinstance(n.args[2], ast.Name):
            stores[n.args[1].value] = n.args[2].id
    decl = {d.prop: d.attr for d in M.own_decls(ctr)[1]}
    want_attr = {"rId": "Id", "reltype": "Type", "target_ref": "Target", "targetMode": "TargetMode"}
    if set(stores) != set(want_attr) or any(decl.get(k) != want_attr[k] for k in want_attr) or any(v_ not in p_new for v_ in stores.values()):
        if set(stores) >= set(want_attr) or not stores:
            pass
        return (False, "new: stores=%s attrs=%s" % (stores, {k: decl.get(k) for k in stores})) if stores else (None, "new: no attribute stores found")

    arx = _desugar(ar.node)
    aal = P_.aliases(arx)
    p_ar, _, _ = params(ar)
    flagp = p_ar[3] if len(p_ar) > 3 else None
    if flagp is None:
        return None, "add_rel has fewer than four parameters"
    cases = []
    if call is not None:
        bound = bind(ar, call)
        if bound is None:
            return None, "the arguments of add_rel(...) do not bind to its parameters %s" % p_ar
        for b in (True, False):
            envA = {v + ".is_external": ("bool", b)}
            cases.append((b, {p_: sev(e_, envA) for p_, e_ in bound.items()},
                          {"rId": ("sym", v + ".rId"), "reltype": ("sym", v + ".reltype"), "target_ref": ("sym", v + ".target_ref")}))
    else:
        # symbolic caller: the first three by name; the fourth a flag, or a target mode when add_rel hands it on unchanged
        base = {p_: ("sym", p_) for p_ in p_ar}
        flag_tested = any(isinstance(n, (ast.If, ast.IfExp)) and flagp in {x.id for x in ast.walk(n.test) if isinstance(x, ast.Name)}
                          for n in ast.walk(ar.node))
        for b in (True, False):
            e_ = dict(base)
            e_[flagp] = ("bool", b) if flag_tested else ("mode", "EXTERNAL" if b else "INTERNAL")
            cases.append((b, e_, {"rId": ("sym", p_ar[0]), "reltype": ("sym", p_ar[1]), "target_ref": ("sym", p_ar[2])}))
    for b, envB, want3 in cases:
        unk = [p_ for p_, x in envB.items() if x[0] == "unk"]
        if unk:
            return None, "argument for `%s` not evaluated: %s" % (unk[0], envB[unk[0]][1])
        n_new = 0
        for pth in P_.enum_paths(arx.body):
            fs = P_.facts(pth, None, aal)
            infeasible = False
            for a_ in fs:
                if a_[0] == "truthy" and a_[1] in envB:
                    x = envB[a_[1]]
                    if x[0] == "bool" and x[1] != a_[2]:
                        infeasible = True
                    elif x[0] != "bool":
                        return None, "add_rel tests `%s`, which the caller does not pass as a flag" % a_[1]
            if infeasible:
                continue
            env = dict(envB)
            stmts = pth.stmts() + ([pth.end_node] if pth.end_node is not None else [])
            for st in stmts:
                for c2 in [x for x in ast.walk(st) if isinstance(x, ast.Call) and (dotted(x.func) or "").endswith("CT_Relationship.new")
                           or (isinstance(x, ast.Call) and dotted(x.func) in ("cls.new", "CT_Relationship.new"))]:
                    n_new += 1
                    bn = bind(newf, c2)
                    if bn is None:
                        return None, "the arguments of CT_Relationship.new(...) do not bind to its parameters"
                    got = {attr: sev(bn[par], env) for attr, par in stores.items()}
                    want = dict(want3)
                    want["targetMode"] = ("mode", "EXTERNAL" if b else "INTERNAL")
                    for k_ in want:
                        if got[k_][0] == "unk":
                            return None, "%s of the element not evaluated: %s" % (k_, got[k_][1])
                        if got[k_] != want[k_]:
                            return False, "for an %s relationship %s of the element is %s, expected %s" % (
                                "external" if b else "internal", want_attr[k_], got[k_][1], want[k_][1])
                if isinstance(st, ast.Assign) and len(st.targets) == 1 and isinstance(st.targets[0], ast.Name):
                    env[st.targets[0].id] = sev(st.value, env)
        if n_new == 0:
            return None, "no CT_Relationship.new(...) on add_rel's paths"
    return True, None



def canon_target_key(prog, src):
    """`<rel>.target_partname(<base>)` written as `PackURI.from_rel_ref(<base>, <rel>.target_ref)` when CT_Relationship.target_partname
    is exactly that (an accessor extracted onto the element class)."""
    import re as _re

    ctr = prog.cls("pptx.opc.oxml", "CT_Relationship")
    tp = ctr.methods.get("target_partname") if ctr else None
    if tp is None:
        return src
    rets = [n.value for n in ast.walk(tp.node) if isinstance(n, ast.Return) and n.value is not None]
    ps = [a.arg for a in tp.node.args.args]
    if len(rets) == 1 and len(ps) == 2 and ast.unparse(rets[0]) == "PackURI.from_rel_ref(%s, %s.target_ref)" % (ps[1], ps[0]):
        return _re.sub(r"([\w.]+)\.target_partname\(([\w.]+)\)", r"PackURI.from_rel_ref(\2, \1.target_ref)", src)
    return src


def part_construction(pf, prog=None):
    """Where the loader builds a part: (key expression, PartFactory call, iterable the names are drawn from), for the
    comprehension form `{name: PartFactory(...) for name in it}` and the loop form `for name in it: parts[name] = PartFactory(...)`.
    With `prog` the function is read in canonical form (a `_load_part(name, type)` helper inlined)."""
    if prog is not None:
        import copy as _copy

        from sa.inline import expand as _exp

        pf = _copy.copy(pf)
        pf.node = _exp(prog, pf, local_only=True)
    for n in ast.walk(pf.node):
        if isinstance(n, ast.DictComp) and isinstance(n.value, ast.Call) and dotted(n.value.func) == "PartFactory":
            return n.key, n.value, n.generators[0].iter, pf.node
    for loop in [n for n in ast.walk(pf.node) if isinstance(n, ast.For)]:
        for n in ast.walk(loop):
            if isinstance(n, ast.Assign) and isinstance(n.value, ast.Call) and dotted(n.value.func) == "PartFactory" \
                    and isinstance(n.targets[0], ast.Subscript):
                return n.targets[0].slice, n.value, loop.iter, pf.node
    return None


def writer_closure_rules(ctx, prog, rid):
    """save() hands the writer every reachable part and the package relationships; the writer writes the content types computed from
    those same parts, the package relationships, every part under its own name with its own blob, and the relationship item of
    every part that has relationships (shared by C01 R1.2 and C02 R2.6).  Decided on canonical (desugared, helper-inlined)
    functions and on paths, so guard style, temporaries and extracted helpers do not matter."""
    import copy as _copy

    from sa import paths as P_
    from sa.inline import expand
    from sa.itersrc import source_of

    pk = prog.modules["pptx.opc.package"]
    ser = prog.modules["pptx.opc.serialized"]
    opc = pk.classes.get("OpcPackage")
    sv = opc.methods.get("save") if opc else None
    pw = ser.classes.get("PackageWriter")
    if sv is None or pw is None:
        raise AnalysisError("anchor vanished: OpcPackage.save / PackageWriter")

    def canon(f):
        g = _copy.copy(f)
        g.node = expand(prog, f)
        return g

    # save (not helper-inlined: the call of the writer is what is looked for)
    from sa.desugar import desugar as _ds

    svx = _copy.copy(sv)
    svx.node = _ds(sv.node)
    al = P_.aliases(svx.node)
    wcalls = [c for c in ast.walk(svx.node) if isinstance(c, ast.Call) and (dotted(c.func) or "").endswith("PackageWriter.write")]
    good = False
    if wcalls:
        a = wcalls[0].args
        if len(a) == 3:
            parts_src = source_of(svx.node, a[2])
            good = (P_.norm(a[0], al) == sv.node.args.args[1].arg and P_.norm(a[1], al) == "self._rels"
                    and parts_src["terminal"] == "self.iter_parts()" and not parts_src["filtered"] and not parts_src["lossy"])
    if not wcalls:
        ctx.error("OpcPackage.save", "call of PackageWriter.write not found")
    elif good:
        ctx.ok(rid, "OpcPackage.save", sample={"writes": "PackageWriter.write(file, self._rels, <all of self.iter_parts()>)"})
    else:
        ctx.violation(rid, "OpcPackage.save", "save does not hand the writer all reachable parts and the package relationships (%s)"
                      % ast.unparse(wcalls[0])[:90], file=sv.file, line=sv.line)
    # _write: the three steps on every path
    wr = pw.methods.get("_write")
    if wr is None:
        raise AnalysisError("anchor vanished: PackageWriter._write")
    need = {"_write_content_types_stream", "_write_pkg_rels", "_write_parts"}
    missing_on = None
    body = wr.node.body
    # the steps run inside `with ... as phys_writer:`: enumerate paths through the innermost with-body
    inner = body
    for n in ast.walk(wr.node):
        if isinstance(n, ast.With):
            inner = n.body
    for pth in P_.enum_paths(inner):
        if pth.end == "raise":
            continue
        called = {(dotted(c.func) or "").split(".")[-1] for st in pth.stmts() for c in ast.walk(st) if isinstance(c, ast.Call)}
        if not need <= called:
            missing_on = sorted(need - called)
    if missing_on is None:
        ctx.ok(rid, "PackageWriter._write", sample={"every_path": sorted(need)})
    else:
        ctx.violation(rid, "PackageWriter._write", "a path through the writer skips %s" % missing_on, file=wr.file, line=wr.line)
    # _write_parts
    wp = pw.methods.get("_write_parts")
    if wp is None:
        raise AnalysisError("anchor vanished: PackageWriter._write_parts")
    wpx = canon(wp)
    alp = P_.aliases(wpx.node)
    loops = [n for n in ast.walk(wpx.node) if isinstance(n, ast.For) and isinstance(n.target, ast.Name)
             and source_of(wpx.node, n.iter)["terminal"] in ("self._parts",)]
    if not loops:
        ctx.error("PackageWriter._write_parts", "loop over self._parts not recognised")
    else:
        lp = loops[0]
        v = lp.target.id
        src = source_of(wpx.node, lp.iter)
        probs = []
        if src["filtered"] or src["lossy"]:
            probs.append("the parts are filtered before writing (%s)" % (src["filtered"] or src["lossy"]))
        for pth in P_.enum_paths(lp.body):
            if pth.end == "raise":
                continue
            writes = []
            for st in pth.stmts():
                for c in ast.walk(st):
                    if isinstance(c, ast.Call) and isinstance(c.func, ast.Attribute) and c.func.attr == "write" and len(c.args) == 2:
                        writes.append((P_.norm(c.args[0], alp), P_.norm(c.args[1], alp)))
            if (v + ".partname", v + ".blob") not in writes:
                probs.append("a path does not write the part under its own name with its own blob")
            fs = P_.facts(pth, None, alp)
            has_rels = [a_ for a_ in fs if a_[0] == "truthy" and a_[1] in (v + "._rels", v + ".rels", "len(%s._rels)" % v, "len(%s.rels)" % v)]
            wrote_rels = (v + ".partname.rels_uri", v + ".rels.xml") in writes or (v + ".partname.rels_uri", v + "._rels.xml") in writes
            if any(a_[2] is True for a_ in has_rels) and not wrote_rels:
                probs.append("a part that has relationships does not get its relationship item written")
            if not has_rels and not wrote_rels:
                probs.append("the relationship item is not written")
        if probs:
            ctx.violation(rid, "PackageWriter._write_parts", "; ".join(sorted(set(probs))), file=wp.file, line=wp.line)
        else:
            ctx.ok(rid, "PackageWriter._write_parts", sample={"per_part": "write(partname, blob); when it has relationships: write(partname.rels_uri, rels.xml)"})
    wpr = pw.methods.get("_write_pkg_rels")
    alr = P_.aliases(wpr.node) if wpr else {}
    if wpr is not None and any(isinstance(c, ast.Call) and len(c.args) == 2 and [P_.norm(a_, alr) for a_ in c.args] == ["PACKAGE_URI.rels_uri", "self._pkg_rels.xml"]
                               for c in ast.walk(wpr.node)):
        ctx.ok(rid, "PackageWriter._write_pkg_rels", nontrivial=False)
    else:
        ctx.violation(rid, "PackageWriter._write_pkg_rels", "package relationships are not written to /_rels/.rels", file=pw.file,
                      line=wpr.line if wpr else pw.line)
    wct = pw.methods.get("_write_content_types_stream")
    alc = P_.aliases(wct.node) if wct else {}
    okc = wct is not None and any(isinstance(c, ast.Call) and (dotted(c.func) or "").endswith("_ContentTypesItem.xml_for")
                                  and [P_.norm(a_, alc) for a_ in c.args] == ["self._parts"] for c in ast.walk(wct.node)) \
        and any(P_.norm(a_, alc) == "CONTENT_TYPES_URI" for c in ast.walk(wct.node) if isinstance(c, ast.Call) for a_ in c.args)
    if okc:
        ctx.ok(rid, "PackageWriter._write_content_types_stream", nontrivial=False)
    else:
        ctx.violation(rid, "PackageWriter._write_content_types_stream", "content types are not computed from the same parts that are written",
                      file=pw.file, line=wct.line if wct else pw.line)
    init = pw.methods.get("__init__")
    wcm = pw.methods.get("write")
    pnames = [a_.arg for a_ in init.node.args.args][1:4] if init else []
    passthru = init is not None and len(pnames) == 3 and stored_from_param(init, "_pkg_file") == pnames[0] \
        and stored_from_param(init, "_pkg_rels") == pnames[1] and stored_from_param(init, "_parts") == pnames[2] and wcm is not None and any(
            isinstance(c, ast.Call) and dotted(c.func) == "cls" and [dotted(a_) for a_ in c.args] == [x.arg for x in wcm.node.args.args][1:4]
            for c in ast.walk(wcm.node))
    if passthru:
        ctx.ok(rid, "PackageWriter.write", nontrivial=False)
    else:
        ctx.violation(rid, "PackageWriter.write", "write() does not pass (file, rels, parts) through unchanged", file=pw.file, line=pw.line)


def run(ctx):
    from checks.c10 import load

    prog, S, M = load(ctx.repo)
    ctx.level = "other"
    ctx.trusted = ["CPython ast", "constant folding of the Default table", "zipfile writes the bytes it is given"]
    ctx.explanation = (
        "The round trip is decomposed into the tables and traversals it rests on: the Default/Override decision and its inverse "
        "lookup, the visit-once idiom of the two generators, the field-by-field serialisation of relationships and the "
        "pass-through of (name, type, payload) through the loader. Each is decided from the source; the behaviour itself "
        "(byte identity) is not.")
    ctx.not_decided = ["byte identity of non-XML payloads at run time", "XML equivalence of re-serialised parts",
                       "idempotence of the second save", "posixpath arithmetic of relative references (C19)"]

    ser = prog.modules.get("pptx.opc.serialized")
    pk = prog.modules.get("pptx.opc.package")
    spec = prog.modules.get("pptx.opc.spec")
    ox = prog.modules.get("pptx.opc.oxml")
    if not (ser and pk and spec and ox):
        raise AnalysisError("anchor vanished: pptx.opc.{serialized,package,spec,oxml}")

    # -- R1.1 --------------------------------------------------------------------------------------------
    ctx.rule("R1.1", "every part gets exactly one content-type declaration and keeps its own type")
    content_type_rules(ctx, prog, ser, pk, spec, ox, "R1.1")

    # -- R1.2 --------------------------------------------------------------------------------------------
    ctx.rule("R1.2", "each part and relationship exactly once; the writer writes all of them")
    opc = pk.classes.get("OpcPackage")
    ip, ir, sv = (opc.methods.get(n) for n in ("iter_parts", "iter_rels", "save")) if opc else (None, None, None)
    if not (ip and ir and sv):
        raise AnalysisError("anchor vanished: OpcPackage.iter_parts/iter_rels/save")

    from sa import paths as P_

    from sa.itersrc import entry_facts

    def loop_paths(fnode):
        """(loop, paths through its body, aliases) for every for-loop of the function (nested definitions included)."""
        out = []
        for loop in [n for n in ast.walk(fnode) if isinstance(n, ast.For)]:
            out.append((loop, P_.enum_paths(loop.body), P_.aliases(fnode)))
        return out

    def produced(ev):
        """what a path event hands out: ('yield', expr) / ('yield-from', call) / None"""
        if ev[0] == "loop" and isinstance(ev[1], ast.For) and isinstance(ev[1].iter, ast.Call) and len(ev[1].body) == 1 \
                and isinstance(ev[1].body[0], ast.Expr) and isinstance(ev[1].body[0].value, ast.Yield) \
                and dotted(ev[1].body[0].value.value) == dotted(ev[1].target):
            return ("yield-from", ev[1].iter)   # `yield from f(x)` in canonical form: for v in f(x): yield v
        if ev[0] != "stmt":
            return None
        st = ev[1]
        v = st.value if isinstance(st, (ast.Expr, ast.Assign)) else None
        if isinstance(v, ast.Yield) and v.value is not None:
            return ("yield", v.value)
        if isinstance(v, ast.YieldFrom):
            return ("yield-from", v.value)
        return None

    def visit_once(f, what):
        """Path rule: on every path through a loop body that hands out a target part (iter_parts: `yield part`; iter_rels: recursion
        into `part.rels`), the branch decisions before it state `part not in visited` and `not rel.is_external`, and the path
        marks the part visited (for the recursion: before recursing).  Also: no path reads `.target_part` before it has decided
        the relationship is not external."""
        probs = []
        n_out = 0
        for loop, pths, al in loop_paths(fnode_of[f]):
            for pth in pths:
                for i, ev in enumerate(pth.events):
                    # reading target_part needs the not-external decision
                    node = ev[1] if ev[0] in ("stmt", "cond") else None
                    if node is not None and any(isinstance(x, ast.Attribute) and x.attr == "target_part" for x in ast.walk(node)):
                        fs = entry_facts(fnode_of[f], loop, al, prog, f) + P_.facts(pth, i, al)
                        if not P_.implied(fs, lambda a: a[0] == "truthy" and a[1].endswith(".is_external") and a[2] is False):
                            probs.append("target_part is read on a path that has not excluded external relationships (line %d)" % node.lineno)
                    pr = produced(ev)
                    if pr is None:
                        continue
                    if what == "part" and pr[0] == "yield":
                        subj = P_.norm(pr[1], al)
                        if not subj.endswith(".target_part"):
                            continue
                    elif what == "rels" and pr[0] == "yield-from" and isinstance(pr[1], ast.Call) and pr[1].args \
                            and P_.norm(pr[1].args[0], al).endswith(".target_part.rels"):
                        subj = P_.norm(pr[1].args[0], al)[:-len(".rels")]
                    else:
                        continue
                    n_out += 1
                    fs = P_.facts(pth, i, al)
                    ln_ = getattr(ev[1], "lineno", 0)
                    # the visited collection is whichever the path has tested the part against (and must then mark it in)
                    tested = {a[2] for a in fs if a[0] == "in" and a[1] == subj and a[3] is False}
                    if not tested:
                        probs.append("a target part is handed out (line %d) on a path that has not tested `part not in visited`" % ln_)
                    adds = [j for j, e2 in enumerate(pth.events) if e2[0] == "stmt" and any(
                        isinstance(c, ast.Call) and isinstance(c.func, ast.Attribute) and c.func.attr == "add" and (P_.norm(c.func.value, al) in tested or not tested)
                        and c.args and P_.norm(c.args[0], al) == subj for c in ast.walk(e2[1]))]
                    if not adds:
                        probs.append("the part handed out at line %d is never marked visited on that path" % ln_)
                    elif what == "rels" and min(adds) > i:
                        probs.append("recursion at line %d happens before the part is marked visited (cycles recurse forever)" % ln_)
        if n_out == 0:
            return None
        return sorted(set(probs))

    from sa.desugar import desugar as _dsg

    # the relationship walker: a nested generator of iter_rels, or a method of the class it delegates to (self./cls.), that recurses
    ird = _dsg(ir.node)
    wcands = [(n, n.name, ir) for n in ast.walk(ird) if isinstance(n, ast.FunctionDef) and n is not ird]
    for c_ in ast.walk(ird):
        if isinstance(c_, ast.Call) and isinstance(c_.func, ast.Attribute) and dotted(c_.func.value) in ("self", "cls") and c_.func.attr in opc.methods:
            wm_ = opc.methods[c_.func.attr]
            wcands.append((_dsg(wm_.node), wm_.name, wm_))
    walkers = [(n, nm, fi) for n, nm, fi in wcands if any(
        isinstance(c_, ast.Call) and (dotted(c_.func) or "").split(".")[-1] == nm for c_ in ast.walk(n))]
    wnode, wname, wfi = walkers[0] if len(walkers) == 1 else (None, None, None)
    fnode_of = {ip: _dsg(ip.node), ir: wnode if wnode is not None else ird}
    for f, label, what in ((ip, "OpcPackage.iter_parts", "part"), (ir, "OpcPackage.iter_rels", "rels")):
        probs = visit_once(f, what)
        if probs is None:
            ctx.error(label, "no path that hands out a target part was recognised")
        elif probs:
            ctx.violation("R1.2", label, "; ".join(probs), file=f.file, line=f.line)
        else:
            ctx.ok("R1.2", label, sample={"every_path": "not external; part not in visited; visited.add(part)" + (" before recursing" if what == "rels" else "")})
    # iter_rels yields every rel of every collection before any filtering: on every path through the walker's loop body the first
    # event is `yield <loop variable>`, the loop ranges over all values of the collection it was given, and the walk starts at the
    # package's own relationships
    good = False
    if wnode is None:
        ctx.error("OpcPackage.iter_rels", "the recursive relationship walker is not recognised")
    else:
        w = wnode
        wparams = [a.arg for a in w.args.args if a.arg not in ("self", "cls")]
        for loop in [n for n in ast.walk(w) if isinstance(n, ast.For) and not (len(n.body) == 1 and isinstance(n.body[0], ast.Expr)
                                                                                 and isinstance(n.body[0].value, ast.Yield) and isinstance(n.iter, ast.Call)
                                                                                 and (dotted(n.iter.func) or "").split(".")[-1] == wname)]:
            pths = P_.enum_paths(loop.body)
            first_ok = bool(pths) and all(p.events and produced(p.events[0]) is not None and produced(p.events[0])[0] == "yield"
                                          and isinstance(loop.target, ast.Name) and dotted(produced(p.events[0])[1]) == loop.target.id for p in pths)
            it = loop.iter
            src_ok = bool(wparams) and (isinstance(it, ast.Call) and dotted(it.func) == wparams[0] + ".values" or dotted(it) == wparams[0])
            good = good or (first_ok and src_ok)
        rec = any(isinstance(n, ast.Call) and (dotted(n.func) or "").split(".")[-1] == wname for n in ast.walk(w))
        top = any(isinstance(n, ast.Call) and (dotted(n.func) or "").split(".")[-1] == wname and n.args and dotted(n.args[0]) == "self._rels"
                  for n in ast.walk(ird) if not any(n is x for x in ast.walk(w)))
        good = good and rec and top
    if good:
        ctx.ok("R1.2", "OpcPackage.iter_rels:all", sample={"yields": "every relationship of the package and of each reached part, unfiltered"})
    else:
        ctx.violation("R1.2", "OpcPackage.iter_rels:all", "some relationships are filtered out of the traversal", file=ir.file, line=ir.line)
    # iter_parts is driven by iter_rels
    from sa.itersrc import source_of as _source_of
    if any(isinstance(n, ast.For) and _source_of(fnode_of[ip], n.iter, prog, ip)["terminal"] == "self.iter_rels()" for n in ast.walk(fnode_of[ip])):
        ctx.ok("R1.2", "OpcPackage.iter_parts:source", nontrivial=False)
    else:
        ctx.violation("R1.2", "OpcPackage.iter_parts:source", "iter_parts does not follow iter_rels", file=ip.file, line=ip.line)
    writer_closure_rules(ctx, prog, "R1.2")

    # -- R1.3 --------------------------------------------------------------------------------------------
    ctx.rule("R1.3", "relationships are serialised and re-read field by field")
    rels = pk.classes.get("_Relationships")
    rel = pk.classes.get("_Relationship")
    ctr = ox.classes.get("CT_Relationship")
    ctrs = ox.classes.get("CT_Relationships")
    if not (rels and rel and ctr and ctrs):
        raise AnalysisError("anchor vanished: _Relationships/_Relationship/CT_Relationship(s)")
    xmlp = rels.methods.get("xml")
    from sa.itersrc import source_of

    KEYS = {"self.keys()", "self", "self._rels", "self._rels.keys()"}
    VALUES = {"self.values()", "self._rels.values()"}
    import copy as _copy13

    from sa.inline import expand as _expand13, resolve_callee as _rc13

    xmlp0 = xmlp
    xmlp = _copy13.copy(xmlp)
    # read as written when the loop over the relationships is in the method itself (the source analysis follows generators and
    # helper closures on its own); in canonical form otherwise
    if not any(isinstance(n, ast.For) and _calls(n, "add_rel") for n in ast.walk(xmlp0.node)):
        xmlp.node = _expand13(prog, xmlp0, depth=3, local_only=True, skip_names=("add_rel", "new"))
    loop_node = xmlp.node    # the function body the add_rel loop is found in
    handed = None            # (parameter of the factory, argument expression in xml) when an element-class factory builds the item
    add_calls = [(n, c) for n in ast.walk(xmlp.node) if isinstance(n, ast.For) for c in _calls(n, "add_rel")]
    ret = [n.value for n in ast.walk(xmlp.node) if isinstance(n, ast.Return) and dotted(n.value) and dotted(n.value).endswith(".xml_file_bytes")]
    if not add_calls:
        # `return CT_Relationships.from_rels(<the relationships>).xml_file_bytes`: the loop lives in a factory of the element class
        for r_ in [n.value for n in ast.walk(xmlp.node) if isinstance(n, ast.Return) and isinstance(n.value, ast.Attribute) and n.value.attr == "xml_file_bytes"
                   and isinstance(n.value.value, ast.Call)]:
            rc_ = _rc13(prog, xmlp0, r_.value, {})
            if rc_ is not None and hasattr(rc_[0], "node") and len(r_.value.args) == 1:
                g_ = rc_[0]
                gx_ = _expand13(prog, g_, depth=2, local_only=True, skip_names=("add_rel", "new"))
                gp_ = [a.arg for a in g_.node.args.args][(1 if rc_[1] else 0):]
                if gp_ and all(isinstance(x, ast.Return) and dotted(x.value) for x in ast.walk(gx_) if isinstance(x, ast.Return)):
                    loop_node, handed = gx_, (gp_[0], r_.value.args[0])
                    add_calls = [(n, c) for n in ast.walk(gx_) if isinstance(n, ast.For) for c in _calls(n, "add_rel")]
                    ret = [r_]
    if not add_calls or not ret:
        ctx.error("_Relationships.xml", "loop calling add_rel / return of xml_file_bytes not recognised")
    else:
        loop, c = add_calls[-1]
        args = [dotted(a_) for a_ in c.args]
        v = (args[0] or "").rsplit(".", 1)[0] if args and args[0] else None
        # the element's four attributes as functions of the relationship `v`, composed through add_rel and CT_Relationship.new
        # (whatever the signatures in between are): Id = v.rId, Type = v.reltype, Target = v.target_ref, TargetMode = External
        # exactly when v.is_external
        comp_ok, comp_why = (None, "no relationship variable") if not v else _compose_rel_chain(prog, M, ox, c, v)
        fields = comp_ok is True
        # where does the relationship object come from?
        src = None
        if fields:
            def whole_source(it_):
                """source of the loop's iterable; a factory's parameter is followed to the argument xml hands it"""
                s_ = source_of(loop_node, it_)
                if handed is not None and s_["terminal"] == handed[0]:
                    s2_ = source_of(xmlp.node, handed[1])
                    s2_["filtered"] = s_["filtered"] + s2_["filtered"]
                    s2_["lossy"] = s_["lossy"] + s2_["lossy"]
                    return s2_
                return s_

            if isinstance(loop.target, ast.Name) and loop.target.id == v:
                src = whole_source(loop.iter)
                # generator `self[rId] for ... in <keys>` maps keys to their relationships
                want = KEYS | VALUES
            else:
                asg = [n for n in ast.walk(loop) if isinstance(n, ast.Assign) and isinstance(n.targets[0], ast.Name) and n.targets[0].id == v]
                tnames_ = [loop.target.id] if isinstance(loop.target, ast.Name) else [
                    e_.id for e_ in loop.target.elts if isinstance(e_, ast.Name)] if isinstance(loop.target, ast.Tuple) else []
                if len(asg) == 1 and isinstance(asg[0].value, ast.Subscript) and dotted(asg[0].value.value) in ("self", "self._rels") \
                        and dotted(asg[0].value.slice) in tnames_:
                    src = whole_source(loop.iter)
                    want = KEYS
        if comp_ok is None:
            ctx.error("_Relationships.xml", "how a relationship reaches the attributes of its element is not decided: %s" % comp_why)
        elif not fields:
            ctx.violation("R1.3", "_Relationships.xml", "a relationship is not serialised with its own (rId, reltype, target_ref, is_external): "
                          "add_rel(%s): %s" % (", ".join(ast.unparse(a_) for a_ in c.args + [k_.value for k_ in c.keywords]), comp_why),
                          file=xmlp.file, line=c.lineno)
        elif src is None:
            ctx.error("_Relationships.xml", "origin of the serialised relationship `%s` not recognised" % v)
        elif src["lossy"]:
            ctx.violation("R1.3", "_Relationships.xml:lossy", "relationships pass through `%s`, keyed by a value that is not the relationship id itself: "
                          "two ids with the same key collapse into one and the others are not written" % src["lossy"][0], file=xmlp.file, line=xmlp.line)
        elif src["filtered"]:
            ctx.violation("R1.3", "_Relationships.xml", "relationships are filtered before serialisation (`if %s`)" % src["filtered"][0],
                          file=xmlp.file, line=xmlp.line)
        elif src["terminal"] in want:
            ctx.ok("R1.3", "_Relationships.xml", sample={"per_relationship": "add_rel(rId, reltype, target_ref, is_external)", "over": src["terminal"]})
        else:
            ctx.error("_Relationships.xml", "serialised relationships are drawn from `%s`, which is not recognised as the whole collection" % src["terminal"])
    ar = ctrs.methods.get("add_rel")
    newf = ctr.methods.get("new")
    decl = {d.prop: d for d in M.own_decls(ctr)[1]}
    attr_names = {p: decl[p].attr for p in decl}
    # the chain add_rel -> CT_Relationship.new on its own, for an arbitrary caller: with the external flag (or the target mode)
    # a caller hands in, the element gets exactly those four values
    ok_t, why_t = _compose_rel_chain(prog, M, ox, None, None)
    if ok_t is True:
        ctx.ok("R1.3", "CT_Relationships.add_rel", sample={"target_mode": "External iff is_external", "new": "CT_Relationship.new(rId, reltype, target, target_mode)"})
        ctx.ok("R1.3", "CT_Relationship.new", sample={"attributes": attr_names})
    elif ok_t is None:
        ctx.error("CT_Relationships.add_rel", "add_rel / CT_Relationship.new not decided: %s" % why_t)
    else:
        where_ = "CT_Relationship.new" if why_t.startswith("new:") else "CT_Relationships.add_rel"
        ctx.violation("R1.3", where_, ("the four values are not stored in Id / Type / Target / TargetMode (%s)" % why_t) if where_.endswith(".new")
                      else "add_rel does not build the element from its four arguments with External iff is_external (%s)" % why_t,
                      file=(newf if where_.endswith(".new") else ar).file, line=(newf if where_.endswith(".new") else ar).line)
    # schema agreement
    try:
        sattrs = {a.name for a in S.attrs_of(S.elem_type(prog.qn("pr:Relationship")))}
    except Exception:  # schema API differences: fall back to the complex type name
        sattrs = None
    if sattrs is None:
        try:
            sattrs = {a.name for a in S.attrs_of("CT_Relationship", ns=prog.nsmap["pr"])}
        except Exception:
            sattrs = None
    if sattrs is not None:
        if set(attr_names.values()) <= sattrs:
            ctx.ok("R1.3", "CT_Relationship:schema", sample={"opc-relationships.xsd": sorted(sattrs)})
        else:
            ctx.violation("R1.3", "CT_Relationship:schema", "attributes %s not in opc-relationships.xsd (%s)" % (sorted(attr_names.values()), sorted(sattrs)),
                          file=ox.relpath, line=ctr.line)
    fxr = rel.methods.get("from_xml")
    rinit = rel.methods.get("__init__")
    from sa import paths as P_
    from sa.inline import expand as _expand

    def mode_fact(a, internal):
        if a[0] != "cmp" or not a[2].endswith("targetMode"):
            return False
        if a[3] == "RTM.INTERNAL":
            return a[4] is ((a[1] == "Eq") == internal)
        if a[3] == "RTM.EXTERNAL":
            return a[4] is ((a[1] == "Eq") != internal)
        return False

    fxx = _expand(prog, fxr, local_only=True)
    fpar = [a.arg for a in fxr.node.args.args]
    carrier_mode = len(fpar) < 4
    if carrier_mode:
        # another interface: base URI and part map travel in one parameter object.  Its members are read in place and the function
        # is taken with the constructor's parameters where it took the object
        from sa import inline as _inl13
        from sa.carrier import open_carriers as _open13
        from sa.types import Types as _Types13

        _inl13.use_types(_Types13(prog, M))
        try:
            fxx = _expand(prog, fxr, depth=3, local_only=True)
        finally:
            _inl13.use_types(None)
        fxx, _newp = _open13(prog, fxr, fxx)
        fpar = [a.arg for a in fxx.args.args]
    fal = P_.aliases(fxx)
    if len(fpar) < 4:
        raise AnalysisError("_Relationship.from_xml%s: parameters (base_uri, rel, parts) not recognised" % (tuple(fpar),))
    # by role: the relationship element is the parameter whose Id is read, the part map the one that is indexed, the base URI the other
    rp = next((p_ for p_ in fpar[1:] if any(isinstance(x, ast.Attribute) and x.attr == "rId" and dotted(x.value) == p_ for x in ast.walk(fxx))), None)
    pp = next((p_ for p_ in fpar[1:] if any(isinstance(x, ast.Subscript) and dotted(x.value) == p_ for x in ast.walk(fxx))), None)
    rest_ = [p_ for p_ in fpar[1:] if p_ not in (rp, pp)]
    if rp is None or pp is None or len(rest_) != 1:
        raise AnalysisError("_Relationship.from_xml%s: the roles of the parameters (element, part map, base URI) are not recognised" % (tuple(fpar),))
    bp = rest_[0]
    ip_ = [a.arg for a in rinit.node.args.args][1:]
    fields_ok = all(stored_from_param(rinit, "_" + p) == p for p in ip_) and ip_ == ["base_uri", "rId", "reltype", "target_mode", "target"]
    probs, n_rows = [], 0
    for pth in P_.enum_paths(fxx.body):
        if pth.end != "return":
            continue
        v = pth.end_node.value
        if not (isinstance(v, ast.Call) and dotted(v.func) in ("cls", "_Relationship") and len(v.args) == 5):
            probs.append("a path does not return cls(base_uri, rId, reltype, target_mode, target)")
            continue
        n_rows += 1
        got = [canon_target_key(prog, path_value(pth, a, fal)) for a in v.args]
        if got[:4] != [bp, rp + ".rId", rp + ".reltype", rp + ".targetMode"]:
            probs.append("constructor receives %s, not (base_uri, Id, Type, TargetMode)" % got[:4])
        fs = P_.facts(pth, None, fal)
        ext = P_.implied(fs, lambda a: mode_fact(a, False))
        inn = P_.implied(fs, lambda a: mode_fact(a, True))
        if ext and got[4] != rp + ".target_ref":
            probs.append("the target of an External relationship is %s, not the Target string" % got[4])
        elif inn and not (got[4].startswith(pp + "[") and "from_rel_ref(%s, %s.target_ref)" % (bp, rp) in got[4]):
            probs.append("the target of an Internal relationship is %s, not the part named by Target resolved against the base URI" % got[4])
        elif not ext and not inn:
            probs.append("the target is chosen without looking at TargetMode")
    if n_rows and fields_ok and not probs:
        ctx.ok("R1.3", "_Relationship.from_xml", sample={"reads": "Id, Type, TargetMode; Target as string when External else as the part of that name"})
    elif not n_rows and not probs:
        ctx.error("_Relationship.from_xml", "no returning path recognised")
    else:
        ctx.violation("R1.3", "_Relationship.from_xml", "relationship is not rebuilt from (Id, Type, TargetMode, Target): %s (fields=%s)"
                      % ("; ".join(sorted(set(probs))), fields_ok), file=fxr.file, line=fxr.line)
    for prop, field in (("rId", "_rId"), ("reltype", "_reltype")):
        f = rel.methods.get(prop)
        rets = [n.value for n in ast.walk(f.node) if isinstance(n, ast.Return)] if f else []
        if rets and all(dotted(r) == "self." + field for r in rets):
            ctx.ok("R1.3", "_Relationship.%s" % prop, nontrivial=False)
        else:
            ctx.violation("R1.3", "_Relationship.%s" % prop, "%s does not return the stored value" % prop, file=rel.file, line=f.line if f else rel.line)
    ie = rel.methods.get("is_external")
    rets = [n.value for n in ast.walk(ie.node) if isinstance(n, ast.Return)] if ie else []
    if rets and isinstance(rets[0], ast.Compare) and isinstance(rets[0].ops[0], ast.Eq) and \
            {dotted(rets[0].left), dotted(rets[0].comparators[0])} == {"self._target_mode", "RTM.EXTERNAL"}:
        ctx.ok("R1.3", "_Relationship.is_external", nontrivial=False)
    else:
        ctx.violation("R1.3", "_Relationship.is_external", "is_external is not `target_mode == External`", file=rel.file, line=ie.line if ie else rel.line)
    lf = rels.methods.get("load_from_xml")
    from sa.desugar import lift_generators as _lift

    lfx = _lift(_expand(prog, lf, local_only=True))   # `valid = (f(e) for e in lst if ok(e))` reads as a nested generator function
    if carrier_mode:
        _inl13.use_types(_Types13(prog, M))
        try:
            lfx = _expand(prog, lf, depth=3, local_only=True)
        finally:
            _inl13.use_types(None)
        lfx = _lift(_open13(prog, lf, lfx)[0])
    lal, lval = P_.aliases(lfx), P_.value_aliases(lfx)
    lpar = [a.arg for a in lf.node.args.args]
    loops = [n for n in ast.walk(lfx) if isinstance(n, ast.For) and (dotted(n.iter) or "").endswith(".relationship_lst")
             and P_.norm(n.iter, lal).split(".")[0] in lpar]
    probs, produced = [], 0
    lfx_outer, lal_outer = lfx, lal
    if len(loops) != 1:
        # the filtering loop may be a generator method of the class that load_from_xml hands its own arguments to, in order
        from sa.inline import resolve_callee as _rc1l

        for c_ in [x for x in ast.walk(lf.node) if isinstance(x, ast.Call)]:
            try:
                rc_ = _rc1l(prog, lf, c_, {})
            except Exception:  # noqa: BLE001
                rc_ = None
            g_ = rc_[0] if rc_ is not None and hasattr(rc_[0], "node") and hasattr(rc_[0], "params") else None
            if g_ is None or g_ is lf or not any(isinstance(y, (ast.Yield, ast.YieldFrom)) for y in ast.walk(g_.node)):
                continue
            gps_ = list(g_.params) if (g_.kind == "staticmethod" or g_.cls is None) else list(g_.params)[1:]
            if [dotted(a_) for a_ in c_.args] != lpar[1:] or c_.keywords or len(gps_) != len(lpar) - 1:
                continue
            lfx = _lift(_expand(prog, g_, local_only=True))
            lal, lval = P_.aliases(lfx), P_.value_aliases(lfx)
            lpar = ["self"] + gps_
            loops = [n for n in ast.walk(lfx) if isinstance(n, ast.For) and (dotted(n.iter) or "").endswith(".relationship_lst")
                     and P_.norm(n.iter, lal).split(".")[0] in lpar]
            break
    if len(loops) != 1:
        ctx.error("_Relationships.load_from_xml", "the loop over the relationship elements is not recognised")
    else:
        lp = loops[0]
        ev = lp.target.id if isinstance(lp.target, ast.Name) else None
        for pth in P_.enum_paths(lp.body):
            if pth.end == "raise":
                continue
            made = None   # how this path hands the relationship on
            for st in pth.stmts():
                for x in ast.walk(st):
                    if isinstance(x, ast.Yield) and x.value is not None:
                        made = ("yield", path_value(pth, x.value, lal))
                    if isinstance(x, ast.Assign) and isinstance(x.targets[0], ast.Subscript) and P_.norm(x.targets[0].value, lal) == "self._rels":
                        made = ("store", P_.norm(x.targets[0].slice, lal), dotted(x.value), path_value(pth, x.value, lal))
            if made is None:
                fs = P_.facts(pth, None, lal)
                dangling = P_.implied(fs, lambda a: mode_fact(a, True)) and P_.implied(
                    fs, lambda a: a[0] == "in" and a[3] is False and a[2] == lpar[3] and "from_rel_ref(" in canon_target_key(prog, (
                        a[1] if a[1] not in lval else ast.unparse(lval[a[1]]))))
                if not dangling:
                    probs.append("a relationship is dropped on a path that has not established that it is Internal with an absent target part")
                continue
            produced += 1
            built = made[1] if made[0] == "yield" else made[3]
            import re as _re
            from_elem = ev is not None and (
                ("from_xml(" in built and _re.search(r"\b%s\b" % _re.escape(ev), built) is not None)
                or ("_Relationship(" in built and (ev + ".rId") in built))
            if not from_elem:
                probs.append("the relationship handed on (%s) is not built from the element of this iteration" % built[:60])
            if made[0] == "store" and made[1] != "%s.rId" % made[2]:
                probs.append("a relationship is stored under %s, not under its own Id" % made[1])
        yields = any(isinstance(x, ast.Yield) for x in ast.walk(lp))
        if yields:
            upd = [c for c in ast.walk(lfx) if isinstance(c, ast.Call) and isinstance(c.func, ast.Attribute) and c.func.attr == "update"
                   and P_.norm(c.func.value, lal) == "self._rels"]
            if not upd and lfx_outer is not lfx:
                upd = [c for c in ast.walk(lfx_outer) if isinstance(c, ast.Call) and isinstance(c.func, ast.Attribute) and c.func.attr == "update"
                       and P_.norm(c.func.value, lal_outer) == "self._rels"]
            gen_key = any(isinstance(n, ast.GeneratorExp) and isinstance(n.elt, ast.Tuple) and (dotted(n.elt.elts[0]) or "").endswith(".rId")
                          and dotted(n.elt.elts[1]) == dotted(n.elt.elts[0]).rsplit(".", 1)[0] for c in upd for n in ast.walk(c))
            if not (upd and gen_key):
                probs.append("the generated relationships are not stored in self._rels under their own Id")
        if not produced:
            ctx.error("_Relationships.load_from_xml", "no path hands a relationship on")
        elif probs:
            ctx.violation("R1.3", "_Relationships.load_from_xml", "loading drops or re-keys relationships other than dangling internal ones: %s"
                          % "; ".join(sorted(set(probs))), file=lf.file, line=lf.line)
        else:
            ctx.ok("R1.3", "_Relationships.load_from_xml", sample={"keeps": "every Relationship element, keyed by its Id", "skips": "only internal ones whose target part is absent"})

    # -- R1.4 --------------------------------------------------------------------------------------------
    ctx.rule("R1.4", "(part name, content type, payload) pass through the loader unchanged")
    ldr = pk.classes.get("_PackageLoader")
    pf = ldr.methods.get("_parts") if ldr else None
    if pf is None:
        raise AnalysisError("anchor vanished: _PackageLoader._parts")
    from sa.guards import aliases, norm

    al = aliases(pf.node)
    pc = part_construction(pf, prog)
    if pc is None:
        ctx.error("_PackageLoader._parts", "construction of the parts (PartFactory call keyed by the part name) not recognised")
    else:
        kexpr, c, _it = pc[:3]
        kv = norm(kexpr, al)
        pval = P_.value_aliases(pf.node)
        args = [P_.full(a, pval) for a in c.args] + [P_.full(k.value, pval) for k in c.keywords]
        if args == [kv, "self._content_types[%s]" % kv, "self._package", "self._package_reader[%s]" % kv]:
            ctx.ok("R1.4", "_PackageLoader._parts", sample={"part": "PartFactory(partname, content_types[partname], package, blob=reader[partname])"})
        else:
            ctx.violation("R1.4", "_PackageLoader._parts", "a part is not built from its own name, that name's content type and that name's bytes "
                          "(PartFactory(%s) keyed by %s)" % (", ".join(args), kv), file=pf.file, line=c.lineno)
    pfc = pk.classes.get("PartFactory")
    nw = pfc.methods.get("__new__") if pfc else None
    good = False
    if nw is not None:
        ps = [a.arg for a in nw.node.args.args][1:]
        for c in ast.walk(nw.node):
            if isinstance(c, ast.Call) and isinstance(c.func, ast.Attribute) and c.func.attr == "load":
                good = [dotted(a) for a in c.args] == ps
    if good:
        ctx.ok("R1.4", "PartFactory.__new__", nontrivial=False)
    else:
        ctx.violation("R1.4", "PartFactory.__new__", "factory does not forward (partname, content_type, package, blob) unchanged",
                      file=pk.relpath, line=nw.line if nw else 1)
    part = pk.classes.get("Part")
    xp = pk.classes.get("XmlPart")
    pl = part.methods.get("load")
    ps = [a.arg for a in pl.node.args.args][1:]
    good = any(isinstance(c, ast.Call) and dotted(c.func) == "cls" and [dotted(a) for a in c.args] == ps for c in ast.walk(pl.node))
    pinit = part.methods.get("__init__")
    stored = all(stored_from_param(pinit, "_" + p) == p for p in ("partname", "content_type", "package", "blob"))
    getters = {}
    for prop, field in (("partname", "_partname"), ("content_type", "_content_type")):
        f = part.methods.get(prop)
        rets = [n.value for n in ast.walk(f.node) if isinstance(n, ast.Return)] if f else []
        getters[prop] = bool(rets) and all(dotted(r) == "self." + field for r in rets)
    if good and stored and all(getters.values()):
        ctx.ok("R1.4", "Part.load/__init__", sample={"stored": "partname, content_type, package, blob unchanged", "getters": "return the stored fields"})
    else:
        ctx.violation("R1.4", "Part.load/__init__", "a loaded part does not keep the name / type / bytes it was loaded with (load=%s stored=%s getters=%s)"
                      % (good, stored, getters), file=part.file, line=part.line)
    xl = xp.methods.get("load")
    xps = [a.arg for a in xl.node.args.args][1:]
    good = False
    for c in ast.walk(xl.node):
        if isinstance(c, ast.Call) and dotted(c.func) == "cls":
            pos = [dotted(a) for a in c.args]
            el = next((k.value for k in c.keywords if k.arg == "element"), None)
            while isinstance(el, ast.Call) and dotted(el.func) == "cast":
                el = el.args[1]
            good = pos == xps[:3] and isinstance(el, ast.Call) and dotted(el.func) == "parse_xml" and [dotted(a) for a in el.args] == [xps[3]]
    xb = xp.methods.get("blob")
    rets = [n.value for n in ast.walk(xb.node) if isinstance(n, ast.Return)] if xb else []
    ser_ok = bool(rets) and isinstance(rets[0], ast.Call) and dotted(rets[0].func) == "serialize_part_xml" and [dotted(a) for a in rets[0].args] == ["self._element"]
    if good and ser_ok:
        ctx.ok("R1.4", "XmlPart.load/blob", sample={"load": "parse_xml(blob)", "blob": "serialize_part_xml(self._element)"})
    else:
        ctx.violation("R1.4", "XmlPart.load/blob", "an XML part is not the parse of its own bytes / not re-serialised from its own element",
                      file=xp.file, line=xp.line)
    # every registered part class inherits or forwards load() faithfully
    init_mod = prog.modules["pptx"]
    n_over = 0
    for c in prog.all_classes():
        if c is part or c is xp or not prog.is_subclass(c, "Part"):
            continue
        for mname in ("load",):
            f = c.methods.get(mname)
            if f is None:
                continue
            n_over += 1
            ps = [a.arg for a in f.node.args.args][1:]
            fw = False
            for cc in ast.walk(f.node):
                if isinstance(cc, ast.Call) and dotted(cc.func) == "cls":
                    pos = [dotted(a) for a in cc.args]
                    fw = pos[:3] == ps[:3]
            key = "%s.load" % c.name
            if fw:
                ctx.ok("R1.4", key, nontrivial=False)
            else:
                ctx.violation("R1.4", key, "overriding load() does not forward (partname, content_type, package)", file=f.file, line=f.line)
    ctx.count("load_overrides", n_over)


    # -- R1.5 --------------------------------------------------------------------------------------------
    ctx.rule("R1.5", "relative references are computed by the path algebra, never by string prefixes of directory names")
    pu = prog.modules.get("pptx.opc.packuri")
    if pu is None:
        raise AnalysisError("anchor vanished: pptx.opc.packuri")
    npfx = 0
    for g in prog.all_functions():
        if g.module is not pu:
            continue
        dirs = {a.arg for a in g.node.args.args if "base" in a.arg.lower() or "dir" in a.arg.lower()}
        for n in ast.walk(g.node):
            if isinstance(n, ast.Assign) and isinstance(n.targets[0], ast.Name):
                v = ast.unparse(n.value)
                if ".baseURI" in v or "posixpath.dirname" in v or "posixpath.split" in v:
                    dirs.add(n.targets[0].id)
        for n in ast.walk(g.node):
            bad = None
            if isinstance(n, ast.Call) and isinstance(n.func, ast.Attribute) and n.func.attr in ("startswith", "removeprefix", "find", "index", "replace", "partition") \
                    and n.args and ((isinstance(n.args[0], ast.Name) and n.args[0].id in dirs) or ast.unparse(n.args[0]).endswith(".baseURI")):
                bad = ast.unparse(n)
            if isinstance(n, ast.Subscript) and isinstance(n.slice, ast.Slice):
                for b in (n.slice.lower, n.slice.upper):
                    if b is not None and any(isinstance(x, ast.Call) and dotted(x.func) == "len" and x.args and (
                            (isinstance(x.args[0], ast.Name) and x.args[0].id in dirs) or ast.unparse(x.args[0]).endswith(".baseURI")) for x in ast.walk(b)):
                        bad = ast.unparse(n)
            if bad:
                npfx += 1
                ctx.violation("R1.5", "%s:%s" % (g.qualname, bad[:40]), "`%s` compares or cuts a path by the characters of a directory name: "
                              "/doc is a character prefix of /docs/x and of /doc-old/x, which are not below it, so the relative reference "
                              "written for such a target resolves to a different part name" % bad, file=g.file, line=n.lineno)
    rr = prog.func("pptx.opc.packuri", "PackURI.relative_ref")
    rets = [x.value for x in walk_own(rr.node) if isinstance(x, ast.Return)]
    uses_relpath = any(isinstance(c, ast.Call) and dotted(c.func) == "posixpath.relpath" and [dotted(a) for a in c.args] == ["self", rr.node.args.args[1].arg]
                       for r in rets for c in ast.walk(r))
    if uses_relpath:
        ctx.ok("R1.5", "PackURI.relative_ref", sample={"general_case": "posixpath.relpath(self, baseURI)", "prefix_tests_on_directories": npfx})
    else:
        ctx.violation("R1.5", "PackURI.relative_ref", "the general case is not posixpath.relpath(self, baseURI)", file=rr.file, line=rr.line)
    frr = prog.func("pptx.opc.packuri", "PackURI.from_rel_ref")
    fsrc = [dotted(c.func) for c in ast.walk(frr.node) if isinstance(c, ast.Call)]
    if "posixpath.join" in fsrc and ("posixpath.abspath" in fsrc or "posixpath.normpath" in fsrc):
        ctx.ok("R1.5", "PackURI.from_rel_ref", sample={"computed_by": "posixpath.join + abspath/normpath"})
    else:
        ctx.violation("R1.5", "PackURI.from_rel_ref", "a relative reference is not resolved with posixpath.join and normalisation (%s)" % fsrc,
                      file=frr.file, line=frr.line)

    # -- R1.6 --------------------------------------------------------------------------------------------
    ctx.rule("R1.6", "the zip reader's member table holds every member of the archive (none is filtered out by size or name)")
    zr = ser.classes.get("_ZipPkgReader")
    bl = prog.lookup(zr, "_blobs") if zr is not None else None
    if bl is None:
        raise AnalysisError("anchor vanished: _ZipPkgReader._blobs")
    from sa.inline import expand as _exp16

    blx = _exp16(prog, bl, local_only=True)
    comps = [n for n in ast.walk(blx) if isinstance(n, ast.DictComp)]
    loops = [n for n in ast.walk(blx) if isinstance(n, ast.For) and isinstance(n.iter, ast.Call) and (dotted(n.iter.func) or "").split(".")[-1] in ("namelist", "infolist")]
    filters = []
    src_ok = False
    for dc in comps:
        g = dc.generators[0] if len(dc.generators) == 1 else None
        if g is not None and isinstance(g.iter, ast.Call) and (dotted(g.iter.func) or "").split(".")[-1] in ("namelist", "infolist"):
            src_ok = True
            filters += [(t, dc.lineno) for t in g.ifs]
    for lp in loops:
        src_ok = True
        for st in ast.walk(lp):
            if isinstance(st, ast.If) and any(isinstance(x, ast.Continue) for x in st.body):
                filters.append((st.test, st.lineno))
    if not src_ok:
        # another construction of the mapping (`dict(zip(map(key, names), map(z.read, names)))`): every member name goes in as long as the
        # names are read from the archive and nothing filters them
        reads_names = any(isinstance(n, ast.Call) and (dotted(n.func) or "").split(".")[-1] in ("namelist", "infolist") for n in ast.walk(blx))
        for n in ast.walk(blx):
            if isinstance(n, (ast.ListComp, ast.SetComp, ast.GeneratorExp, ast.DictComp)):
                filters += [(t, n.lineno) for g_ in n.generators for t in g_.ifs]
            if isinstance(n, ast.Call) and dotted(n.func) in ("filter", "itertools.filterfalse", "filterfalse", "itertools.compress", "compress") and n.args:
                filters.append((n.args[0], n.lineno))
        src_ok = reads_names
    if not src_ok:
        ctx.error("_ZipPkgReader._blobs", "the table of members (a mapping built over namelist() / infolist()) is not recognised")
    else:
        bad = None
        for t, ln in filters:
            txt = ast.unparse(t)
            if "is_dir()" in txt or "endswith('/')" in txt or 'endswith("/")' in txt:
                continue     # directory entries are not package items
            if any(a_ in txt for a_ in ("file_size", "compress_size", "len(")):
                bad = ("violation", "members are dropped by their size (`%s`): a part with an empty payload looks absent, so the part and every "
                       "relationship to it are silently lost on open and save" % txt[:60], ln)
                break
            bad = ("error", "members are filtered by `%s`, which is not decided" % txt[:60], ln)
        if bad is None:
            ctx.ok("R1.6", "_ZipPkgReader._blobs", sample={"members": "every name of the archive", "filters": [ast.unparse(t)[:40] for t, _ in filters]})
        elif bad[0] == "error":
            ctx.error("_ZipPkgReader._blobs", bad[1])
        else:
            ctx.violation("R1.6", "_ZipPkgReader._blobs", bad[1], file=bl.file, line=bad[2])
