"""Engine E (ii) — provenance of a value: backward slice through locals, fields, properties, returns
and parameters to callers, context-insensitive, depth-bounded, cycle-safe.

origin(expr, fc) -> set of labels:
  CONST      literal / folded constant
  NUM        numeric by construction (arithmetic, len, int(), numeric annotation, %d spec)
  TOKEN      result of <Enum>.to_xml / .xml_value (tokens are verified markup-free by C20)
  SAN_TEXT   passed through xml.sax.saxutils.escape
  SAN_ATTR   escape with a quote map / quoteattr
  USER       reaches a public-API parameter that may be an arbitrary string
  FILE       derived from a caller-chosen file name
  DOC        read from a string attribute / text of the document
  UNKNOWN    could not be classified (deny by default)
Each label is returned with a short witness chain.
"""

from __future__ import annotations

import ast

from .pysrc import ClassInfo, ClassRef, FuncInfo, Unknown, dotted
from .types import FCtx, walk_own

NUM_ANN = {"int", "float", "bool", "Length", "Emu", "Pt", "Inches", "Cm", "Mm", "Centipoints", "numbers.Number"}
NUM_FUNCS = {"len", "int", "float", "round", "abs", "sum", "min", "max", "ord", "chr", "Emu", "Pt", "Inches", "Cm", "Mm",
             "Centipoints", "Length", "bool", "hash", "id", "divmod"}
STR_PASSTHRU = {"str", "unicode", "repr", "format"}


class Prov:
    MAX_DEPTH = 40

    def __init__(self, prog, M, T, public_pred=None):
        self.prog, self.M, self.T = prog, M, T
        self._callsites = None
        self._memo = {}
        self._active = set()
        self._cuts = 0
        self.public_pred = public_pred or self._default_public

    # -- call-site index -------------------------------------------------------------------------
    def callsites(self):
        """callee FuncInfo -> [(caller FuncInfo, call node, skip_self)]"""
        if self._callsites is None:
            idx = {}
            for f in self.prog.all_functions():
                fc = FCtx(f)
                for n in ast.walk(f.node):
                    if isinstance(n, ast.Call):
                        for callee, skip in self.T.callees(n, fc):
                            if isinstance(callee, FuncInfo):
                                idx.setdefault(callee, []).append((f, n, skip))
            # by-name fallback for unresolved attribute calls (imprecise, over-approximate)
            byname = {}
            for f in self.prog.all_functions():
                byname.setdefault(f.name, []).append(f)
            for f in self.prog.all_functions():
                fc = FCtx(f)
                for n in ast.walk(f.node):
                    if isinstance(n, ast.Call) and isinstance(n.func, ast.Attribute) and not self.T.callees(n, fc):
                        rt = self.T.expr(n.func.value, fc)
                        if rt and all(a[0] in ("prim", "list", "tuple", "ext") for a in rt):
                            continue
                        cands = [g for g in byname.get(n.func.attr, []) if g.cls is not None]
                        if len(cands) > 6:
                            continue
                        for g in cands:
                            idx.setdefault(g, []).append((f, n, True))
            # an assignment through a hand-written setter (`x.prop = value`) is a call of the setter with that value
            setters = {}
            for c in self.prog.all_classes():
                for nm, g in c.setters.items():
                    setters.setdefault(nm, []).append(g)
            for f in self.prog.all_functions():
                fc = FCtx(f)
                for n in ast.walk(f.node):
                    if isinstance(n, ast.Assign) and len(n.targets) == 1 and isinstance(n.targets[0], ast.Attribute) and n.targets[0].attr in setters:
                        t = n.targets[0]
                        cands = setters[t.attr]
                        rt = self.T.expr(t.value, fc)
                        typed = [a[1] for a in rt if a[0] == "inst"]
                        if typed:
                            cands = [g for g in cands if any(g.cls in self.prog.mro(k) or k in self.prog.mro(g.cls) for k in typed)]
                        if len(cands) > 6:
                            continue
                        call = ast.copy_location(ast.Call(func=t, args=[n.value], keywords=[]), n)
                        for g in cands:
                            idx.setdefault(g, []).append((f, call, True))
            self._callsites = idx
        return self._callsites

    def _default_public(self, f):
        """A function the user can call directly: public name, in a class/module of the documented API layers."""
        if f.name.startswith("_") and f.name != "__init__":
            return False
        if f.module.name.startswith(("pptx.oxml", "pptx.opc.oxml")):
            return False
        if f.name == "__init__":
            # a constructor is user-facing only when the library never constructs the class itself
            # (ChartData, CategoryChartData ...); otherwise its arguments are traced through the call sites
            if f.cls is not None and f.cls.name.startswith("_"):
                return False
            return not self.callsites().get(f)
        if f.cls is not None and f.cls.name.startswith("_") and f.cls.name not in ():
            # private classes are still handed to users (e.g. _Cell, _Run, _Paragraph): public methods count
            return True
        return True

    # -- origin ------------------------------------------------------------------------------------
    def origin(self, e, fc, depth=0, chain=()):
        """Set of (label, witness-chain)."""
        if depth > self.MAX_DEPTH:
            return {("UNKNOWN", chain + ("depth bound",))}
        if getattr(self, "_bind", None):
            # inside a helper evaluated for one particular call (its parameters stand for that call's arguments): no memo, but
            # cycles are cut as usual
            bkey = (id(e), fc.fn, fc.selfcls, tuple(id(b[1]) for b in self._bind))
            if bkey in self._active:
                self._cuts += 1
                return set()
            self._active.add(bkey)
            try:
                return self._origin(e, fc, depth, chain)
            finally:
                self._active.discard(bkey)
        key = (id(e), fc.fn, fc.selfcls)
        if key in self._memo:
            return self._memo[key]
        if key in self._active:
            self._cuts += 1
            return set()
        self._active.add(key)
        cuts0 = self._cuts
        try:
            r = self._origin(e, fc, depth, chain)
        finally:
            self._active.discard(key)
        # a result computed without cutting a cycle below it is complete: memoise (context-insensitive)
        if self._cuts == cuts0 or not self._active:
            self._memo[key] = r
        return r

    def _here(self, e, fc):
        return "%s:%s" % (fc.fn.qualname if fc.fn else "?", getattr(e, "lineno", "?"))

    def _origin(self, e, fc, depth, chain):
        prog, T = self.prog, self.T
        from .pysrc import unpartial as _unp

        up_ = _unp(prog, fc.module, e)
        if up_ is not None:
            ast.fix_missing_locations(up_)
            e = up_   # a module-level partial application, called
        ch = chain + (self._here(e, fc) + " " + _short(e),)
        if isinstance(e, ast.Constant):
            if isinstance(e.value, (int, float)) and not isinstance(e.value, bool):
                return {("NUM", ch)}
            return {("CONST", ch)}
        if isinstance(e, ast.JoinedStr):
            out = set()
            for p in e.values:
                if isinstance(p, ast.FormattedValue):
                    if p.format_spec is not None and _spec_numeric(p.format_spec):
                        out.add(("NUM", ch))
                    else:
                        out |= self.origin(p.value, fc, depth + 1, ch)
            return out or {("CONST", ch)}
        if isinstance(e, ast.BinOp):
            if isinstance(e.op, ast.Mod) and _is_strish(e.left):
                out = set()
                args = e.right.elts if isinstance(e.right, ast.Tuple) else [e.right]
                specs = _percent_specs(e.left)
                for i, a in enumerate(args):
                    if specs is not None and i < len(specs) and specs[i] in "dioxXeEfFgG":
                        out.add(("NUM", ch))
                    else:
                        out |= self.origin(a, fc, depth + 1, ch)
                out |= {x for x in self.origin(e.left, fc, depth + 1, ch)}
                return out
            if isinstance(e.op, (ast.Add,)):
                return self.origin(e.left, fc, depth + 1, ch) | self.origin(e.right, fc, depth + 1, ch)
            return {("NUM", ch)}
        if isinstance(e, ast.UnaryOp):
            return {("NUM", ch)}
        if isinstance(e, ast.Compare) or isinstance(e, ast.BoolOp) and False:
            return {("NUM", ch)}
        if isinstance(e, ast.BoolOp):
            out = set()
            for v in e.values:
                out |= self.origin(v, fc, depth + 1, ch)
            return out
        if isinstance(e, ast.NamedExpr):
            return self.origin(e.value, fc, depth + 1, ch)
        if isinstance(e, ast.IfExp):
            return self.origin(e.body, fc, depth + 1, ch) | self.origin(e.orelse, fc, depth + 1, ch)
        if isinstance(e, ast.Subscript):
            if isinstance(e.value, ast.Call) and (dotted(e.value.func) or "").split(".")[-1] == "quoteattr":
                # quoteattr() picks its delimiter from the content and only escapes the other quote: a slice of its result (the
                # delimiters stripped) is escaped for text, not for an attribute value
                return {("SAN_TEXT", ch)}
            return self.origin(e.value, fc, depth + 1, ch)
        if isinstance(e, (ast.Tuple, ast.List)):
            out = set()
            for x in e.elts:
                out |= self.origin(x, fc, depth + 1, ch)
            return out or {("CONST", ch)}
        if isinstance(e, ast.Dict):
            out = set()
            for x in e.values:
                out |= self.origin(x, fc, depth + 1, ch)
            return out or {("CONST", ch)}
        if isinstance(e, (ast.ListComp, ast.GeneratorExp)):
            return self.origin(e.elt, fc, depth + 1, ch)
        if isinstance(e, ast.Name):
            return self._name(e, fc, depth, ch)
        if isinstance(e, ast.Attribute):
            return self._attr(e, fc, depth, ch)
        if isinstance(e, ast.Call):
            return self._call(e, fc, depth, ch)
        return {("UNKNOWN", ch)}

    # -- names -------------------------------------------------------------------------------------
    def _name(self, e, fc, depth, ch):
        f = fc.fn
        if f is None:
            return {("UNKNOWN", ch)}
        if e.id in ("True", "False", "None"):
            return {("CONST", ch)}
        a = f.node.args
        allp = a.posonlyargs + a.args + a.kwonlyargs
        pnames = [x.arg for x in allp]
        out = set()
        assigned = False
        for n in walk_own(f.node):
            if isinstance(n, ast.Assign):
                for t in n.targets:
                    if isinstance(t, ast.Name) and t.id == e.id:
                        assigned = True
                        out |= self.origin(n.value, fc, depth + 1, ch)
                    elif isinstance(t, (ast.Tuple, ast.List)):
                        for i, el in enumerate(t.elts):
                            if isinstance(el, ast.Name) and el.id == e.id:
                                assigned = True
                                if isinstance(n.value, (ast.Tuple, ast.List)) and len(n.value.elts) == len(t.elts):
                                    out |= self.origin(n.value.elts[i], fc, depth + 1, ch)
                                else:
                                    comp = self._tuple_component(n.value, i, len(t.elts), fc, depth, ch)
                                    out |= comp if comp is not None else self.origin(n.value, fc, depth + 1, ch)
            elif isinstance(n, ast.AugAssign) and isinstance(n.target, ast.Name) and n.target.id == e.id:
                assigned = True
                out |= self.origin(n.value, fc, depth + 1, ch)
            elif isinstance(n, ast.NamedExpr) and isinstance(n.target, ast.Name) and n.target.id == e.id:
                assigned = True   # walrus: (name := value)
                out |= self.origin(n.value, fc, depth + 1, ch)
            elif isinstance(n, ast.Expr) and isinstance(n.value, ast.Call) and isinstance(n.value.func, ast.Attribute) \
                    and n.value.func.attr in ("append", "extend", "add", "insert") and isinstance(n.value.func.value, ast.Name) \
                    and n.value.func.value.id == e.id and n.value.args:
                # elements put into a local container
                out |= self.origin(n.value.args[-1], fc, depth + 1, ch)
            elif isinstance(n, (ast.For, ast.comprehension)):
                if any(isinstance(x, ast.Name) and x.id == e.id for x in ast.walk(n.target)):
                    assigned = True
                    it = n.iter
                    if isinstance(it, ast.Call) and dotted(it.func) == "enumerate" and isinstance(n.target, ast.Tuple) \
                            and isinstance(n.target.elts[0], ast.Name) and n.target.elts[0].id == e.id:
                        out.add(("NUM", ch))
                    elif isinstance(it, ast.Call) and dotted(it.func) in ("range", "enumerate") and dotted(it.func) == "range":
                        out.add(("NUM", ch))
                    elif self._chart_values(f, it):
                        # documented API contract: the elements of a chart-data `values` sequence are numbers
                        out.add(("NUM", ch + ("numeric by API contract: element of a chart `values` sequence",)))
                    elif isinstance(it, ast.Call) and dotted(it.func) == "enumerate" and it.args:
                        out |= self.origin(it.args[0], fc, depth + 1, ch)
                    else:
                        comp_ = None
                        if isinstance(n.target, ast.Tuple):
                            # `for a, b in <generator of pairs>`: b is the second component of what the generator makes
                            pos_ = [i_ for i_, x_ in enumerate(n.target.elts) if isinstance(x_, ast.Name) and x_.id == e.id]
                            if pos_:
                                comp_ = self._iter_component(it, pos_[0], len(n.target.elts), fc, depth, ch)
                        out |= comp_ if comp_ is not None else self.origin(it, fc, depth + 1, ch)
            elif isinstance(n, ast.With):
                for item in n.items:
                    if isinstance(item.optional_vars, ast.Name) and item.optional_vars.id == e.id:
                        assigned = True
                        out |= self.origin(item.context_expr, fc, depth + 1, ch)
        if e.id in pnames:
            out |= self._param(f, e.id, fc, depth, ch)
            return out
        if assigned:
            return out or {("UNKNOWN", ch)}
        # nested function parameter / closure variable: look in enclosing defs
        for n in ast.walk(f.node):
            if isinstance(n, (ast.FunctionDef, ast.Lambda)) and n is not f.node:
                args = n.args
                if e.id in [x.arg for x in args.args]:
                    # parameter of a local function: origins of the arguments at its local call sites
                    found = False
                    if isinstance(n, ast.FunctionDef):
                        idx = [x.arg for x in args.args].index(e.id)
                        for c in ast.walk(f.node):
                            if isinstance(c, ast.Call) and isinstance(c.func, ast.Name) and c.func.id == n.name and idx < len(c.args):
                                out |= self.origin(c.args[idx], fc, depth + 1, ch)
                                found = True
                    if found:
                        return out
                for m in ast.walk(n):
                    if isinstance(m, ast.Assign):
                        for t in m.targets:
                            if isinstance(t, ast.Name) and t.id == e.id:
                                out |= self.origin(m.value, fc, depth + 1, ch)
                    if isinstance(m, (ast.For, ast.comprehension)) and any(
                            isinstance(x, ast.Name) and x.id == e.id for x in ast.walk(m.target)):
                        out |= self.origin(m.iter, fc, depth + 1, ch)
        if out:
            return out
        # module-level constant / class
        v = prog_const(self.prog, e, fc)
        if not isinstance(v, Unknown):
            return {("CONST", ch)}
        return {("UNKNOWN", ch)}

    @staticmethod
    def _chart_values(f, it):
        from .itersrc import source_of

        inner = it.args[0] if isinstance(it, ast.Call) and dotted(it.func) == "enumerate" and it.args else it
        try:
            t = source_of(f.node, inner, None, None)["terminal"] or ""
        except Exception:  # noqa: BLE001
            return False
        return t == "values" or t.endswith(".values")

    def _iter_component(self, it, i, n, fc, depth, ch, hops=0):
        """Origins of the i-th component of the elements `it` yields, when `it` is (a parameter bound, for the call being evaluated, to)
        a generator expression / list whose element is an n-tuple display; None when it is not of that shape."""
        if hops > 3:
            return None
        if isinstance(it, (ast.GeneratorExp, ast.ListComp)) and isinstance(it.elt, ast.Tuple) and len(it.elt.elts) == n:
            return self.origin(it.elt.elts[i], fc, depth + 1, ch + ("[%d] of the generated tuples" % i,))
        if isinstance(it, (ast.List, ast.Tuple)) and it.elts and all(isinstance(x, ast.Tuple) and len(x.elts) == n for x in it.elts):
            out = set()
            for x in it.elts:
                out |= self.origin(x.elts[i], fc, depth + 1, ch)
            return out
        if isinstance(it, ast.Name):
            bind = getattr(self, "_bind", None)
            if bind and bind[-1][0] is fc.fn and it.id in bind[-1][1]:
                arg, afc = bind[-1][1][it.id]
                top = bind.pop()
                try:
                    return self._iter_component(arg, i, n, afc, depth, ch + ("<- argument %s" % it.id,), hops + 1)
                finally:
                    bind.append(top)
            # a parameter of a private helper: what every call site of the helper passes for it (all of them must be of that shape)
            f = fc.fn
            if it.id in f.params and not self.public_pred(f) and not any(
                    isinstance(x, ast.Name) and x.id == it.id and isinstance(x.ctx, ast.Store) for x in ast.walk(f.node)):
                sites = self.callsites().get(f, [])
                out, okc = set(), bool(sites)
                for caller, call, skip in sites:
                    ps = f.params[1:] if (skip and f.params) else f.params
                    arg = None
                    if it.id in ps:
                        k_ = ps.index(it.id)
                        if k_ < len(call.args) and not any(isinstance(x, ast.Starred) for x in call.args[:k_ + 1]):
                            arg = call.args[k_]
                    for kw in call.keywords:
                        if kw.arg == it.id:
                            arg = kw.value
                    r_ = self._iter_component(arg, i, n, FCtx(caller), depth, ch + ("<- %s:%d" % (caller.qualname, call.lineno),), hops + 1) \
                        if arg is not None else None
                    if r_ is None:
                        okc = False
                        break
                    out |= r_
                if okc:
                    return out
        return None

    def _tuple_component(self, value, i, n, fc, depth, ch):
        """Origins of the i-th component of a call whose callees all return n-tuples literally."""
        if not isinstance(value, ast.Call):
            return None
        cal = [c for c, _ in self.T.callees(value, fc) if isinstance(c, FuncInfo)]
        if not cal:
            return None
        out = set()
        for g in cal:
            rets = [r for r in walk_own(g.node) if isinstance(r, ast.Return) and r.value is not None]
            if not rets:
                return None
            for r in rets:
                if isinstance(r.value, ast.Tuple) and len(r.value.elts) == n:
                    out |= self.origin(r.value.elts[i], FCtx(g, g.cls), depth + 1, ch + ("-> %s[%d]" % (g.qualname, i),))
                    continue
                # a record (NamedTuple / dataclass) construction: its i-th field
                from . import records as _R

                cs = _R.components(self.prog, g.module, r.value) if isinstance(r.value, ast.Call) else None
                if cs is not None and len(cs) == n and _R.fields_of(self.prog, g.module, r.value.func) is not None:
                    out |= self.origin(cs[i], FCtx(g, g.cls), depth + 1, ch + ("-> %s[%d]" % (g.qualname, i),))
                else:
                    return None
        return out

    def _ann_numeric(self, ann):
        if ann is None:
            return None
        txt = ast.unparse(ann).replace("Optional[", "").replace("]", "").replace(" | None", "").replace("None | ", "")
        parts = [p.strip() for p in txt.split("|")]
        if all(p in NUM_ANN for p in parts):
            return True
        if any(p in ("str", "bytes", "Any", "object") or p.startswith(("str", "IO")) for p in parts):
            return False
        return None

    def _param(self, f, pname, fc, depth, ch):
        bind = getattr(self, "_bind", None)
        if bind and bind[-1][0] is f and pname in bind[-1][1]:
            arg, afc = bind[-1][1][pname]
            top = bind.pop()   # the argument is evaluated in the caller's context
            try:
                return self.origin(arg, afc, depth + 1, ch + ("<- argument %s" % pname,))
            finally:
                bind.append(top)
        out = set()
        a = f.node.args
        ann = None
        for x in a.posonlyargs + a.args + a.kwonlyargs:
            if x.arg == pname:
                ann = x.annotation
        num = self._ann_numeric(ann)
        if num is True:
            return {("NUM", ch + ("%s(%s: %s)" % (f.qualname, pname, ast.unparse(ann)),))}
        if pname in ("self", "cls"):
            return {("CONST", ch)}
        if ann is not None and num is None:
            # annotated with a repo class / enum: not an arbitrary string
            t = self.T.ann(ann, f.module, f.cls)
            if t and all(x[0] in ("inst", "class") for x in t if x != ("prim", "NoneType")):
                enum_only = all(x[0] == "inst" and self.prog.is_enum(x[1]) for x in t if x != ("prim", "NoneType"))
                if enum_only:
                    return {("TOKEN", ch + ("%s(%s: enum)" % (f.qualname, pname),))}
        sites = self.callsites().get(f, [])
        params = f.params
        for caller, call, skip in sites:
            ps = params[1:] if (skip and params) else params
            arg = None
            if pname in ps:
                i = ps.index(pname)
                if i < len(call.args) and not any(isinstance(x, ast.Starred) for x in call.args[:i + 1]):
                    arg = call.args[i]
            for kw in call.keywords:
                if kw.arg == pname:
                    arg = kw.value
            if arg is None:
                # default value
                continue
            out |= self.origin(arg, FCtx(caller), depth + 1, ch + ("<- %s:%d" % (caller.qualname, call.lineno),))
        # defaults
        defaults = dict(zip([x.arg for x in (a.posonlyargs + a.args)][::-1], a.defaults[::-1]))
        for x, dflt in zip(a.kwonlyargs, a.kw_defaults):
            if dflt is not None:
                defaults[x.arg] = dflt
        if pname in defaults:
            out |= self.origin(defaults[pname], fc, depth + 1, ch)
        if self.public_pred(f) and num is not True:
            out.add(("USER", ch + ("public parameter %s(%s)" % (f.qualname, pname),)))
        if not out:
            out.add(("UNKNOWN", ch + ("parameter %s of %s has no call site" % (pname, f.qualname),)))
        return out

    # -- attributes --------------------------------------------------------------------------------
    def _attr(self, e, fc, depth, ch):
        prog, T, M = self.prog, self.T, self.M
        d = dotted(e)
        # constants: Enum members, class attributes, module constants
        if d is not None and fc.module is not None:
            v = prog.const(e, fc.module, None, fc.selfcls)
            if not isinstance(v, Unknown):
                return {("CONST", ch)}
        if e.attr == "xml_value":
            return {("TOKEN", ch)}
        if e.attr in ("filename", "_filename") or e.attr == "desc":
            pass
        bt = T.expr(e.value, fc)
        out = set()
        classes = [a[1] for a in bt if a[0] == "inst"]
        if not classes and not bt:
            # unknown receiver: by-name over the repo (properties / fields of that name), over-approximate
            for c in prog.all_classes():
                if e.attr in c.methods and c.methods[e.attr].kind in ("property", "lazyproperty"):
                    classes.append(c)
            if not classes:
                # field name on unknown object: every class assigning self.<attr>
                for c in prog.all_classes():
                    if self._field_stores(c, e.attr):
                        classes.append(c)
            if not classes:
                return {("UNKNOWN", ch + ("attribute %s on an untyped receiver" % e.attr,))}
        having = [c for c in classes if self._has_member(c, e.attr)]
        if having and len(having) < len(classes):
            classes = having  # duck typing: a receiver lacking the member cannot be the run-time type here
        for c in classes:
            g = prog.lookup(c, e.attr)
            if g is not None and g.kind in ("property", "lazyproperty"):
                out |= self._returns(g, c, depth, ch)
                continue
            if g is not None:
                out.add(("CONST", ch))  # bound method object
                continue
            if M.is_oxml_class(c):
                dd = [x for x in M.attr_decls(c) if x.prop == e.attr]
                if dd:
                    st = dd[0].st
                    if isinstance(st, ClassRef) and (prog.is_enum(st.cls)):
                        out.add(("TOKEN", ch))
                    elif isinstance(st, ClassRef) and st.cls.name in ("XsdId",):
                        # xsd:ID is an NCName: no quote, ampersand or angle bracket in a schema-valid document
                        out.add(("TOKEN", ch + ("xsd:ID attribute %s/@%s" % (c.name, dd[0].attr),)))
                    elif isinstance(st, ClassRef) and self._st_is_string(st.cls):
                        out.add(("DOC", ch + ("document attribute %s/@%s" % (c.name, dd[0].attr),)))
                    else:
                        out.add(("NUM", ch))
                    continue
                if e.attr in ("text", "tail"):
                    out.add(("DOC", ch + ("element text",)))
                    continue
                if e.attr == "tag":
                    out.add(("CONST", ch))
                    continue
            stores = self._field_stores(c, e.attr)
            if stores:
                for f, val in stores:
                    out |= self.origin(val, FCtx(f, c), depth + 1, ch + ("field %s.%s" % (c.name, e.attr),))
                continue
            a = prog.lookup_attr(c, e.attr)
            if a is not None:
                out.add(("CONST", ch))
                continue
            if prog.is_enum(c):
                out.add(("TOKEN" if e.attr == "xml_value" else "NUM", ch))
                continue
            out.add(("UNKNOWN", ch + ("attribute %s.%s" % (c.name, e.attr),)))
        for a in bt:
            if a[0] == "prim":
                out.add(("NUM" if a[1] in ("int", "float", "bool") else "UNKNOWN", ch))
            elif a[0] == "lxml":
                out.add(("DOC", ch + ("lxml element attribute",)))
        return out or {("UNKNOWN", ch)}

    def _has_member(self, c, name):
        if self.prog.lookup(c, name) is not None or self.prog.lookup_attr(c, name) is not None:
            return True
        if self.M.is_oxml_class(c) and any(x.prop == name for x in self.M.attr_decls(c)):
            return True
        return bool(self._field_stores(c, name))

    def _st_is_string(self, c):
        names = [k.name for k in self.prog.mro(c)]
        return "BaseStringType" in names or c.name in ("XsdString", "XsdToken", "XsdAnyUri")

    def _field_stores(self, c, name):
        out = []
        for k in self.prog.mro(c):
            for f in list(k.methods.values()) + list(k.setters.values()):
                for n in ast.walk(f.node):
                    if isinstance(n, ast.Assign):
                        for t in n.targets:
                            if isinstance(t, ast.Attribute) and dotted(t) == "self." + name:
                                out.append((f, n.value))
                            elif isinstance(t, ast.Tuple):
                                for i, el in enumerate(t.elts):
                                    if isinstance(el, ast.Attribute) and dotted(el) == "self." + name:
                                        if isinstance(n.value, ast.Tuple) and len(n.value.elts) == len(t.elts):
                                            out.append((f, n.value.elts[i]))
                                        else:
                                            out.append((f, n.value))
        # subclasses may assign too
        return out

    def _returns(self, g, selfcls, depth, ch):
        out = set()
        fc = FCtx(g, selfcls)
        ch2 = ch + ("-> %s" % g.qualname,)
        ann = g.node.returns
        if ann is not None and self._ann_numeric(ann) is True:
            return {("NUM", ch2)}
        found = False
        for n in walk_own(g.node):
            if isinstance(n, ast.Return) and n.value is not None:
                found = True
                out |= self.origin(n.value, fc, depth + 1, ch2)
            elif isinstance(n, (ast.Yield,)) and n.value is not None:
                found = True
                out |= self.origin(n.value, fc, depth + 1, ch2)
        if not found:
            out.add(("CONST", ch2))
        return out

    # -- calls -------------------------------------------------------------------------------------
    def _call(self, e, fc, depth, ch):
        prog, T = self.prog, self.T
        fn = dotted(e.func)
        last = fn.split(".")[-1] if fn else None
        if fn in NUM_FUNCS or (last in NUM_FUNCS and fn and not fn.startswith("self")):
            return {("NUM", ch)}
        if fn in STR_PASSTHRU and e.args:
            return self.origin(e.args[0], fc, depth + 1, ch)
        if fn in ("escape", "saxutils.escape", "xml.sax.saxutils.escape") and e.args:
            kind = "SAN_TEXT"
            if len(e.args) > 1 or e.keywords:
                ent = e.args[1] if len(e.args) > 1 else e.keywords[0].value
                dv = prog.const(ent, fc.module)
                if isinstance(dv, dict) and '"' in dv:
                    kind = "SAN_ATTR"
            return {(kind, ch)}
        if fn in ("quoteattr", "saxutils.quoteattr"):
            return {("SAN_ATTR", ch)}
        if fn == "nsdecls":
            return {("CONST", ch)}
        if fn == "cast" and len(e.args) == 2:
            return self.origin(e.args[1], fc, depth + 1, ch)
        if fn in ("reversed", "sorted", "list", "tuple", "iter", "set", "frozenset") and e.args:
            return self.origin(e.args[0], fc, depth + 1, ch)  # same elements, other order / container
        if fn in ("filter", "itertools.filterfalse", "filterfalse", "itertools.takewhile", "itertools.dropwhile", "takewhile", "dropwhile") and len(e.args) == 2:
            return self.origin(e.args[1], fc, depth + 1, ch)  # a selection of the same elements
        if fn == "next" and e.args:
            out = self.origin(e.args[0], fc, depth + 1, ch)
            if len(e.args) > 1:
                out = out | self.origin(e.args[1], fc, depth + 1, ch)
            return out
        if fn in ("os.path.basename", "os.path.split", "os.path.splitext", "posixpath.basename", "os.path.abspath",
                  "os.path.join"):
            out = set()
            for a in e.args:
                out |= self.origin(a, fc, depth + 1, ch)
            return {("FILE", ch)} | {x for x in out if x[0] in ("USER", "UNKNOWN")}
        if isinstance(e.func, ast.Attribute):
            meth = e.func.attr
            if meth == "to_xml":
                r = prog.resolve(fc.module, dotted(e.func.value) or "") if fc.module else None
                if isinstance(r, ClassInfo) and prog.is_enum(r):
                    return {("TOKEN", ch)}
            if meth == "format":
                out = self.origin(e.func.value, fc, depth + 1, ch)
                for a in e.args:
                    out |= self.origin(a, fc, depth + 1, ch)
                for k in e.keywords:
                    out |= self.origin(k.value, fc, depth + 1, ch)
                return out
            if meth in ("join",):
                out = set()
                for a in e.args:
                    out |= self.origin(a, fc, depth + 1, ch)
                return out | self.origin(e.func.value, fc, depth + 1, ch)
            if meth in ("strip", "lstrip", "rstrip", "lower", "upper", "replace", "encode", "decode", "title",
                        "capitalize", "split", "rsplit", "partition", "get", "pop"):
                rt = T.expr(e.func.value, fc)
                if not any(a[0] == "inst" and prog.lookup(a[1], meth) is not None for a in rt):
                    return self.origin(e.func.value, fc, depth + 1, ch)
            if meth in ("hexdigest", "isoformat", "strftime"):
                return {("CONST", ch)}
            if meth in ("xpath", "find", "findall", "get") and any(
                    a[0] == "lxml" or (a[0] == "inst" and self.M.is_oxml_class(a[1])) for a in T.expr(e.func.value, fc)):
                return {("DOC", ch + ("read from the document",))}
        out = set()
        cal = T.callees(e, fc)
        for callee, skip in cal:
            if isinstance(callee, FuncInfo):
                selfcls = callee.cls
                if callee.name in ("__init__", "__new__") and callee.cls is not None:
                    out.add(("CONST", ch))  # object construction: not a string value
                    continue
                # a small stateless helper (module-level function / static method) is evaluated for this call: its parameters
                # stand for this call's arguments, not for the arguments of every caller (`_last_unused_name("rId%d", ...)`)
                small = (callee.cls is None or callee.kind == "staticmethod") and len(list(ast.walk(callee.node))) < 400 \
                    and not any(isinstance(x, ast.Starred) for x in e.args) and depth < 25 and len(getattr(self, "_bind", None) or []) < 3
                if small:
                    ps = [x.arg for x in callee.node.args.posonlyargs + callee.node.args.args]
                    b = {p_: (a_, fc) for p_, a_ in zip(ps, e.args)}
                    b.update({k.arg: (k.value, fc) for k in e.keywords if k.arg})
                    if not hasattr(self, "_bind") or self._bind is None:
                        self._bind = []
                    self._bind.append((callee, b))
                    try:
                        out |= self._returns(callee, selfcls, depth, ch)
                    finally:
                        self._bind.pop()
                    continue
                out |= self._returns(callee, selfcls, depth, ch)
            elif isinstance(callee, tuple) and callee and callee[0] == "gen":
                out.add(("DOC", ch))
        if not cal and isinstance(e.func, ast.Name):
            # a nested helper of the calling function (closure / local generator): the values it returns or yields
            nested = [n for n in ast.walk(fc.fn.node) if isinstance(n, (ast.FunctionDef, ast.AsyncFunctionDef)) and n is not fc.fn.node
                      and n.name == e.func.id]
            if len(nested) == 1:
                vals = [x.value for x in ast.walk(nested[0]) if isinstance(x, (ast.Return, ast.Yield)) and x.value is not None]
                for v_ in vals:
                    out |= self.origin(v_, fc, depth + 1, ch + ("-> %s()" % e.func.id,))
                if vals:
                    return out
        if not cal:
            ft = T.expr(e.func, fc)
            if any(a[0] == "ext" for a in ft):
                # external call: conservative join of argument origins
                for a in e.args:
                    out |= self.origin(a, fc, depth + 1, ch)
                return out or {("CONST", ch)}
            if isinstance(e.func, ast.Attribute):
                # by-name fallback
                cands = [g for g in self.prog.all_functions() if g.name == e.func.attr and g.cls is not None]
                for g in cands[:12]:
                    out |= self._returns(g, g.cls, depth, ch + ("by-name",))
            if not out:
                out.add(("UNKNOWN", ch + ("call %s unresolved" % (fn or "?"),)))
        return out


def prog_const(prog, e, fc):
    if fc.module is None:
        return Unknown("no module")
    return prog.const(e, fc.module, None, fc.selfcls)


def _short(e):
    try:
        s = ast.unparse(e)
    except Exception:  # noqa: BLE001
        s = "?"
    return s if len(s) < 50 else s[:47] + "..."


def _is_strish(e):
    return isinstance(e, (ast.Constant, ast.JoinedStr, ast.Name, ast.Attribute, ast.Call, ast.BinOp))


def _percent_specs(left):
    import re

    if isinstance(left, ast.Constant) and isinstance(left.value, str):
        return [m.group(1) for m in re.finditer(r"%[-#0 +]*\d*(?:\.\d+)?([diouxXeEfFgGcrsa])", left.value.replace("%%", ""))]
    return None


def _spec_numeric(spec):
    if isinstance(spec, ast.JoinedStr) and spec.values and isinstance(spec.values[-1], ast.Constant):
        return str(spec.values[-1].value)[-1:] in "dxXofeEgGn"
    return False
