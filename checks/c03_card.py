"""C03 rule R3.6 — unconditional adders never create a second member of a maxOccurs=1 child or a second
member of a choice: every generated `_add_x()` call on a non-fresh receiver, for a child the schema allows
at most once (or that excludes a sibling), is dominated on all paths by the matching `_remove_*()` call /
an `is None` test on the same receiver, or the receiver is brand new by construction in every caller."""

from __future__ import annotations

import ast

from sa.effects import Effects
from sa.pysrc import dotted
from sa.types import FCtx, walk_own
from sa.xmlchemy_model import choice_prop


def _singleton_info(prog, S, M, owners, decl, tag):
    """(is_singleton, exclusive sibling tags) of child `tag` over the schema types of the owner classes."""
    cq = prog.qn(tag)
    single = False
    excl = set()
    for o in owners:
        tags = M.tags_for_class(o) or [t for c in prog.subclasses(o) for t in M.tags_for_class(c)]
        for t in tags:
            for tq in sorted(x for x in S.elem_decls.get(prog.qn(t), ()) if x in S.ctypes):
                sigma = S.alphabet(tq)
                if cq not in sigma:
                    continue
                R = S.automaton(tq, relaxed=True)
                if not R.accepts([cq, cq]):
                    single = True
                for y in sigma:
                    if y != cq and not R.accepts([cq, y]) and not R.accepts([y, cq]):
                        excl.add(S.pfx(y))
    return single, excl


def _must_removed(f, target_call):
    """Set of (receiver text, method name) for `_remove_*` calls and none-test facts ('none', recv, prop) that hold on
    every path reaching target_call."""
    result = {}

    def calls_in(node):
        out = set()
        for n in ast.walk(node):
            if isinstance(n, ast.Call) and isinstance(n.func, ast.Attribute) and n.func.attr.startswith("_remove_"):
                out.add((ast.unparse(n.func.value), n.func.attr))
            # R.remove(R.get_or_add_x()) / R.remove(R.x): removal of x through lxml
            if isinstance(n, ast.Call) and isinstance(n.func, ast.Attribute) and n.func.attr == "remove" and len(n.args) == 1:
                a = n.args[0]
                r = ast.unparse(n.func.value)
                if isinstance(a, ast.Call) and isinstance(a.func, ast.Attribute) and a.func.attr.startswith("get_or_add_") \
                        and ast.unparse(a.func.value) == r:
                    out.add((r, "_remove_" + a.func.attr[len("get_or_add_"):]))
                elif isinstance(a, ast.Attribute) and ast.unparse(a.value) == r:
                    out.add((r, "_remove_" + a.attr))
        return out

    def contains(node):
        return any(n is target_call for n in ast.walk(node))

    def none_fact(test, positive):
        # `X.y is None` (positive) / `X.y is not None` (negative)
        if isinstance(test, ast.Compare) and len(test.ops) == 1 and isinstance(test.comparators[0], ast.Constant) \
                and test.comparators[0].value is None and isinstance(test.left, (ast.Attribute, ast.Name)):
            is_ = isinstance(test.ops[0], ast.Is)
            isnot = isinstance(test.ops[0], ast.IsNot)
            if (is_ and positive) or (isnot and not positive):
                if isinstance(test.left, ast.Attribute):
                    return ("none", ast.unparse(test.left.value), test.left.attr)
                # local alias: v = R.attr ; if v is None:
                for m in walk_own(f.node):
                    if isinstance(m, ast.Assign) and len(m.targets) == 1 and isinstance(m.targets[0], ast.Name) \
                            and m.targets[0].id == test.left.id and isinstance(m.value, ast.Attribute):
                        return ("none", ast.unparse(m.value.value), m.value.attr)
                return ("nonevar", test.left.id, "")
        return None

    def block(stmts, facts):
        cur = set(facts)
        for st in stmts:
            if contains(st):
                if isinstance(st, ast.If):
                    if contains(st.test):
                        result["facts"] = cur
                        return None
                    a = set(cur)
                    f1 = none_fact(st.test, True)
                    if f1:
                        a.add(f1)
                    b = set(cur)
                    f2 = none_fact(st.test, False)
                    if f2:
                        b.add(f2)
                    if any(contains(x) for x in st.body):
                        return block(st.body, a)
                    return block(st.orelse, b)
                if isinstance(st, (ast.For, ast.While, ast.With, ast.Try)):
                    inner = st.body
                    if isinstance(st, ast.Try):
                        for part in [st.body, st.orelse, st.finalbody] + [h.body for h in st.handlers]:
                            if any(contains(x) for x in part):
                                return block(part, cur)
                    return block(inner, cur)
                result["facts"] = cur
                return None
            # statement fully before the target on this path
            if isinstance(st, ast.If):
                ra = calls_in(ast.Module(body=st.body, type_ignores=[]))
                rb = calls_in(ast.Module(body=st.orelse, type_ignores=[]))
                term_a = any(isinstance(x, (ast.Return, ast.Raise)) for x in st.body)
                term_b = any(isinstance(x, (ast.Return, ast.Raise)) for x in st.orelse)
                if term_a and not term_b:
                    cur |= rb
                    f2 = none_fact(st.test, False)
                    if f2:
                        cur.add(f2)
                elif term_b and not term_a:
                    cur |= ra
                else:
                    cur |= (ra & rb)
            elif isinstance(st, (ast.For, ast.While)):
                pass
            else:
                cur |= calls_in(st)
        return cur

    block(f.node.body, set())
    return result.get("facts", set())


def run(ctx, prog, S, M, T, E):
    ctx.rule("R3.6", "an unconditional _add_x() of an at-most-once / mutually exclusive child is preceded on all paths by the "
                     "matching removal or an absence test, or works on an element that is new by construction")
    nsites = 0
    seen = set()
    callers_cache = {}

    def callers_of(meth_name):
        if meth_name not in callers_cache:
            out = []
            for g in prog.all_functions():
                for n in walk_own(g.node):
                    if isinstance(n, ast.Call) and isinstance(n.func, ast.Attribute) and n.func.attr == meth_name:
                        out.append((g, n))
            callers_cache[meth_name] = out
        return callers_cache[meth_name]

    for f in E.funcs:
        if f.module.name == "pptx.oxml.xmlchemy":
            continue
        fc = FCtx(f)
        fresh = E.fresh_roots(f, fc)
        for n in walk_own(f.node):
            if not (isinstance(n, ast.Call) and isinstance(n.func, ast.Attribute)):
                continue
            if not n.func.attr.startswith(("_add_", "add_", "_insert_")):
                continue
            root = E._root_name(n.func.value)
            if root in fresh:
                continue
            bt = T.expr(n.func.value, fc)
            ft = T.member(bt, n.func.attr, fc, node=n.func)
            gens = [a for a in ft if a[0] == "gen" and a[1] in ("add", "public_add", "insert")]
            if not gens:
                continue
            for a in gens:
                kind, decl, tag = a[1], a[2], a[3]
                owners = [x[1] for x in bt if x[0] == "inst" and M.is_oxml_class(x[1]) and decl.cls in prog.mro(x[1])] or [decl.cls]
                single, excl = _singleton_info(prog, S, M, owners, decl, tag)
                # only alternatives the class itself declares can be (and need to be) removed by it
                declared = {t for o in owners for d in M.child_decls(o) for t in d.tags}
                excl = {y for y in excl if y in declared}
                if not single and not excl:
                    continue
                key = "%s:%s" % (f.qualname, tag)
                if key in seen:
                    continue
                seen.add(key)
                recv = ast.unparse(n.func.value)
                p = choice_prop(tag) if decl.kind == "ZeroOrOneChoice" else decl.prop
                if recv == "self" and f.name in ("_add_" + p, "_insert_" + p) and n.func.attr == "_insert_" + p:
                    continue  # hand-written override of the generated adder: its callers are the sites that matter
                nsites += 1
                facts = _must_removed(f, n)
                need = []
                if single and not ((recv, "_remove_" + p) in facts or ("none", recv, p) in facts
                                   or (decl.kind == "ZeroOrOneChoice" and (recv, "_remove_" + decl.prop) in facts)):
                    need.append(tag)
                for y in sorted(excl):
                    yd = [d for o in owners for d in M.child_decls(o) if y in d.tags]
                    yp = [choice_prop(y) if d.kind == "ZeroOrOneChoice" else d.prop for d in yd]
                    grp = [d.prop for d in yd if d.kind == "ZeroOrOneChoice"]
                    if not any((recv, "_remove_" + q) in facts for q in yp + grp):
                        need.append(y)
                if not need:
                    ctx.ok("R3.6", key, sample={"site": "%s:%d" % (f.file, n.lineno), "child": tag, "guard": "removed/absent before add"})
                    continue
                # receiver new by construction: a local assigned from get_or_add/_add of Z after _remove_Z on the same owner
                if _new_by_construction(f, n.func.value, facts):
                    ctx.ok("R3.6", key, sample={"site": "%s:%d" % (f.file, n.lineno), "child": tag, "guard": "receiver just created"})
                    continue
                # receiver is rooted at a parameter that every caller fills with a freshly created element
                if root in f.params and root not in ("self", "cls"):
                    sites = [(g, c) for g, c in callers_of(f.name) if g is not f]
                    idx = (f.params[1:] if f.cls is not None and f.kind != "staticmethod" else f.params).index(root) \
                        if root in (f.params[1:] if f.cls is not None and f.kind != "staticmethod" else f.params) else None
                    okc = bool(sites) and idx is not None
                    for g, c in sites:
                        if idx is None or idx >= len(c.args):
                            okc = False
                            continue
                        a_ = c.args[idx]
                        gfc = FCtx(g)
                        if not ((isinstance(a_, ast.Name) and a_.id in E.fresh_roots(g, gfc)) or E._is_creator(a_, gfc)):
                            okc = False
                    if okc:
                        ctx.ok("R3.6", key, sample={"site": "%s:%d" % (f.file, n.lineno), "child": tag,
                                                    "guard": "parameter is a freshly created element in every caller",
                                                    "callers": [g.qualname for g, _ in sites][:4]})
                        continue
                # precondition established by every caller (method on self)
                if recv == "self" and f.cls is not None:
                    sites = [(g, c) for g, c in callers_of(f.name) if g is not f]
                    if sites and all(_caller_establishes(g, c) for g, c in sites):
                        ctx.ok("R3.6", key, sample={"site": "%s:%d" % (f.file, n.lineno), "child": tag,
                                                    "guard": "every caller passes a just-created element",
                                                    "callers": [g.qualname for g, _ in sites][:4]})
                        continue
                ctx.violation("R3.6", key, "%s() can add a second <%s>%s: no removal / absence test of %s dominates the call" % (
                    n.func.attr, tag, " next to its exclusive sibling" if set(need) - {tag} else "",
                    ", ".join(need)), file=f.file, line=n.lineno)
    ctx.count("singleton_adder_sites", nsites)


def _new_by_construction(f, recv_expr, facts_at_use):
    """recv is a local assigned from `W.get_or_add_Z()` / `W._add_Z()` where `W._remove_Z()` dominates that assignment."""
    if not isinstance(recv_expr, ast.Name):
        return False
    for n in walk_own(f.node):
        if isinstance(n, ast.Assign) and len(n.targets) == 1 and isinstance(n.targets[0], ast.Name) \
                and n.targets[0].id == recv_expr.id and isinstance(n.value, ast.Call) and isinstance(n.value.func, ast.Attribute):
            a = n.value.func.attr
            if a.startswith("_add_") or (a.startswith("add_") and not a.startswith("add_no")):
                return True  # an unconditional adder always returns a brand-new element
            for pre in ("get_or_add_",):
                if a.startswith(pre):
                    z = a[len(pre):]
                    w = ast.unparse(n.value.func.value)
                    facts = _must_removed(f, n.value)
                    if (w, "_remove_" + z) in facts or ("none", w, z) in facts:
                        return True
    return False


def _caller_establishes(g, call):
    recv = call.func.value
    facts = _must_removed(g, call)
    return _new_by_construction(g, recv, facts)
