"""C07 — chart XML valid and faithful (decidable clauses).

Rules
  R7.1  each chart XML writer, specialised to each of its chart types (29 in all), emits XML included in the
        DrawingML chart schema (child-sequence language inclusion, attributes), c:chartSpace down to c:pt
  R7.2  sibling writers agree: every element-returning series-writer property and its `*_xml` text twin evaluate to
        the same skeleton (so replace_data writes what creation writes)
  R7.3  rewriters: in every _rewrite_ser_data the removed children equal the inserted children, only data children
        (tx/cat/val/xVal/yVal/bubbleSize) are touched, and the inserters are the generated schema-positioned ones
  R7.4  series idx/order: writers take both from series.index; cloned series take max(existing over all plots)+1
  R7.8  PlotTypeInspector.chart_type, interpreted over each writer's template, returns the chart type written (shared with
        C20 R20.5)
  R7.7  per chart type, ChartXmlWriter's class and SeriesXmlRewriterFactory's class build series XML with the same series-writer
        class (shared with C08 R8.5)
  R7.6  date categories: epochs and the 1900 leap-year compatibility rule of Category._excel_date_number equal the
        standard's definition (shared with C08 R8.4)
  R7.5  every c:ptCount/@val is the length of the same sequence the sibling c:pt iteration walks
"""

from __future__ import annotations

import ast

from sa.pysrc import dotted
from sa.report import AnalysisError
from sa.strabs import S as AS
from sa.strabs import Hole, StrEval, holes
from sa.templates import chart_writers
from sa.types import FCtx, Types, walk_own
from sa.xmlskel import skeleton
from sa.xmlvalid import validate

DATA_CHILDREN = {"tx", "cat", "val", "xVal", "yVal", "bubbleSize"}


def canon(node, markers):
    """Canonical form of a skeleton subtree (holes by their source text)."""
    import re

    from sa.xmlskel import _MARK

    def val(s):
        def rep(m):
            mk = markers[int(m.group(1))]
            if mk.hole is not None:
                return "{%s%s}" % (mk.hole.src, "|" + mk.hole.san if mk.hole.san else "")
            return "{%s}" % "|".join(mk.values)
        return _MARK.sub(rep, s)

    if node.kind == "elem":
        attrs = sorted((k, val(v)) for k, v in node.attrs.items())
        return ("E", node.tag, tuple(attrs), tuple(val(t).strip() for t in node.text),
                tuple(canon(c, markers) for c in node.children))
    return (node.kind, tuple(canon(c, markers) for c in node.children))


def _enclosing(n):
    p = n.parent
    while p is not None and p.kind != "elem":
        p = p.parent
    return p


def _in_star(n):
    p = n.parent
    while p is not None:
        if p.kind == "star":
            return True
        p = p.parent
    return False


def run(ctx):
    from checks.c10 import load

    prog, S, M = load(ctx.repo)

    from sa.xmlchemy_model import ALL_PARTS, mechanism_gate  # noqa: F401


    mechanism_gate(ctx, M, ("insert", "remover", "adder"))
    T = Types(prog, M)
    ctx.level = "other"
    ctx.trusted = ["CPython ast / xml.etree", "dml-chart.xsd / dml-main.xsd under /repo/spec as oracle",
                   "abstract string evaluation of chart/xmlwriter.py (an uninterpretable construct is exit 2)"]
    ctx.explanation = (
        "The eight chart XML writers are evaluated abstractly once per chart type they serve (conditions on the chart type "
        "folded): the result is a skeleton in which series / point loops are Kleene stars and data-dependent branches are "
        "alternations, so inclusion of each element's child language in its content model covers every series count, point "
        "count, category shape (string, numeric, date, multi-level) and missing-value pattern at once. Twins, rewriter "
        "pairing, idx/order allocation and ptCount provenance are structural comparisons on the same evaluation.")
    ctx.not_decided = ["that the read API returns the supplied values (run-time)", "date serial arithmetic",
                       "that surviving series keep their formatting under every replace_data history"]
    xm = prog.modules.get("pptx.chart.xmlwriter")
    if xm is None:
        raise AnalysisError("anchor vanished: pptx.chart.xmlwriter")
    ctx.note_file(xm.path)

    # -- R7.1 ------------------------------------------------------------------------------------
    ctx.rule("R7.1", "chart writer output (per chart type) is included in the chart schema")
    writers = chart_writers(prog)
    ntypes = sum(len(ts) for _, ts in writers)
    ctx.count("chart_writers", len(writers))
    ctx.count("chart_types", ntypes)
    cs_type = S.global_elems.get(prog.qn("c:chartSpace"))
    if cs_type is None:
        raise AnalysisError("schema has no c:chartSpace element")
    nelem = 0
    all_markers = []
    agg = {}
    for cls, types in writers:
        xml = prog.lookup(cls, "xml")
        if xml is None:
            raise AnalysisError("writer %s has no xml property" % cls.name)
        for member in types:
            key = "%s[%s]" % (cls.name, member.name)
            ev = StrEval(prog, T, bindings={"self._chart_type": member})
            v = ev.function_value(xml, cls)
            for u in ev.unknown:
                ctx.error("%s:%s" % (u[1].file if u[1] else "?", u[2]), "writer construct not interpreted: %s" % u[0])
            if ev.unknown:
                continue   # a hole standing for an uninterpreted sub-template says nothing about the markup: no verdict on this writer
            if not isinstance(v, AS):
                ctx.error(key, "xml does not evaluate to a string")
                continue
            try:
                sk = skeleton(v, prog.nsmap)
            except AnalysisError as e:
                ctx.error(key, str(e))
                continue
            if len(sk.roots) != 1 or sk.roots[0].tag != prog.qn("c:chartSpace"):
                ctx.violation("R7.1", key, "writer output is not a single c:chartSpace root", file=xml.file, line=xml.line)
                continue
            stats = {}
            probs = list(validate(S, sk.roots[0], cs_type, sk.markers, stats=stats))
            nelem += stats.get("elements", 0)
            all_markers.append((cls, member, sk))
            if probs:
                for kind, path, msg, node in probs:
                    k2 = "%s:%s:%s" % (cls.name, path, kind)
                    if kind == "attr-value" and "outside xsd:unsignedInt" in msg and (
                            path.endswith("/c:axId/@val") or path.endswith("/c:crossAx/@val")):
                        k2 = "%s:negative-axis-id" % cls.name
                        msg = "axis ids are written as negative literals (as PowerPoint does) but c:axId/c:crossAx @val is " \
                              "xsd:unsignedInt, e.g. " + msg.split(" outside")[0]
                    agg.setdefault(k2, [msg, xml, []])[2].append(member.name)
            else:
                ctx.ok("R7.1", key, sample={"writer": cls.name, "chart_type": member.name,
                                            "elements": stats.get("elements", 0), "holes": len(sk.markers)})
    for k2, (msg, xml, members) in sorted(agg.items()):
        ctx.violation("R7.1", k2, "%s (chart types: %s)" % (msg, ", ".join(sorted(set(members)))), file=xml.file, line=xml.line)
    ctx.count("chart_template_elements", nelem)

    # the writer classes: those of the chart-writer module and of the chart modules it takes definitions from (a writer family
    # moved to a module of its own is still part of the writers)
    wmods = [xm] + [prog.modules[i_[1]] for i_ in xm.imports.values() if i_[0] == "attr" and i_[1].startswith("pptx.chart.")
                    and i_[1] in prog.modules and prog.modules[i_[1]] is not xm]
    wmods = list({id(m_): m_ for m_ in wmods}.values())
    writer_classes = [c_ for m_ in wmods for c_ in dict.values(m_.classes)]
    # -- R7.2 ------------------------------------------------------------------------------------
    ctx.rule("R7.2", "element twin and *_xml twin of each series-writer property evaluate to the same skeleton")
    ntw = 0
    for c in writer_classes:
        for name, f in sorted(c.methods.items()):
            if name.endswith("_xml") and f.kind == "property" and name[:-4] in c.methods \
                    and c.methods[name[:-4]].kind == "property":
                ntw += 1
                key = "%s.%s" % (c.name, name[:-4])
                sub = [k for k in prog.all_classes() if c in prog.mro(k)]
                for k in sub:
                    ev = StrEval(prog, T)
                    a = ev.function_value(c.methods[name[:-4]], k)
                    b = ev.function_value(f, k)
                    if isinstance(a, tuple) and a and a[0] == "parsed":
                        a = a[1]
                    if not isinstance(a, AS) or not isinstance(b, AS):
                        ctx.error(key, "twin does not evaluate to a template (%s)" % k.name)
                        continue
                    try:
                        ska, skb = skeleton(a, prog.nsmap), skeleton(b, prog.nsmap)
                    except AnalysisError as e:
                        ctx.error(key, str(e))
                        continue
                    ca = tuple(canon(r, ska.markers) for r in ska.roots)
                    cb = tuple(canon(r, skb.markers) for r in skb.roots)
                    if ca == cb:
                        ctx.ok("R7.2", key + "@" + k.name, sample={"twins": "%s / %s" % (name[:-4], name), "class": k.name})
                    else:
                        ctx.violation("R7.2", key, "element-returning twin and text twin build different XML (class %s)" % k.name,
                                      file=f.file, line=f.line)
    ctx.count("twin_pairs", ntw)

    # -- R7.3 ------------------------------------------------------------------------------------
    ctx.rule("R7.3", "rewriters remove and re-insert the same data children through generated inserters")
    nrw = 0
    from sa.inline import expand as _exp73, with_self_class as _wsc73

    rw_base = xm.classes.get("_BaseSeriesXmlRewriter")
    for c in writer_classes:
        # every concrete rewriter, with the method it runs (its own or the base's template method specialised to its tables / hooks)
        if rw_base is None or rw_base not in prog.mro(c):
            continue
        f0 = prog.lookup(c, "_rewrite_ser_data")
        if f0 is None:
            continue
        fx73 = _exp73(prog, _wsc73(f0, c), local_only=True)
        if all(isinstance(s, (ast.Raise, ast.Expr, ast.Pass)) for s in fx73.body) or not any(isinstance(n, ast.Call) for n in ast.walk(fx73)):
            continue   # the abstract base
        import copy as _copy73

        f = _copy73.copy(f0)
        f.node = fx73
        nrw += 1
        ser = f0.params[1]
        removed, inserted, other = [], [], []
        for n in walk_own(f.node):
            if isinstance(n, ast.Call) and isinstance(n.func, ast.Attribute) and isinstance(n.func.value, ast.Name) \
                    and n.func.value.id == ser:
                a = n.func.attr
                if a.startswith("_remove_"):
                    removed.append(a[8:])
                elif a.startswith("_insert_"):
                    inserted.append(a[8:])
                else:
                    other.append(a)
        key = c.name
        ser_cls = prog.classes_named("CT_SeriesComposite")
        bad = None
        if sorted(removed) != sorted(inserted):
            bad = "removes %s but inserts %s" % (sorted(removed), sorted(inserted))
        elif not set(removed) <= DATA_CHILDREN:
            bad = "touches non-data children %s" % sorted(set(removed) - DATA_CHILDREN)
        elif other:
            bad = "other mutating calls on the series element: %s" % other
        elif ser_cls:
            from checks.c10 import complex_types_for, decide

            for x in inserted:
                eff = M.effective(ser_cls[0], "_insert_" + x)
                if eff is None or eff[0] != "generated":
                    bad = "_insert_%s is not the generated schema-positioned inserter" % x
                    continue
                decl, ctag = eff[1], eff[2]
                succ = tuple(prog.qn(t) for t in decl.successors)
                for stag in M.tags_for_class(ser_cls[0]):
                    for tq in complex_types_for(S, prog.qn(stag)):
                        if prog.qn(ctag) not in S.alphabet(tq):
                            continue
                        fails = decide(S, tq, prog.qn(ctag), succ, M.semantics, 2)
                        if fails:
                            v, idx, valid = fails[0]
                            bad = "re-inserted %s lands at a schema-invalid position in %s for sibling context [%s]" % (
                                ctag, S.tname(tq), ", ".join(S.pfx(t) for t in v))
        if removed and removed.index(removed[0]) != 0:
            pass
        if bad:
            ctx.violation("R7.3", key, bad, file=f.file, line=f.line)
        else:
            ctx.ok("R7.3", key, sample={"rewriter": c.name, "children": inserted})
    ctx.count("rewriters", nrw)

    # -- R7.4 ------------------------------------------------------------------------------------
    ctx.rule("R7.4", "series idx and order values come from one injective source per chart")
    for cls, member, sk in all_markers[:]:
        pass
    seen_w = set()
    for cls, member, sk in all_markers:
        if cls in seen_w:
            continue
        seen_w.add(cls)
        idx = [mk for mk in sk.markers if mk.elem == prog.qn("c:idx") and mk.attr == "val" and mk.hole is not None]
        order = [mk for mk in sk.markers if mk.elem == prog.qn("c:order") and mk.attr == "val" and mk.hole is not None]
        def _src(h):
            """`series.index` whatever the loop variable over the chart data is called"""
            e = h.expr
            if isinstance(e, ast.Attribute) and e.attr == "index" and isinstance(e.value, ast.Name) and h.fc is not None and h.fc.fn is not None:
                from sa.itersrc import source_of as _so

                for n_ in ast.walk(h.fc.fn.node):
                    if isinstance(n_, (ast.For, ast.comprehension)) and any(isinstance(x, ast.Name) and x.id == e.value.id for x in ast.walk(n_.target)):
                        it_ = n_.iter.args[0] if isinstance(n_.iter, ast.Call) and dotted(n_.iter.func) == "enumerate" and n_.iter.args else n_.iter
                        if _so(h.fc.fn.node, it_, prog, h.fc.fn)["terminal"] == "self._chart_data":
                            return "series.index"
            return h.src

        srcs = {_src(mk.hole) for mk in idx} | {_src(mk.hole) for mk in order}
        lit_idx = [n for n in sk.elems() if n.tag in (prog.qn("c:idx"), prog.qn("c:order")) and n.parent is not None
                   and _enclosing(n).tag == prog.qn("c:ser")]
        single = not idx and not order and lit_idx and all(n.attrs.get("val") == "0" for n in lit_idx) and not any(
            _in_star(n) for n in lit_idx)
        if single:
            ctx.ok("R7.4", cls.name, sample={"writer": cls.name, "note": "single series written once with idx=order=0"})
        elif idx and order and srcs == {"series.index"}:
            ctx.ok("R7.4", cls.name, sample={"writer": cls.name, "idx": "series.index", "order": "series.index"})
        else:
            ctx.violation("R7.4", cls.name, "c:idx/c:order are not both filled from series.index (%s)" % sorted(srcs),
                          file=cls.file, line=cls.line)
    # series.index itself: position in the chart data sequence
    data = prog.modules.get("pptx.chart.data")
    bsd = data.classes.get("_BaseSeriesData") if data else None
    if bsd is None or "index" not in bsd.methods:
        raise AnalysisError("anchor vanished: _BaseSeriesData.index")
    from sa.idioms import max_plus_one, position_lookup, returned_exprs

    cd = data.classes.get("_BaseChartData")
    si = cd.methods.get("series_index") if cd else None
    if si is None:
        raise AnalysisError("anchor vanished: _BaseChartData.series_index")
    _fx, rets = returned_exprs(prog, bsd.methods["index"])
    delegates = len(rets) == 1 and ast.unparse(rets[0]) == "self._chart_data.series_index(self)"
    pl = position_lookup(prog, si)
    if not delegates or pl is None:
        ctx.error("_BaseSeriesData.index", "series.index / series_index not recognised (index returns %s; lookup %s)" % (
            [ast.unparse(r) for r in rets], pl))
    elif pl["source"] == "self" and pl["start"] == 0:
        ctx.ok("R7.4", "_BaseSeriesData.index", sample={"index": "position of the series in its chart data"})
    else:
        ctx.violation("R7.4", "_BaseSeriesData.index", "series.index is not the position of the series in the chart data (%s)" % pl,
                      file=bsd.file, line=bsd.methods["index"].line)
    pa = prog.cls("pptx.oxml.chart.chart", "CT_PlotArea")
    for nm, child in (("next_idx", "idx"), ("next_order", "order")):
        f = pa.methods.get(nm)
        if f is None:
            raise AnalysisError("anchor vanished: CT_PlotArea.%s" % nm)
        mp = max_plus_one(prog, f)
        if mp is None:
            # a value derived from ONE series' number (`last_ser.order.val + 1`) is a counter-fact: it is not the maximum over all
            from sa import paths as P7
            from sa.inline import expand as _exp7

            fx7 = _exp7(prog, f, local_only=True)
            val7 = P7.value_aliases(fx7)
            # the maximum of what an attribute xpath returns is a maximum of *strings* ("9" > "10"): converting the winner afterwards
            # (`int(max(vals))`) does not make it the numeric maximum
            lexi = None
            for c7 in ast.walk(fx7):
                if isinstance(c7, ast.Call) and dotted(c7.func) == "max" and len(c7.args) == 1:
                    a7 = ast.parse(P7.full(c7.args[0], val7, depth=6), mode="eval").body
                    if isinstance(a7, ast.Call) and isinstance(a7.func, ast.Attribute) and a7.func.attr == "xpath" and a7.args:
                        xs = ast.unparse(a7.args[0])
                        if "/@" in xs:
                            lexi = ast.unparse(c7)[:60]
            if lexi:
                ctx.violation("R7.4", "CT_PlotArea." + nm, "allocator takes `%s` of the strings an attribute xpath returns: the maximum is lexicographic "
                              "(\"9\" beats \"10\"), so from the eleventh series on a value already in use is handed out again" % lexi,
                              file=f.file, line=f.line)
                continue
            single = []
            for r7 in P7.outcomes(fx7.body, P7.aliases(fx7)):
                if r7.end != "return" or r7.path.end_node.value is None:
                    continue
                v7 = ast.parse(P7.full(r7.path.end_node.value, val7, depth=8), mode="eval").body
                if isinstance(prog.const(v7, f.module), int):
                    continue
                agg = any(isinstance(c, (ast.ListComp, ast.GeneratorExp, ast.SetComp)) or (isinstance(c, ast.Call) and dotted(c.func) in (
                    "max", "min", "sorted", "sum", "len", "reduce", "functools.reduce", "map")) for c in ast.walk(v7))
                reads = [c for c in ast.walk(v7) if isinstance(c, ast.Attribute) and c.attr == "val" and isinstance(c.value, ast.Attribute) and c.value.attr == child]
                loops = any(isinstance(c, (ast.For, ast.While)) for c in ast.walk(fx7))
                if reads and not agg and not loops:
                    single.append(ast.unparse(v7))
            if single:
                ctx.violation("R7.4", "CT_PlotArea." + nm, "allocator is not max(existing %s over all series of the chart)+1: the next value is derived "
                              "from one series only (`%s`); a series elsewhere in the chart may already carry it" % (child, single[0][:80]),
                              file=f.file, line=f.line)
            else:
                ctx.error("CT_PlotArea." + nm, "allocator not recognised (expected max(<%s of every series>) + 1)" % child)
            continue
        ok = mp["elt"] == "_.%s.val" % child and "self.sers" in mp["via"] + [mp["terminal"]] and not mp["filtered"] and mp["empty"] == 0
        if ok:
            ctx.ok("R7.4", "CT_PlotArea." + nm, sample={"allocator": nm, "population": "self.sers (all plots)", "idiom": "max+1"})
        else:
            ctx.violation("R7.4", "CT_PlotArea." + nm, "allocator is not max(existing %s over all series of the chart)+1" % child,
                          file=f.file, line=f.line)
    sers = pa.methods.get("sers")
    it = pa.methods.get("iter_sers")
    if sers is None or it is None or "iter_xCharts" not in ast.unparse(it.node):
        ctx.violation("R7.4", "CT_PlotArea.sers", "population does not range over every plot of the chart", file=pa.file,
                      line=pa.line)
    else:
        ctx.ok("R7.4", "CT_PlotArea.sers", nontrivial=False)
    base = xm.classes.get("_BaseSeriesXmlRewriter")
    f = base.methods.get("_add_cloned_sers") if base else None
    if f is None:
        raise AnalysisError("anchor vanished: _BaseSeriesXmlRewriter._add_cloned_sers")
    got = set()
    from sa.inline import walk_expanded

    for n, _owner in walk_expanded(prog, f, depth=2, by_name=True):
        if isinstance(n, ast.Assign) and isinstance(n.targets[0], ast.Attribute) and n.targets[0].attr == "val" \
                and isinstance(n.targets[0].value, ast.Attribute) and isinstance(n.value, ast.Attribute):
            got.add((n.targets[0].value.attr, n.value.attr))
    if {("idx", "next_idx"), ("order", "next_order")} <= got:
        ctx.ok("R7.4", "_add_cloned_sers", sample={"clone": "idx <- next_idx, order <- next_order"})
    else:
        ctx.violation("R7.4", "_add_cloned_sers", "cloned series do not take idx/order from the allocators", file=f.file,
                      line=f.line)

    # -- R7.5 ------------------------------------------------------------------------------------
    ctx.rule("R7.5", "c:ptCount/@val holes are the length of the sequence whose points the sibling loop writes")
    from checks import c07_ptcount

    c07_ptcount.run(ctx, prog, S, M, T, all_markers)

    # -- R7.6 ------------------------------------------------------------------------------------
    ctx.rule("R7.6", "date category labels are cached as serial numbers of the standard's 1900 / 1904 date systems")
    from checks.c08 import date_system_rule

    date_system_rule(ctx, prog, "R7.6")

    # -- R7.7 ------------------------------------------------------------------------------------
    ctx.rule("R7.7", "for every chart type, replace_data rewrites the series with the series writer add_chart used")
    from checks.c08 import writer_rewriter_rule

    writer_rewriter_rule(ctx, prog, "R7.7")

    # -- R7.8 ------------------------------------------------------------------------------------
    ctx.rule("R7.8", "chart.chart_type reads back the type each chart was written as (PlotTypeInspector over the writers' templates)")
    from checks import c20_charts

    c20_charts.run(ctx, prog, S, M, all_markers, "R7.8")

    _r79(ctx, prog)


# -- R7.9 -------------------------------------------------------------------------------------------
def _r79(ctx, prog):
    """`Category.idx` (the c:pt/@idx of a category in a level, and the offset of its leaves) is the position of that very object in
    the hierarchy: `Categories.index` / `Category.index` look the node up among its siblings.  Two siblings may carry the same label
    (and the same sub-tree), so the lookup has to tell them apart by identity: with an equality lookup (`==`, `in`, `list.index`) and
    a value-style `__eq__` on the node class the first equal sibling is found, and a repeated label gets the idx of its first
    occurrence - the cached points of a level collide."""
    ctx.rule("R7.9", "a category's position among its siblings is found by identity")
    dm = prog.modules.get("pptx.chart.data")
    cat = dm.classes.get("Category") if dm else None
    cats = dm.classes.get("Categories") if dm else None
    if not (cat and cats):
        raise AnalysisError("anchor vanished: pptx.chart.data.Category / Categories")
    from checks.c02 import _identity_eq

    eq = prog.lookup(cat, "__eq__")
    value_eq = eq is not None and not _identity_eq(eq)
    n = 0
    for c in (cats, cat):
        f = c.methods.get("index")
        if f is None:
            ctx.error("%s.index" % c.name, "position lookup not found")
            continue
        n += 1
        key = "%s.index" % c.name
        p = f.params[1] if len(f.params) > 1 else None
        from sa.inline import resolve_callee as _rc79

        by_is, by_eq = [], []
        todo, seen79 = [(f, p)], set()
        while todo:
            g_, pn = todo.pop()
            if (g_, pn) in seen79 or len(seen79) > 4:
                continue
            seen79.add((g_, pn))
            gn = g_.node
            by_is += [x for x in ast.walk(gn) if isinstance(x, ast.Compare) and len(x.ops) == 1 and isinstance(x.ops[0], (ast.Is, ast.IsNot))
                      and pn in (dotted(x.left), dotted(x.comparators[0]))]
            by_eq += [x for x in ast.walk(gn) if isinstance(x, ast.Compare) and len(x.ops) == 1 and isinstance(x.ops[0], (ast.Eq, ast.NotEq, ast.In, ast.NotIn))
                      and pn in (dotted(x.left), dotted(x.comparators[0]))]
            by_eq += [x for x in ast.walk(gn) if isinstance(x, ast.Call) and isinstance(x.func, ast.Attribute) and x.func.attr in ("index", "count")
                      and x.args and dotted(x.args[0]) == pn and dotted(x.func.value) not in ("self._parent",)]
            # the search may live in a helper the node is handed to
            for c_ in [x for x in ast.walk(gn) if isinstance(x, ast.Call) and any(dotted(a_) == pn for a_ in x.args)]:
                try:
                    rc_ = _rc79(prog, g_, c_, {})
                except Exception:  # noqa: BLE001
                    rc_ = None
                if rc_ is not None and hasattr(rc_[0], "node") and hasattr(rc_[0], "params") and rc_[0].module is f.module:
                    h_ = rc_[0]
                    hps = h_.params[1:] if rc_[1] else h_.params
                    for i_, a_ in enumerate(c_.args):
                        if dotted(a_) == pn and i_ < len(hps):
                            todo.append((h_, hps[i_]))
        if by_eq and value_eq:
            ctx.violation("R7.9", key, "%s looks the node up by equality (`%s`) and %s defines a value-style __eq__ (line %d): of two siblings with the "
                          "same label the first is found, so a repeated label gets the idx of its first occurrence" % (
                              key, ast.unparse(by_eq[0])[:60], cat.name, eq.line), file=f.file, line=by_eq[0].lineno)
        elif by_eq or by_is:
            ctx.ok("R7.9", key, sample={"lookup": "identity (`is`)" if by_is and not by_eq else "equality, and %s keeps object identity as equality" % cat.name})
        else:
            ctx.error(key, "how the node is located among its siblings is not recognised")
    ctx.count("position_lookups", n)
