"""Where does an iteration draw its elements from?  `source_of(fnode, expr)` follows an iterable expression back through

    sorted(...) / list / tuple / reversed / iter / enumerate            (order or shape only)
    generator expressions and list comprehensions                        (filtering recorded when they have `if` clauses)
    dict / set comprehensions, dict(...), set(...)                       (lossy unless keyed by the element itself)
    local names bound once, calls of nested functions / self-methods whose body is a single return

to a terminal expression (for instance `self.keys()`), and reports {"terminal": text, "filtered": [...], "lossy": [...],
"conds": [(element variable, filter test)]} - the last for filters of identity generators, which entry_facts() turns into facts
about the consuming loop's variable.
"""

from __future__ import annotations

import ast

from .pysrc import dotted

STOP_AT = {"content_children"}  # named populations that rules refer to as such (not followed into their definition)
ORDER_ONLY = {"sorted", "list", "tuple", "reversed", "iter", "enumerate"}


def _binding(fnode, name):
    vals = [n.value for n in ast.walk(fnode) if isinstance(n, ast.Assign) and len(n.targets) == 1 and isinstance(n.targets[0], ast.Name)
            and n.targets[0].id == name]
    return vals[0] if len(vals) == 1 else None


def _single_return(fn):
    rets = [n for n in ast.walk(fn) if isinstance(n, ast.Return) and n.value is not None]
    return rets[0].value if len(rets) == 1 else None


def source_of(fnode, expr, prog=None, func=None, depth=0, out=None):
    out = out if out is not None else {"terminal": None, "filtered": [], "lossy": [], "conds": [], "via": []}
    if isinstance(expr, (ast.Attribute, ast.Call)) and (dotted(expr if isinstance(expr, ast.Attribute) else expr.func) or "").startswith(("self.", "cls.")):
        out["via"].append(ast.unparse(expr))   # named populations passed through on the way to the terminal
    if depth > 8 or expr is None:
        out["terminal"] = ast.unparse(expr) if expr is not None else None
        return out
    if isinstance(expr, ast.Call) and (dotted(expr.func) or "") in ("map", "filter", "itertools.filterfalse", "filterfalse"):
        from .desugar import simplify_functional

        e2 = simplify_functional(expr)   # map / filter pipelines read as the generator expressions they are
        if not isinstance(e2, ast.Call):
            ast.fix_missing_locations(e2)
            return source_of(fnode, e2, prog, func, depth + 1, out)
    if isinstance(expr, ast.Call):
        d = dotted(expr.func)
        if d in ORDER_ONLY and expr.args:
            return source_of(fnode, expr.args[0], prog, func, depth + 1, out)
        if d in ("set", "frozenset", "dict") and expr.args:
            a = expr.args[0]
            if isinstance(a, (ast.GeneratorExp, ast.ListComp)):
                g = a.generators[0]
                tn = {x.id for x in ast.walk(g.target) if isinstance(x, ast.Name)}
                k = a.elt.elts[0] if d == "dict" and isinstance(a.elt, ast.Tuple) and a.elt.elts else a.elt
                if not _carries(k, tn):
                    out["lossy"].append(ast.unparse(expr)[:70])
            return source_of(fnode, a, prog, func, depth + 1, out)
        if isinstance(expr.func, ast.Attribute) and expr.func.attr in ("values", "keys", "items") and not expr.args \
                and isinstance(expr.func.value, (ast.DictComp, ast.Dict, ast.Call, ast.Name)) and dotted(expr.func.value) not in ("self",):
            base = expr.func.value
            if isinstance(base, ast.Name):
                b = _binding(fnode, base.id)
                if isinstance(b, (ast.DictComp, ast.Call)):
                    return source_of(fnode, b, prog, func, depth + 1, out)
            else:
                return source_of(fnode, base, prog, func, depth + 1, out)
        # nested function / helper with a single return and no arguments that matter
        if isinstance(expr.func, ast.Name):
            for n in ast.walk(fnode):
                if isinstance(n, ast.FunctionDef) and n.name == expr.func.id and n is not fnode:
                    r = _single_return(n)
                    if r is not None:
                        return source_of(n, r, prog, func, depth + 1, out)
        # a filtering generator over its parameter: `def keep(self, xs): for x in xs: if ok(x): yield x`  called as self.keep(SRC)
        if prog is not None and func is not None and isinstance(expr.func, ast.Attribute) and dotted(expr.func.value) in ("self", "cls") \
                and func.cls is not None and len(expr.args) == 1 and not expr.keywords:
            g = prog.lookup(func.cls, expr.func.attr)
            if g is not None and g.module.name.startswith("pptx"):
                ps = [a.arg for a in g.node.args.args if a.arg not in ("self", "cls")]
                loops = [n for n in ast.walk(g.node) if isinstance(n, ast.For) and isinstance(n.iter, ast.Name) and ps and n.iter.id == ps[0]
                         and isinstance(n.target, ast.Name)]
                ys = [y for y in ast.walk(g.node) if isinstance(y, ast.Yield)]
                if len(loops) == 1 and ys and all(isinstance(y.value, ast.Name) and y.value.id == loops[0].target.id for y in ys) \
                        and all(any(y is z for z in ast.walk(loops[0])) for y in ys):
                    for t in [x.test for x in ast.walk(loops[0]) if isinstance(x, ast.If)]:
                        out["filtered"].append(ast.unparse(t))
                    # what is known about a yielded element (facts on every path to the yield, in the helper's normalised terms)
                    from . import paths as P_

                    gal = P_.aliases(g.node)
                    per_path = []
                    for pth in P_.enum_paths(loops[0].body):
                        for i_, e_ in enumerate(pth.events):
                            if e_[0] == "stmt" and any(isinstance(z, ast.Yield) for z in ast.walk(e_[1])):
                                per_path.append(set(P_.facts(pth, i_, gal)))
                    common = set.intersection(*per_path) if per_path else set()
                    out.setdefault("gen_facts", []).extend((loops[0].target.id, a_) for a_ in sorted(common, key=repr))
                    out["via"].append(ast.unparse(expr))
                    return source_of(fnode, expr.args[0], prog, func, depth + 1, out)
        if prog is not None and func is not None and isinstance(expr.func, ast.Attribute) and dotted(expr.func.value) in ("self", "cls") \
                and func.cls is not None and not expr.args:
            g = prog.lookup(func.cls, expr.func.attr)
            if g is not None and g.module.name.startswith("pptx") and expr.func.attr not in ("keys", "values", "items"):
                r = _single_return(g.node)
                if r is not None:
                    return source_of(g.node, r, prog, g, depth + 1, out)
        out["terminal"] = ast.unparse(expr)
        return out
    if isinstance(expr, (ast.GeneratorExp, ast.ListComp)):
        for g in expr.generators:
            for c in g.ifs:
                out["filtered"].append(ast.unparse(c))
                # a filter on the element itself (identity projection): usable as a fact about the consumer's loop variable
                if len(expr.generators) == 1 and isinstance(g.target, ast.Name) and isinstance(expr.elt, ast.Name) and expr.elt.id == g.target.id:
                    out["conds"].append((g.target.id, c))
        return source_of(fnode, expr.generators[0].iter, prog, func, depth + 1, out)
    if isinstance(expr, (ast.DictComp, ast.SetComp)):
        g = expr.generators[0]
        tn = {x.id for x in ast.walk(g.target) if isinstance(x, ast.Name)}
        k = expr.key if isinstance(expr, ast.DictComp) else expr.elt
        if not _carries(k, tn):
            out["lossy"].append(ast.unparse(expr)[:70])
        for c in g.ifs:
            out["filtered"].append(ast.unparse(c))
        return source_of(fnode, g.iter, prog, func, depth + 1, out)
    if isinstance(expr, ast.Name):
        b = _binding(fnode, expr.id)
        if b is not None:
            return source_of(fnode, b, prog, func, depth + 1, out)
    # a property of the same class whose body is one returned iterable (`self.paragraphs` -> tuple(P(p) for p in self._txBody.p_lst))
    if prog is not None and func is not None and func.cls is not None and isinstance(expr, ast.Attribute) and dotted(expr.value) == "self" \
            and expr.attr not in STOP_AT:
        g = prog.lookup(func.cls, expr.attr)
        if g is not None and g.module.name.startswith("pptx") and any(
                (dotted(d) or "").split(".")[-1] in ("property", "lazyproperty") for d in g.node.decorator_list):
            r = _single_return(g.node)
            if isinstance(r, (ast.GeneratorExp, ast.ListComp)) or (isinstance(r, ast.Call) and dotted(r.func) in ORDER_ONLY | {"tuple", "list"}):
                return source_of(g.node, r, prog, g, depth + 1, out)
    out["terminal"] = ast.unparse(expr)
    return out


def _carries(k, names):
    """the key expression is (or contains as a tuple component / attribute .rId of) the iterated element itself"""
    if isinstance(k, ast.Name):
        return k.id in names
    if isinstance(k, ast.Tuple):
        return any(_carries(e, names) for e in k.elts)
    if isinstance(k, ast.Attribute) and k.attr in ("rId", "partname"):
        return True
    return False


def entry_facts(fnode, loop, al=None, prog=None, func=None):
    """Facts that hold for the loop variable on entry to every iteration of `for v in <filtered identity generator>`."""
    from . import paths as P_
    import copy

    if not isinstance(loop.target, ast.Name):
        return []
    src = source_of(fnode, loop.iter, prog, func)
    out = []
    for var, test in src["conds"]:
        class R(ast.NodeTransformer):
            def visit_Name(self, n):
                return ast.Name(id=loop.target.id, ctx=n.ctx) if n.id == var else n
        out += P_.atoms(R().visit(copy.deepcopy(test)), True, al)
    return out
